#!/usr/bin/env python3
"""Entry point of every check:  python3 py/check.py Cxx --tier quick|thorough [--replay file]
                               python3 py/check.py --setup"""
import argparse
import importlib
import os
import sys

sys.path.insert(0, os.path.dirname(os.path.abspath(__file__)))
import lib


def setup():
    ok, out, tok, tlog = lib.build_coq()
    if not tok:
        print(tlog[-3000:])
    if not ok:
        print(out[-6000:])
        return 1
    okm, mlog = lib.build_model()
    if not okm:
        print(mlog[-4000:])
        return 1
    okh, hlog = lib.build_harness()
    if not okh:
        print(hlog[-4000:])
        return 1
    print('setup ok')
    return 0


def main():
    ap = argparse.ArgumentParser()
    ap.add_argument('prop', nargs='?')
    ap.add_argument('--tier', default=os.environ.get('VERIF_TIER', 'quick'))
    ap.add_argument('--replay')
    ap.add_argument('--setup', action='store_true')
    a = ap.parse_args()
    if a.setup:
        sys.exit(setup())
    if a.tier not in ('quick', 'thorough'):
        a.tier = 'quick'
    seed = int(os.environ.get('VERIF_SEED', '20260923') or 0)
    if a.replay:
        sys.exit(lib.replay_case(a.prop, a.replay))
    mod = importlib.import_module('props.' + a.prop.lower())
    ctx = lib.Ctx(a.prop, a.tier, seed)
    mod.run(ctx)
    sys.exit(ctx.finish())


if __name__ == '__main__':
    main()
