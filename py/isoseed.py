#!/usr/bin/env python3
"""Confirm a seeded change and run checks against it in an ISOLATED copy (development tool, not a registered check).

  isoseed.py <id> [Cxx ...]

/repo and /verif are copied to /tmp/iso_<id>/{repo,verif}; the demonstration is run without and with the patch, the build and the whole
test suite are run with it, then - inside a private mount namespace in which the copies are bind-mounted over /repo and /verif, so that
the checks run exactly as registered - the quick checks of the property (or the given ones).  Results go to seeded/<id>/meta.json of the
REAL /verif; the copy is removed.  Several of these can run side by side; /repo itself is never touched."""
import json, os, shutil, subprocess, sys

ROOT = os.path.dirname(os.path.dirname(os.path.abspath(__file__)))
ENV = dict(os.environ, GOFLAGS='-mod=mod', GOPROXY='off', GOSUMDB='off', GOTOOLCHAIN='local')


def sh(cmd, cwd=None, timeout=3600):
    p = subprocess.run(cmd, shell=True, cwd=cwd, env=ENV, stdout=subprocess.PIPE, stderr=subprocess.STDOUT, timeout=timeout)
    return p.returncode, p.stdout.decode('utf-8', 'replace')


def main():
    sid = sys.argv[1]
    d = os.path.join(ROOT, 'seeded', sid)
    meta_p = os.path.join(d, 'meta.json')
    meta = json.load(open(meta_p))
    props = sys.argv[2:] or [meta['property']]
    iso = '/tmp/iso_' + sid
    shutil.rmtree(iso, ignore_errors=True)
    os.makedirs(iso)
    repo, verif = iso + '/repo', iso + '/verif'
    sh('cp -a /repo %s && mkdir %s && cd /verif && tar cf - --exclude=./work --exclude=./.git . | tar xf - -C %s' % (repo, verif, verif))
    res = {}
    try:
        def place():
            out = []
            for src, dst in meta['demo'].get('files', {}).items():
                p = os.path.join(repo, dst)
                shutil.copy(os.path.join(d, src), p)
                out.append(p)
            return out

        def unplace(ps):
            for p in ps:
                os.remove(p)
        ps = place()
        rc, out = sh(meta['demo']['cmd'], repo)
        res['demo_without_patch'] = 'pass' if rc == 0 else 'FAIL'
        unplace(ps)
        rc, out = sh('git apply %s/patch.diff' % d, repo)
        if rc:
            raise SystemExit('patch does not apply: ' + out)
        rc, out = sh('go build ./...', repo)
        res['builds'] = rc == 0
        rc, out = sh('go test -vet=off -count=1 -p 4 ./... 2>&1 | tail -40', repo)
        bad = [l for l in out.splitlines() if l.startswith('FAIL') or l.startswith('---') or 'panic' in l]
        res['test_suite'] = 'pass' if not bad else 'FAIL: ' + '; '.join(bad[:5])
        ps = place()
        rc, out = sh(meta['demo']['cmd'], repo)
        res['demo_with_patch'] = 'fail' if rc != 0 else 'PASSES'
        res['demo_output'] = out[-1500:]
        unplace(ps)
        meta['confirmed'] = res
        meta['genuine'] = bool(res.get('builds') and res.get('test_suite') == 'pass' and res.get('demo_with_patch') == 'fail' and res.get('demo_without_patch') == 'pass')
        checks = meta.get('checks', {})
        for p in props:
            cmd = ("unshare -m sh -c 'mount --bind %s /repo && mount --bind %s /verif && cd /verif && python3 py/check.py %s --tier quick'" % (repo, verif, p))
            rc, out = sh(cmd, timeout=7200)
            viol = [l for l in out.splitlines() if l.startswith('VIOLATION')]
            checks['%s/quick' % p] = {'exit': rc, 'violation': viol[:3]}
            if viol and 'replay=' in viol[0]:
                rp = viol[0].split('replay=')[1].split()[0].replace('/verif/', verif + '/', 1)
                if os.path.exists(rp):
                    shutil.copy(rp, os.path.join(d, 'replay_%s_quick%s' % (p, os.path.splitext(rp)[1] or '.txt')))
            open(os.path.join(d, 'check_%s.log' % p), 'w').write(out[-6000:])
            print(sid, p, 'exit', rc, viol[:1], flush=True)
        meta['checks'] = checks
        meta['caught'] = any(v['exit'] == 1 and v['violation'] for v in checks.values())
        json.dump(meta, open(meta_p, 'w'), indent=1)
        print(sid, json.dumps({k: v for k, v in res.items() if k != 'demo_output'}), 'genuine=%s caught=%s' % (meta['genuine'], meta['caught']), flush=True)
    finally:
        shutil.rmtree(iso, ignore_errors=True)


if __name__ == '__main__':
    main()
