"""Generators of values, expressions, stores, requests and policies (as s-expression lists).
All randomness comes from the rng passed in."""
from sx import S, dump

MAX64 = 2 ** 63 - 1
MIN64 = -2 ** 63
DAY = 86400000

LONGS = [0, 1, -1, 2, 7, 10, 100, 1000, 86400000, -86400000, MAX64, MIN64, MAX64 - 1, MIN64 + 1,
         2 ** 31, 2 ** 32, 3037000500, -3037000500, 4294967296, -4294967296, 2 ** 62, -2 ** 62, 9999, 10000,
         # beyond the integers a float64 holds exactly (a decoder that goes through float64 rounds these), far from the int64 ends
         2 ** 53, 2 ** 53 + 1, -(2 ** 53) - 1, 2 ** 53 - 1, 2 ** 60 + 1, 1234567890123456789, -1234567890123456789, MAX64 - 1000, MIN64 + 1001, 10 ** 18 + 1]
STRINGS = ['', 'a', 'ab', 'abc', 'alice', 'a*b', '*', 'é', 'aéb', 'éé', 'hello world', 'k', 'x.y', 'aaa', 'aab', 'abab',
           '日本', '\x00', 'A', 'b']
ETYPES = ['User', 'Group', 'Doc', 'Action', 'NS::T']
EIDS = ['a', 'b', 'c', 'd', 'e', '']
KEYS = ['a', 'b', 'k', 'name', 'n', 'x y', '', 'é', 'flag']
DECS = [0, 1, -1, 10000, -10000, 12345, MAX64, MIN64, 5000, -5000, 1, 9999]
DTS = [0, 1, -1, DAY, -DAY, DAY - 1, -DAY + 1, -DAY - 1, MAX64, MIN64, MIN64 + DAY, MIN64 + DAY - 1, MAX64 - DAY,
       1700000000000, -62135596800000, -62135596800001, 253402300799999, 253402300800000, -62167219200000, -62167219200001, 951782400000]
DURS = [0, 1, -1, 1000, 60000, 3600000, DAY, -DAY, DAY + 1, MAX64, MIN64, MIN64 + 1, 90061001, -90061001, 999, 59999]
IPS = [('4', 0x7f000001, 32), ('4', 0x7f000001, 8), ('4', 0x7f000000, 8), ('4', 0xe0000001, 32), ('4', 0xe0000000, 4),
       ('4', 0xe0000000, 3), ('4', 0x0a000001, 32), ('4', 0x0a000000, 8), ('4', 0x0a000000, 24), ('4', 0, 0), ('4', 0xffffffff, 32),
       ('6', 1, 128), ('6', 0, 128), ('6', 1, 127), ('6', 0xff << 120, 8), ('6', 0xff << 120, 7), ('6', (0xff << 120) + 1, 128),
       ('6', 0xffff7f000001, 128), ('6', 0xffffe0000001, 128), ('6', 0xffff7f000001, 104), ('6', 0x20010db8 << 96, 32),
       ('6', (0x20010db8 << 96) + 1, 128), ('6', 0, 0), ('6', 2 ** 128 - 1, 128)]


def vbool(b): return ['b', '1' if b else '0']
def vlong(z): return ['l', str(z)]
def vstr(s): return ['s', S(s)]
def vent(t, i): return ['e', S(t), S(i)]
def vset(xs): return ['set'] + list(xs)
def vrec(kvs): return ['rec'] + [[S(k), v] for k, v in kvs]
def vdec(z): return ['dec', str(z)]
def vdt(z): return ['dt', str(z)]
def vdur(z): return ['dur', str(z)]
def vip(t): return ['ip', t[0], str(t[1]), str(t[2])]


def lit(v): return ['lit', v]


class Gen:
    def __init__(self, rng, wf_calls=False):
        self.r = rng
        self.wf_calls = wf_calls      # only extension calls that have a Cedar text form (known name, methods with a receiver)

    # ---------------- values
    def uid(self, small=True):
        r = self.r
        if small:
            return vent(r.choice(ETYPES[:3]), r.choice(EIDS[:4]))
        return vent(r.choice(ETYPES), r.choice(EIDS))

    def scalar(self):
        r = self.r
        k = r.randrange(9)
        if k == 0: return vbool(r.random() < 0.5)
        if k == 1: return vlong(r.choice(LONGS) if r.random() < 0.7 else r.randrange(-50, 50))
        if k == 2: return vstr(r.choice(STRINGS))
        if k == 3: return self.uid()
        if k == 4: return vdec(r.choice(DECS))
        if k == 5: return vdt(r.choice(DTS))
        if k == 6: return vdur(r.choice(DURS))
        if k == 7: return vip(r.choice(IPS))
        return vlong(r.randrange(-3, 4))

    def value(self, depth=2):
        r = self.r
        if depth <= 0 or r.random() < 0.55:
            return self.scalar()
        if r.random() < 0.5:
            n = r.randrange(0, 4)
            if r.random() < 0.5:
                # homogeneous-ish, with collisions: values whose hashes coincide (true/1/decimal 0.0001/1ms/datetime 1)
                pool = [vbool(True), vlong(1), vdec(1), vdur(1), vdt(1), vlong(-1), vdec(-1), vdur(-1), vlong(0), vbool(False)]
                return vset([r.choice(pool) for _ in range(n)])
            return vset([self.value(depth - 1) for _ in range(n)])
        n = r.randrange(0, 4)
        return vrec([(r.choice(KEYS), self.value(depth - 1)) for _ in range(n)])

    # ---------------- stores
    def store(self, n=None):
        r = self.r
        uids = [(t, i) for t in ETYPES[:3] for i in EIDS[:4]]
        present = [u for u in uids if r.random() < 0.6]
        ents = []
        for (t, i) in present:
            parents = [vent(*r.choice(uids)) for _ in range(r.choice([0, 0, 1, 1, 2, 3]))]
            attrs = [(k, self.value(1)) for k in r.sample(KEYS, r.randrange(0, 4))]
            tags = [(k, self.value(1)) for k in r.sample(KEYS, r.randrange(0, 3))]
            ents.append(['ent', vent(t, i), ['parents'] + parents, ['attrs'] + [[S(k), v] for k, v in attrs],
                         ['tags'] + [[S(k), v] for k, v in tags]])
        return ['store'] + ents

    def request(self):
        r = self.r
        ctx = vrec([(k, self.value(2)) for k in r.sample(KEYS, r.randrange(0, 5))])
        return ['req', self.uid(), vent('Action', r.choice(['view', 'edit'])), self.uid(), ctx]

    # ---------------- expressions
    BIN = ['and', 'or', 'add', 'sub', 'mul', 'eq', 'ne', 'lt', 'le', 'gt', 'ge', 'in', 'contains', 'containsAll',
           'containsAny', 'getTag', 'hasTag']
    UN = ['not', 'neg', 'isEmpty']
    EXT1 = ['decimal', 'ip', 'datetime', 'duration', 'isIpv4', 'isIpv6', 'isLoopback', 'isMulticast', 'toDate', 'toTime',
            'toDays', 'toHours', 'toMinutes', 'toSeconds', 'toMilliseconds']
    EXT2 = ['lessThan', 'lessThanOrEqual', 'greaterThan', 'greaterThanOrEqual', 'isInRange', 'offset', 'durationSince']

    def pattern(self):
        r = self.r
        comps = []
        for _ in range(r.randrange(0, 5)):
            if r.random() < 0.45:
                comps.append(['w'])
            else:
                comps.append(S(r.choice(['a', 'b', 'ab', 'aa', '', 'é', 'c', 'lice', 'al', 'hello', ' ', 'wor'])))
        return ['pat'] + comps

    def leaf(self):
        r = self.r
        k = r.random()
        if k < 0.2:
            return ['var', r.choice(['principal', 'action', 'resource', 'context'])]
        if k < 0.3:
            return ['access', ['var', 'context'], S(r.choice(KEYS))]
        return lit(self.value(1))

    def expr(self, depth=3, want=None):
        """want: None | 'bool' | 'long' | 'set' | 'entity' | 'string' | 'dec' | 'dt' | 'dur' | 'ip' — a hint, violated 15% of the time"""
        r = self.r
        if want is not None and r.random() < 0.15:
            want = None
        if depth <= 0:
            return self.typed_leaf(want)
        if want == 'bool':
            k = r.randrange(14)
            d = depth - 1
            if k == 0: return ['and', self.expr(d, 'bool'), self.expr(d, 'bool')]
            if k == 1: return ['or', self.expr(d, 'bool'), self.expr(d, 'bool')]
            if k == 2: return ['not', self.expr(d, 'bool')]
            if k == 3: return [r.choice(['eq', 'ne']), self.expr(d), self.expr(d)]
            if k == 4:
                t = r.choice(['long', 'dt', 'dur'])
                return [r.choice(['lt', 'le', 'gt', 'ge']), self.expr(d, t), self.expr(d, t)]
            if k == 5: return ['in', self.expr(d, 'entity'), self.expr(d, r.choice(['entity', 'set']))]
            if k == 6: return [r.choice(['contains', 'containsAll', 'containsAny']), self.expr(d, 'set'), self.expr(d, r.choice(['set', None]))]
            if k == 7: return ['isEmpty', self.expr(d, 'set')]
            if k == 8: return ['has', self.expr(d, r.choice(['entity', 'rec'])), S(r.choice(KEYS))]
            if k == 9: return ['like', self.expr(d, 'string'), self.pattern()]
            if k == 10:
                if r.random() < 0.5:
                    return ['is', self.expr(d, 'entity'), S(r.choice(ETYPES))]
                return ['isIn', self.expr(d, 'entity'), S(r.choice(ETYPES)), self.expr(d, r.choice(['entity', 'set']))]
            if k == 11: return ['hasTag', self.expr(d, 'entity'), self.expr(d, 'string')]
            if k == 12:
                f = r.choice(['lessThan', 'lessThanOrEqual', 'greaterThan', 'greaterThanOrEqual'])
                return ['call', S(f), self.expr(d, 'dec'), self.expr(d, 'dec')]
            f = r.choice(['isIpv4', 'isIpv6', 'isLoopback', 'isMulticast', 'isInRange'])
            if f == 'isInRange':
                return ['call', S(f), self.expr(d, 'ip'), self.expr(d, 'ip')]
            return ['call', S(f), self.expr(d, 'ip')]
        if want == 'long':
            k = r.randrange(6)
            d = depth - 1
            if k <= 2: return [r.choice(['add', 'sub', 'mul']), self.expr(d, 'long'), self.expr(d, 'long')]
            if k == 3: return ['neg', self.expr(d, 'long')]
            if k == 4: return ['call', S(r.choice(['toDays', 'toHours', 'toMinutes', 'toSeconds', 'toMilliseconds'])), self.expr(d, 'dur')]
            return ['if', self.expr(d, 'bool'), self.expr(d, 'long'), self.expr(d, 'long')]
        if want == 'dt':
            k = r.randrange(3)
            d = depth - 1
            if k == 0: return ['call', S('offset'), self.expr(d, 'dt'), self.expr(d, 'dur')]
            if k == 1: return ['call', S('toDate'), self.expr(d, 'dt')]
            return self.typed_leaf('dt')
        if want == 'dur':
            k = r.randrange(3)
            d = depth - 1
            if k == 0: return ['call', S('durationSince'), self.expr(d, 'dt'), self.expr(d, 'dt')]
            if k == 1: return ['call', S('toTime'), self.expr(d, 'dt')]
            return self.typed_leaf('dur')
        if want == 'set':
            if r.random() < 0.6:
                return ['mkset'] + [self.expr(depth - 1, r.choice([None, 'long', 'entity'])) for _ in range(r.randrange(0, 4))]
            return self.typed_leaf('set')
        if want == 'rec':
            if r.random() < 0.6:
                if self.wf_calls:
                    return ['mkrec'] + [[S(k), self.expr(depth - 1)] for k in r.sample(KEYS, r.randrange(0, 4))]
                return ['mkrec'] + [[S(r.choice(KEYS)), self.expr(depth - 1)] for _ in range(r.randrange(0, 4))]
            return self.typed_leaf('rec')
        if want in ('entity', 'string', 'dec', 'ip'):
            if r.random() < 0.3:
                return ['if', self.expr(depth - 1, 'bool'), self.expr(depth - 1, want), self.expr(depth - 1, want)]
            if r.random() < 0.3:
                return ['access', self.expr(depth - 1, r.choice(['entity', 'rec'])), S(r.choice(KEYS))]
            if want == 'entity' or r.random() < 0.5:
                return self.typed_leaf(want)
            return ['getTag', self.expr(depth - 1, 'entity'), self.expr(depth - 1, 'string')]
        # untyped
        k = r.random()
        if k < 0.5:
            return self.expr(depth, r.choice(['bool', 'long', 'set', 'rec', 'entity', 'string', 'dec', 'dt', 'dur', 'ip']))
        if k < 0.6:
            return ['if', self.expr(depth - 1, 'bool'), self.expr(depth - 1), self.expr(depth - 1)]
        if k < 0.7:
            if self.wf_calls:
                n = r.choice(self.EXT1 + self.EXT2)
                lo = 0 if n in ('decimal', 'ip', 'datetime', 'duration') else 1
                return ['call', S(n)] + [self.expr(depth - 1) for _ in range(r.choice([lo, 1, 1, 2, 2, 3]))]
            n = r.choice(self.EXT1 + self.EXT2 + ['nosuch', 'decimal'])
            return ['call', S(n)] + [self.expr(depth - 1) for _ in range(r.choice([0, 1, 1, 2, 2, 3]))]
        if k < 0.8:
            return [r.choice(self.BIN), self.expr(depth - 1), self.expr(depth - 1)]
        return self.leaf()

    def typed_leaf(self, want):
        r = self.r
        if want == 'bool':
            return lit(vbool(r.random() < 0.5)) if r.random() < 0.7 else ['access', ['var', 'context'], S('flag')]
        if want == 'long':
            return lit(vlong(r.choice(LONGS) if r.random() < 0.5 else r.randrange(-5, 6))) if r.random() < 0.8 else ['access', ['var', 'context'], S('n')]
        if want == 'string':
            return lit(vstr(r.choice(STRINGS)))
        if want == 'entity':
            k = r.random()
            if k < 0.4: return ['var', r.choice(['principal', 'action', 'resource'])]
            return lit(self.uid())
        if want == 'set':
            return lit(vset([self.value(1) for _ in range(r.randrange(0, 4))])) if r.random() < 0.5 else \
                lit(vset([self.uid() for _ in range(r.randrange(0, 4))]))
        if want == 'rec':
            return lit(vrec([(r.choice(KEYS), self.value(1)) for _ in range(r.randrange(0, 3))])) if r.random() < 0.6 else ['var', 'context']
        if want == 'dec':
            return lit(vdec(r.choice(DECS))) if r.random() < 0.6 else ['call', S('decimal'), lit(vstr(r.choice(DEC_STRS)))]
        if want == 'dt':
            return lit(vdt(r.choice(DTS))) if r.random() < 0.6 else ['call', S('datetime'), lit(vstr(r.choice(DT_STRS)))]
        if want == 'dur':
            return lit(vdur(r.choice(DURS))) if r.random() < 0.6 else ['call', S('duration'), lit(vstr(r.choice(DUR_STRS)))]
        if want == 'ip':
            return lit(vip(r.choice(IPS))) if r.random() < 0.6 else ['call', S('ip'), lit(vstr(r.choice(IP_STRS)))]
        return self.leaf()

    # ---------------- policies
    def scope(self, which):
        r = self.r
        k = r.randrange(7)
        if which == 'action':
            if k <= 1: return ['all']
            if k == 2: return ['eq', vent('Action', r.choice(['view', 'edit']))]
            if k == 3: return ['in', vent('Action', r.choice(['view', 'edit', 'all']))]
            # lists of 0-6 entries, repeats included (a list is a list: order and multiplicity are part of the policy)
            return ['inset'] + [vent('Action', r.choice(['view', 'edit', 'all', 'x y'])) for _ in range(r.choice([0, 1, 2, 2, 3, 4, 6]))]
        if k <= 1: return ['all']
        if k == 2: return ['eq', self.uid()]
        if k == 3: return ['in', self.uid()]
        if k == 4: return ['is', S(r.choice(ETYPES[:3]))]
        if k == 5: return ['isin', S(r.choice(ETYPES[:3])), self.uid()]
        return ['all']

    def policy(self, pid, depth=3):
        r = self.r
        conds = [[r.choice(['when', 'unless']), self.expr(depth, 'bool')] for _ in range(r.choice([0, 1, 1, 1, 2, 3]))]
        return ['policy', S(pid), r.choice(['permit', 'forbid']), self.scope('principal'), self.scope('action'),
                self.scope('resource'), ['conds'] + conds]


DEC_STRS = ['0.0', '1.0', '-1.0', '1.5', '1.2345', '-1.2345', '1.23456', '922337203685477.5807', '922337203685477.5808',
            '-922337203685477.5808', '-922337203685477.5809', '1', '1.', '.5', '+1.5', '-0.5', '-0.0', '00.10', '1.0e1', ' 1.0',
            '1.-5', '1.+5', '0.9999', '12345.6', '1_0.0', '']
DUR_STRS = ['0ms', '1ms', '1s', '1m', '1h', '1d', '1d2h3m4s5ms', '-1d2h3m4s5ms', '1h1d', '1d1d', '1', 'd', '', '-', '-1',
            '9223372036854775807ms', '9223372036854775808ms', '-9223372036854775808ms', '-9223372036854775809ms',
            '106751991167d7h12m55s807ms', '106751991167d7h12m55s808ms', '-106751991167d7h12m55s808ms', '1ms1s', '1m1ms',
            '001d', '1 d', '1D', '1dd', '1d2', '+1d', '99999999999999999999d', '1s999ms', '60s', '24h', '1m2s3', '1h-2m', '1h+2m', '-+1h', '--1h', '1d-0h', ' 1h', '1h ']
DT_STRS = ['2024-01-01', '2024-02-29', '2023-02-29', '1970-01-01T00:00:00Z', '1969-12-31T23:59:59.999Z', '2024-01-01T12:34:56.789+0130',
           '2024-01-01T12:34:56-2359', '2024-01-01T12:34:56', '2024-13-01', '2024-00-10', '2024-01-32', '2024-01-00', '0000-01-01',
           '9999-12-31T23:59:59.999Z', '+000010000-01-01', '-000000001-12-31', '+292278994-08-17T07:12:55.807Z',
           '+292278994-08-17T07:12:55.808Z', '-292275055-05-16T16:47:04.192Z', '-292275055-05-17T16:47:04.192Z',
           '-292275055-05-17T16:47:04.191Z', '+999999999-12-31', '-999999999-01-01', '2024-01-01T24:00:00Z', '2024-01-01T23:60:00Z',
           '2024-01-01T23:59:60Z', '2024-01-01T00:00:00.1Z', '2024-01-01T00:00:00.1234Z', '2024-01-01T00:00:00+2400',
           '2024-01-01T00:00:00+0060', '2024-01-01T00:00:00+01:00', '2024-1-01', '24-01-01', '2024-01-01 00:00:00Z',
           '2024-01-01T00:00:00z', '1900-02-29',
           # the int64 range ends inside the boundary years: date-only and timed spellings on both sides of the boundary day
           '+292278994-08-17', '+292278994-08-18', '+292278994-08-16', '+292278994-12-31', '+292278994-01-01', '+292278995-01-01', '+292278993-12-31',
           '-292275055-05-16', '-292275055-05-17', '-292275055-05-18', '-292275055-05-15', '-292275055-01-01', '-292275055-12-31', '-292275056-12-31',
           '-292275054-01-01', '+292278994-08-17T00:00:00Z', '+292278994-08-17T07:12:55.807+0001', '+292278994-08-17T07:12:55.807-0001',
           '+292278994-08-18T00:00:00+2359', '-292275055-05-16T00:00:00Z', '-292275055-05-16T16:47:04.192-0001', '-292275055-05-15T23:59:59-2359',
           '+292278994-09-01', '+292278994-10-15T12:00:00Z', '-292275055-03-01', '-292275055-02-28T12:00:00Z', '2000-02-29', '2024-04-31', '', 'T', '2024-01-01T', '2024-01-01T00:00:00.000+0000x',
           # a sign where a field's first digit belongs (a lenient integer parser accepts these)
           '2024-+1-15', '2024-01-+5', '2024-01-15T+7:30:00Z', '2024-01-15T07:+5:00Z', '2024-01-15T07:30:-0Z', '2024-01-15T07:30:+1Z', '2024-01-15T07:30:00.+12Z', '2024-01-15T07:30:00.-00Z',
           '++00002024-01-15', '+-0002024-01-15', '2024-01-15T07:30:00+-100', '2024-01-15T07:30:00++100', '-0-01-01', '2024--1-15', ' 2024-01-15', '2024-01-15 ']
IP_STRS = ['127.0.0.1', '127.0.0.1/8', '10.0.0.0/24', '224.0.0.1', '224.0.0.0/4', '224.0.0.0/3', '0.0.0.0/0', '255.255.255.255',
           '1.2.3', '1.2.3.4.5', '01.2.3.4', '256.1.1.1', '1.2.3.4/33', '1.2.3.4/', '1.2.3.4/08', '1.2.3.4/+8', '::1', '::', '::1/128',
           'ff00::/8', 'ff00::1', '2001:db8::1', '2001:db8::/32', '1:2:3:4:5:6:7:8', '1:2:3:4:5:6:7:8:9', '1:2:3:4:5:6:7', '::1:2:3:4:5:6:7:8',
           '1::2::3', '12345::1', 'g::1', '::ffff:7f00:1', '::ffff:1.2.3.4', 'fe80::1%eth0', '::1/129', '1::', ':1', '1:', '', '1.2.3.4 ',
           'ABCD::ef01', '::ffff:e000:1', '0:0:0:0:0:0:0:1', '::1/0',
           # a dotted IPv4 tail inside an IPv6 literal is never accepted, however many colons precede it
           '::1.2.3.4', '::1.2.3.4/100', '1::1.2.3.4', ':1.2.3.4', '1:1.2.3.4', '64:ff9b::1.2.3.4', '1:2:3:4:5:6:1.2.3.4', '1:2:3:4:5:6:7:1.2.3.4', '::1.2', '::1.2.3',
           '1:2.3.4.5', '::ffff:1.2.3.4/128', '::ffff:0:1.2.3.4', '1::2:1.2.3.4', '1.2.3.4::', '1.2.3.4:5', '::.1', '::1.', '::1..2']


EXPR_HEADS = {'lit', 'var', 'and', 'or', 'not', 'neg', 'add', 'sub', 'mul', 'eq', 'ne', 'lt', 'le', 'gt', 'ge', 'in', 'contains', 'containsAll', 'containsAny',
              'isEmpty', 'access', 'has', 'getTag', 'hasTag', 'like', 'is', 'isIn', 'if', 'mkset', 'mkrec', 'call'}


def case(cid, kind, *parts):
    return '(case %s %s %s)' % (cid, kind, ' '.join(dump(p) for p in parts))
