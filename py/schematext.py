"""random Cedar schema TEXT with the full feature set (namespaces, common types, enums, action groups, annotations, names that
need quoting, references that may be undefined / shadowed / cyclic).  For C16 and C17."""


def ident(r, pool):
    return r.choice(pool)


ENT = ['User', 'Group', 'Doc', 'A', 'B', 'String', 'Long', 'ipaddr', 'Bool', 'T', 'decimal', '_x', 'Extension', 'Entity', 'E__cedar', '__cedar_e']
CT = ['T', 'U', 'Ctx', 'A', 'ipaddr', 'Rec', 'decimal', 'User']
NS = ['', 'NS', 'A', 'NS::Inner', 'B', 'X__cedar', 'App__cedar_compat::v1', '__cedarx']
ATTR = ['a', 'b', 'name', 'x y', 'in', 'if', '', 'é', '__cedar', 'type', '1a', 'a.b', '"', 'entity', 'action']


def q(s):
    return '"' + s.replace('\\', '\\\\').replace('"', '\\"') + '"'


KW = ('in', 'if', 'true', 'false', 'then', 'else', 'like', 'has', 'is', '__cedar')


def attrname(s):
    return s if s.isidentifier() and s.isascii() and s not in KW else q(s)


def rtype(r, depth, ents, cts):
    k = r.random()
    if depth <= 0 or k < 0.45:
        return r.choice(['Long', 'String', 'Bool', 'decimal', 'ipaddr', 'datetime', 'duration', '__cedar::String', '__cedar::Long', '__cedar::ipaddr'])
    if k < 0.6:
        return r.choice(ents + ['Undefined', 'NS::User', 'A::B']) if r.random() < 0.08 else r.choice(ents)
    if k < 0.72:
        return r.choice(cts) if cts and r.random() < 0.95 else r.choice(['Missing'] + ents)
    if k < 0.85:
        return 'Set<' + rtype(r, depth - 1, ents, cts) + '>'
    return rrec(r, depth - 1, ents, cts)


def rrec(r, depth, ents, cts):
    n = r.randrange(0, 4)
    parts = []
    for k in r.sample(ATTR, n):
        ann = '@doc(%s) ' % q(r.choice(['x', '', 'é'])) if r.random() < 0.1 else ''
        parts.append('%s%s%s: %s' % (ann, attrname(k), '?' if r.random() < 0.4 else '', rtype(r, depth, ents, cts)))
    return '{' + ', '.join(parts) + (',' if parts and r.random() < 0.1 else '') + '}'


def decls(r, ents, cts):
    out = []
    for e in ents:
        if r.random() < 0.15:
            out.append('entity %s enum [%s];' % (e, ', '.join(q(x) for x in r.sample(['a', 'b', 'x y', '', 'é'], r.randrange(1, 4)))))
            continue
        s = ('@a(%s) ' % q('v') if r.random() < 0.15 else '') + 'entity ' + e
        if r.random() < 0.2:
            s += ', ' + e + '2'
        ps = [p for p in ents if r.random() < 0.3] + (['Nope'] if r.random() < 0.04 else [])
        if ps:
            s += ' in ' + ('[' + ', '.join(ps) + ']' if len(ps) > 1 or r.random() < 0.5 else ps[0])
        if r.random() < 0.7:
            s += (' = ' if r.random() < 0.3 else ' ') + rrec(r, 2, ents, cts)
        if r.random() < 0.3:
            s += ' tags ' + rtype(r, 1, ents, cts)
        out.append(s + ';')
    for i, c in enumerate(cts):
        # mostly acyclic: a common type refers to earlier ones (5%: any, possibly cyclic)
        visible = cts if r.random() < 0.05 else cts[:i]
        out.append('type %s = %s;' % (c, rrec(r, 2, ents, visible) if r.random() < 0.75 else rtype(r, 2, ents, visible)))
    acts = r.sample(['view', 'edit', 'all', 'x y', 'in', ''], r.randrange(1, 4))
    for ai, a in enumerate(acts):
        s = 'action ' + (a if a.isidentifier() and a not in ('in',) and r.random() < 0.7 else q(a))
        pool = acts if r.random() < 0.05 else acts[:ai]          # mostly acyclic action groups
        ps = [p for p in pool if r.random() < 0.4] + (['nope'] if r.random() < 0.04 else [])
        if ps:
            s += ' in [' + ', '.join((p if p.isidentifier() and p != 'in' and r.random() < 0.5 else q(p)) for p in ps) + ']'
        if r.random() < 0.75:
            parts = []
            parts.append('principal: [' + ', '.join(r.sample(ents, r.randrange(1, min(3, len(ents)) + 1))) + ']')
            parts.append('resource: [' + ', '.join(r.sample(ents, r.randrange(1, min(3, len(ents)) + 1))) + ']')
            if r.random() < 0.3:
                parts.reverse()
            if r.random() < 0.6:
                # the context may be an inline record or a reference to a common type (the common type must then be a record)
                parts.append('context: ' + (r.choice(cts) if cts and r.random() < 0.45 else rrec(r, 2, ents, cts)))
            s += ' appliesTo { ' + ', '.join(parts) + ' }'
        out.append(s + ';')
    r.shuffle(out)
    return out


def schema_text(r):
    chunks = []
    for ns in r.sample(NS, r.randrange(1, 3)):
        ents = r.sample(ENT, r.randrange(1, 4))
        cts = r.sample(CT, r.randrange(0, 3))
        ds = decls(r, ents, cts)
        if ns == '':
            chunks.append('\n'.join(ds))
        else:
            chunks.append(('@ns("x") ' if r.random() < 0.1 else '') + 'namespace ' + ns + ' {\n  ' + '\n  '.join(ds) + '\n}')
    return '\n'.join(chunks) + '\n'
