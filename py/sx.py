"""S-expressions shared with the Go harness and the OCaml model driver.

Atoms are str, lists are Python lists.  Strings of the object language travel as atoms
'x' + hex(bytes)."""


def parse(s):
    pos = 0
    n = len(s)

    def skip():
        nonlocal pos
        while pos < n and s[pos] in ' \t\r\n':
            pos += 1

    def item():
        nonlocal pos
        skip()
        if pos >= n:
            raise ValueError('sexp: eof')
        if s[pos] == '(':
            pos += 1
            res = []
            while True:
                skip()
                if pos >= n:
                    raise ValueError('sexp: unterminated')
                if s[pos] == ')':
                    pos += 1
                    return res
                res.append(item())
        st = pos
        while pos < n and s[pos] not in ' \t\r\n()':
            pos += 1
        return s[st:pos]

    return item()


def dump(x):
    if isinstance(x, str):
        return x
    if isinstance(x, int):
        return str(x)
    return '(' + ' '.join(dump(y) for y in x) + ')'


def S(b):
    """object-language string (bytes or str) -> atom"""
    if isinstance(b, str):
        b = b.encode('utf-8')
    return 'x' + b.hex()


def unS(a):
    return bytes.fromhex(a[1:])


def canon_value(v):
    """Canonical form of a value s-expression: set members sorted (recursively), record keys sorted."""
    if isinstance(v, str):
        return v
    if not v:
        return v
    h = v[0]
    if h == 'set':
        items = [canon_value(x) for x in v[1:]]
        # dedupe identical renderings and sort
        seen = {}
        for it in items:
            seen[dump(it)] = it
        return ['set'] + [seen[k] for k in sorted(seen)]
    if h == 'rec':
        items = [[kv[0], canon_value(kv[1])] + [canon(x) for x in kv[2:]] for kv in v[1:]]     # schema record types: (key type optional annots)
        items.sort(key=lambda kv: unS(kv[0]))
        return ['rec'] + items
    return [canon(x) for x in v]


def canon(x):
    """Canonicalise any result s-expression (values inside are canonicalised)."""
    if isinstance(x, str):
        return x
    if x and isinstance(x[0], str) and x[0] in ('set', 'rec'):
        return canon_value(x)
    return [canon(y) for y in x]
