"""Reference renderer of Cedar policies: the grammar's own unparse (NOT cedar-go's marshaller).

render_policy(p, mode, rng) turns a policy s-expression into Cedar text, either fully parenthesised ('full') or with only
the parentheses the documented precedence and associativity require ('min'), with random layout (blanks, newlines, // and
/* */ comments) between tokens.  The AST it was given is what the parser must build.

Only parse-expressible ASTs are accepted: literals are bool / long / string / entity; sets, records and extension values are
written as set/record literals and extension calls."""
import sx

KEYWORDS = {'true', 'false', 'if', 'then', 'else', 'in', 'like', 'has', 'is', '__cedar'}
FUNCS = {'ip', 'decimal', 'datetime', 'duration'}
METHODS = {'lessThan', 'lessThanOrEqual', 'greaterThan', 'greaterThanOrEqual', 'isIpv4', 'isIpv6', 'isLoopback', 'isMulticast', 'isInRange',
           'toDate', 'toTime', 'offset', 'durationSince', 'toDays', 'toHours', 'toMinutes', 'toSeconds', 'toMilliseconds'}
BUILTIN_METHODS = {'contains': 'contains', 'containsAll': 'containsAll', 'containsAny': 'containsAny', 'getTag': 'getTag', 'hasTag': 'hasTag'}

# precedence levels of the grammar
IF, OR, AND, REL, ADD, MUL, UNARY, MEMBER, PRIMARY = range(9)
BINOPS = {'or': (OR, '||'), 'and': (AND, '&&'), 'add': (ADD, '+'), 'sub': (ADD, '-'), 'mul': (MUL, '*')}
RELOPS = {'eq': '==', 'ne': '!=', 'lt': '<', 'le': '<=', 'gt': '>', 'ge': '>=', 'in': 'in'}


def is_ident(s):
    if not s or s in KEYWORDS:
        return False
    if not (s[0].isascii() and (s[0].isalpha() or s[0] == '_')):
        return False
    return all(c.isascii() and (c.isalnum() or c == '_') for c in s)


def quote(s, rng, pattern=False):
    """a Cedar string literal for the str s (bytes decoded as utf-8); escapes chosen at random among the valid spellings"""
    out = ['"']
    for ch in s:
        o = ord(ch)
        if ch == '"':
            out.append('\\"')
        elif ch == '\\':
            out.append('\\\\')
        elif ch == '*' and pattern:
            out.append('\\*')
        elif ch == '\n':
            out.append(rng.choice(['\\n', '\\u{a}', '\\x0a']))
        elif ch == '\r':
            out.append('\\r')
        elif ch == '\t':
            out.append(rng.choice(['\\t', '\t']))
        elif ch == '\0':
            out.append(rng.choice(['\\0', '\\u{0}', '\\x00']))
        elif ch == "'":
            out.append(rng.choice(["'", "\\'"]))
        elif o < 0x20 or o == 0x7f:
            out.append('\\x%02x' % o if rng.random() < 0.5 else '\\u{%x}' % o)
        elif o < 0x80:
            out.append(ch if rng.random() < 0.9 else '\\u{%X}' % o)
        else:
            out.append(ch if rng.random() < 0.6 else '\\u{%x}' % o)
    out.append('"')
    return ''.join(out)


def S2str(atom):
    return sx.unS(atom).decode('utf-8')


class R:
    def __init__(self, rng, mode):
        self.rng = rng
        self.full = mode == 'full'

    # each render function returns (tokens, precedence)
    def paren(self, toks):
        return ['('] + toks + [')']

    def child(self, e, need):
        toks, prec = self.expr(e)
        if prec < need:
            return self.paren(toks)
        return toks

    def wrap(self, toks, prec):
        if self.full and prec < PRIMARY:
            return self.paren(toks), PRIMARY
        return toks, prec

    def lit(self, v):
        h = v[0]
        if h == 'b':
            return ['true' if v[1] == '1' else 'false'], PRIMARY
        if h == 'l':
            n = int(v[1])
            if n < 0:
                return ['-', str(-n)], UNARY
            return [str(n)], PRIMARY
        if h == 's':
            return [quote(S2str(v[1]), self.rng)], PRIMARY
        if h == 'e':
            return self.uid(v), PRIMARY
        raise ValueError('literal not expressible in Cedar syntax: ' + sx.dump(v))

    def uid(self, v):
        toks = []
        for part in S2str(v[1]).split('::'):
            toks += [part, '::']
        return toks + [quote(S2str(v[2]), self.rng)]

    def path(self, atom):
        toks = []
        for part in S2str(atom).split('::'):
            toks += [part, '::']
        return toks[:-1]

    def args(self, es, open_, close):
        toks = [open_]
        for i, e in enumerate(es):
            if i:
                toks.append(',')
            toks += self.child(e, IF)
        if es and self.rng.random() < 0.15:
            toks.append(',')                 # trailing comma is allowed
        return toks + [close]

    def expr(self, e):
        h = e[0]
        if h == 'lit':
            return self.wrap(*self.lit(e[1]))
        if h == 'var':
            return [e[1]], PRIMARY
        if h in BINOPS:
            lvl, op = BINOPS[h]
            return self.wrap(self.child(e[1], lvl) + [op] + self.child(e[2], lvl + 1), lvl)
        if h in RELOPS:
            return self.wrap(self.child(e[1], ADD) + [RELOPS[h]] + self.child(e[2], ADD), REL)
        if h == 'not':
            return self.wrap(['!'] + self.child(e[1], UNARY), UNARY)
        if h == 'neg':
            toks = self.child(e[1], UNARY)
            if toks and toks[0].isdigit():
                toks = self.paren(toks)       # "-" followed by an integer token is a negative literal
            return self.wrap(['-'] + toks, UNARY)
        if h == 'has':
            k = S2str(e[2])
            kt = [k] if is_ident(k) and self.rng.random() < 0.8 else [quote(k, self.rng)]
            return self.wrap(self.child(e[1], ADD) + ['has'] + kt, REL)
        if h == 'like':
            return self.wrap(self.child(e[1], ADD) + ['like', self.pattern(e[2])], REL)
        if h == 'is':
            return self.wrap(self.child(e[1], ADD) + ['is'] + self.path(e[2]), REL)
        if h == 'isIn':
            return self.wrap(self.child(e[1], ADD) + ['is'] + self.path(e[2]) + ['in'] + self.child(e[3], ADD), REL)
        if h == 'if':
            return self.wrap(['if'] + self.child(e[1], IF) + ['then'] + self.child(e[2], IF) + ['else'] + self.child(e[3], IF), IF)
        if h == 'access':
            k = S2str(e[2])
            recv = self.child(e[1], MEMBER)
            if is_ident(k) and self.rng.random() < 0.8:
                return self.wrap(recv + ['.', k], MEMBER)
            return self.wrap(recv + ['[', quote(k, self.rng), ']'], MEMBER)
        if h in BUILTIN_METHODS:
            return self.wrap(self.child(e[1], MEMBER) + ['.', h] + self.args([e[2]], '(', ')'), MEMBER)
        if h == 'isEmpty':
            return self.wrap(self.child(e[1], MEMBER) + ['.', 'isEmpty', '(', ')'], MEMBER)
        if h == 'call':
            name = S2str(e[1])
            if name in FUNCS:
                return self.wrap([name] + self.args(e[2:], '(', ')'), MEMBER)
            if name in METHODS and len(e) >= 3:
                return self.wrap(self.child(e[2], MEMBER) + ['.', name] + self.args(e[3:], '(', ')'), MEMBER)
            raise ValueError('call not expressible in Cedar syntax: ' + name)
        if h == 'mkset':
            return self.args(e[1:], '[', ']'), PRIMARY
        if h == 'mkrec':
            toks = ['{']
            for i, kv in enumerate(e[1:]):
                if i:
                    toks.append(',')
                k = S2str(kv[0])
                toks += ([k] if is_ident(k) and self.rng.random() < 0.7 else [quote(k, self.rng)]) + [':'] + self.child(kv[1], IF)
            return toks + ['}'], PRIMARY
        raise ValueError('expression not expressible in Cedar syntax: ' + h)

    def pattern(self, p):
        out = ['"']
        for c in p[1:]:
            if isinstance(c, list):
                out.append('*')
            else:
                out.append(quote(S2str(c), self.rng, pattern=True)[1:-1])
        out.append('"')
        return ''.join(out)

    def scope(self, var, s):
        h = s[0]
        if h == 'all':
            return [var]
        if h == 'eq':
            return [var, '=='] + self.uid(s[1])
        if h == 'in':
            return [var, 'in'] + self.uid(s[1])
        if h == 'inset':
            toks = [var, 'in', '[']
            for i, u in enumerate(s[1:]):
                if i:
                    toks.append(',')
                toks += self.uid(u)
            return toks + [']']
        if h == 'is':
            return [var, 'is'] + self.path(s[1])
        if h == 'isin':
            return [var, 'is'] + self.path(s[1]) + ['in'] + self.uid(s[2])
        raise ValueError(h)

    def policy(self, p):
        toks = []
        annots = p[7][1:] if len(p) > 7 else []
        for kv in annots:
            toks += ['@', S2str(kv[0]), '(', quote(S2str(kv[1]), self.rng), ')']
        toks += [p[2], '('] + self.scope('principal', p[3]) + [','] + self.scope('action', p[4]) + [','] + self.scope('resource', p[5])
        if self.rng.random() < 0.1:
            toks.append(',')
        toks.append(')')
        for c in p[6][1:]:
            toks += [c[0], '{'] + self.child(c[1], IF) + ['}']
        toks.append(';')
        return toks


def wordlike(t):
    return t[-1].isalnum() or t[-1] == '_' or t[0].isalnum() or t[0] == '_'


def layout(toks, rng, style):
    """join tokens; style: 'tight' (no blanks unless needed), 'space', 'wild' (random blanks, newlines, comments)"""
    out = []
    for i, t in enumerate(toks):
        if i:
            prev = toks[i - 1]
            need = (prev[-1].isalnum() or prev[-1] == '_') and (t[0].isalnum() or t[0] == '_')
            # "::" after an identifier must stay attached to what precedes? no: blanks are allowed everywhere between tokens
            if style == 'tight':
                sep = ' ' if need else ''
                # never create a different token by juxtaposition
                if prev[-1] + t[0] in ('==', '!=', '<=', '>=', '&&', '||', '::', '//', '/*') or (prev == '-' and t == '-' and False):
                    sep = ' '
            elif style == 'space':
                sep = ' '
            else:
                k = rng.randrange(12)
                sep = [' ', '  ', '\n', '\t', ' // c "x" */ ( \n', ' /* c \n // */ ', '\r\n', ' \n  ',
                       '/***/', ' /* a **/ ', '/** doc ***/', '/*/ * / ** /* ****/'][k]      # block comments closed after runs of stars of either parity
            out.append(sep)
        out.append(t)
    return ''.join(out)


def render_policy(p, mode, rng, style='space'):
    return layout(R(rng, mode).policy(p), rng, style)
