#!/bin/sh
# run every check at the given tier (default quick), sequentially; prints one summary line per check
tier=${1:-quick}
cd "$(dirname "$0")/.."
for i in 01 02 03 04 05 06 07 08 09 10 11 12 13 14 15 16 17 18 19 20; do
  python3 py/check.py C$i --tier $tier 2>&1 | grep -E "^C$i |^VIOLATION" | head -3
done
