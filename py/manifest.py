#!/usr/bin/env python3
"""Regenerates MANIFEST.json from the table below (single source of truth for check registration)."""
import json
import os

VERIF = os.path.dirname(os.path.dirname(os.path.abspath(__file__)))

CHECKS = {
    'C02': dict(
        level='proof', design='§6 C02',
        text='Coq theorems (Properties/C02.v: C02_decision, C02_reasons, C02_errors, C02_order_irrelevant) prove, for every finite '
             'policy list and any iterator order, that the modelled Authorize loop allows iff some permit is satisfied and no forbid is, '
             'reports exactly the satisfied forbids (else permits) and exactly the erroring policies. The model is tied to authorize.go by '
             'an exhaustive correspondence run (all sequences of <=4 (quick) / <=6 (thorough) policies over effect x outcome, three iterator kinds) '
             'with ids and positions of every diagnostic checked.',
        note='Trusted: Coq kernel; hand-written model Impl/Authorize.v (30 lines, mirrors authorize.go line by line); extraction; the '
             'correspondence is differential testing. Policy satisfaction itself (scope+conditions) is C01/C03/C04.',
        technique='Coq proof over all policy lists (fold invariant) + exhaustive differential correspondence with the Go code'),
}

NOT_APPLICABLE = []


def main():
    checks = []
    for pid in sorted(CHECKS):
        c = CHECKS[pid]
        checks.append(dict(
            property_id=pid,
            quick_cmd='python3 py/check.py %s --tier quick' % pid,
            thorough_cmd='python3 py/check.py %s --tier thorough' % pid,
            evidence_file='evidence/%s.json' % pid,
            replay_cmd_template='python3 py/check.py %s --replay {path}' % pid,
            engine='coq-proof+correspondence',
            level_claimed=dict(category=c['level'], text=c['text'], design_ref=c['design']),
            level_note=c['note'],
            technique=c['technique'],
        ))
    m = dict(
        version=1,
        setup_cmd='python3 py/check.py --setup',
        hooks=dict(guard='verif', enable='go build -tags verif (harness/build.sh)',
                   baseline_off_cmd='cd /repo && go test -mod=mod -json -vet=off -count=1 -timeout 25m ./...',
                   source_commits=[], add_only=True),
        engines=[dict(name='coq-proof+correspondence', path='py/check.py',
                      serves_properties=sorted(CHECKS),
                      kind_free_text='Coq 8.16 development under coq/ (model + theorems), extracted to OCaml (ocaml/), compared with the Go '
                                     'implementation through harness/ on generated cases; orchestrated by py/check.py')],
        checks=checks,
        notes='See DESIGN.md. Every check rebuilds the Go harness from /repo\'s working tree, re-runs make on the Coq development '
              '(regenerating Generated/*.v from the Go sources first) and re-reads Print Assumptions of its property theorems.',
        not_applicable=NOT_APPLICABLE,
    )
    with open(os.path.join(VERIF, 'MANIFEST.json'), 'w') as f:
        json.dump(m, f, indent=1)
        f.write('\n')


if __name__ == '__main__':
    main()
