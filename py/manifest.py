#!/usr/bin/env python3
"""Regenerates MANIFEST.json from the table below (single source of truth for check registration)."""
import json
import os

VERIF = os.path.dirname(os.path.dirname(os.path.abspath(__file__)))

TB = ('Trusted: Coq 8.16.1 kernel (vm_compute for table side conditions and finite sweeps, no native_compute, no axioms: every '
      'property theorem prints "Closed under the global context"); the hand-written Gallina model of the Go code named in the text, tied '
      'to /repo by the correspondence run (differential testing, not proof) and, for the int64 kernels and the ExtMap/ToEval/fold tables, by '
      'harness/translator (regenerated and re-proved on every run); Lang/Spec.v is my transcription of the Cedar specification; extraction '
      '(ExtrOcamlBasic only) + OCaml/zarith driver; Go stdlib and runtime modelled, not verified. ')

CHECKS = {
    'C01': dict(
        level='proof', design='§6 C01',
        text='Theorem C01_eval_refines_spec: for every expression, store and request whose numbers fit in 64 bits, the model of internal/eval '
             '(wrap-around int64 kernels regenerated from evalers.go, iterative DFS for `in`, greedy like matcher, Go remainder in toDate/toTime, '
             'same evaluation order / short-circuit / type tests) returns exactly the result of the declarative semantics (Lang/Spec.v): same value or '
             'same error. Plus exact overflow detection of the four checked kernels on all of int64 x int64, like = wildcard semantics for every '
             'pattern, spec `in` = reflexive-transitive closure, termination. Model tied to the code by ~50k-case (quick) / 350k-case (thorough) '
             'correspondence: operator x boundary-operand table, extension constructors x literal strings, random trees.',
        note=TB + 'ipaddr parsing/predicates and the calendar are Go stdlib (net/netip, time): the model transcribes them; the spec side uses the same '
             'parsers (their exactness is C12).',
        technique='Coq refinement proof (model evaluator = declarative semantics) + translator-regenerated kernels + differential correspondence'),
    'C02': dict(
        level='proof', design='§6 C02',
        text='Coq theorems (Properties/C02.v: C02_decision, C02_reasons, C02_errors, C02_order_irrelevant) prove, for every finite '
             'policy list and any iterator order, that the modelled Authorize loop allows iff some permit is satisfied and no forbid is, '
             'reports exactly the satisfied forbids (else permits) and exactly the erroring policies. The model is tied to authorize.go by '
             'an exhaustive correspondence run (all sequences of <=4 (quick) / <=6 (thorough) policies over effect x outcome, three iterator kinds) '
             'with ids and positions of every diagnostic checked.',
        note=TB + 'Policy satisfaction itself (scope+conditions) is C01/C03/C04.',
        technique='Coq proof over all policy lists (fold invariant) + exhaustive differential correspondence with the Go code'),
    'C03': dict(
        level='proof', design='§6 C03',
        text='Theorems C03_in_one / C03_in_set / C03_generic: the work-list search of entityInOne/entityInSet (todo stack, known set, the four pruning '
             'tests) returns true exactly when the target is reachable by parent links of present entities (reflexive-transitive closure), on every '
             'store incl. cycles, self parents, absent parents and absent queried entities, and never exceeds the fuel 1+|store| (termination). '
             'Correspondence: every parent graph on 3 nodes x every presence subset (quick; 4 nodes thorough) x every pair / target set / is-in / scope '
             'form, three-way compared (Go, model, independent closure).',
        note=TB,
        technique='Coq invariant proof of the DFS loop (partial correctness + fuel bound) + exhaustive small-graph correspondence'),
    'C04': dict(
        level='proof', design='§6 C04',
        text='Theorem C04_fold_preserves_eval: for ANY fold table satisfying the boolean side condition, eval (fold e) = eval e in every environment '
             '(same value or same error), lifted to compiled policies (C04_compiled_policy). The fold and ToEval tables are regenerated from '
             'fold.go/convert.go on every run and the side condition is re-proved on them (C04_fold_table_sound, C04_toeval_table_ok): making `in`, '
             '`is..in`, tags or entity attribute access foldable, or folding an operator with a different evaluator than ToEval uses, breaks a named '
             'obligation. Correspondence: folded TREE (internal fold through a verif-tagged hook) = model fold; compiled outcome via cedar.Authorize = '
             'direct evaluation; caller AST and text untouched.',
        note=TB + 'Hook: internal/eval/verif_hooks.go + x/exp/eval/verif_hooks.go (build tag verif, add-only).',
        technique='Coq structural-induction proof parametric in a table regenerated from the Go source + differential correspondence incl. Go-vs-Go oracle'),
    'C05': dict(
        level='translation_validation', design='§6 C05',
        text='Model of doBatch (variable binding order as a parameter, doPartial per prefix, fixIgnores, cloneSub, callback budget / cancellation) '
             'in Impl/Batch.v on top of the partial evaluator whose soundness is proved for C06; the batch = brute-force theorem is not closed yet, so '
             'this check is claimed at the level of validation: batch.Authorize vs the model vs a brute-force run of cedar.Authorize over the Cartesian '
             'product inside the harness (multiset of request, values, decision, reason ids; exactly-once; stop after k+1 / k callbacks on failure / cancellation).',
        note=TB + 'The Coq development contributes the executable model only (no closed theorem for batch yet).',
        technique='executable Coq model of doBatch + differential run against Go and against brute force'),
    'C06': dict(
        level='proof', design='§6 C06',
        text='Model of partial.go (tryPartial with projection flag, errVariable/errIgnore, partialAnd/Or/If, residualOperand, partialHasEval, '
             'PartialPolicy) in Impl/Partial.v; soundness theorem (residual satisfied iff original satisfied for every completion; dropped => never '
             'satisfied) in Properties/C06.v. Correspondence: residual policies structurally Go = model; direct oracle on every completion of every '
             'generated template (unknown principal/resource/context, unknowns nested in records and sets, ignore).',
        note=TB + 'Ignore-widening is checked by the direct oracle only.',
        technique='Coq proof of soundness of the partial evaluator model + structural differential correspondence + completion oracle'),
    'C11': dict(
        level='proof', design='§6 C11',
        text='Theorems: veq is reflexive, symmetric (on canonical values), transitive and separates the ten types; mk_set builds exactly the distinct '
             'members whatever the order/duplicates; record equality iff same keys with equal values; and the open-addressing table of types.Set (Go '
             'map[uint64]Value, probing hash++ mod 2^64, sum of hashes) implements that set for EVERY hash function compatible with equality '
             '(C11_table_members, C11_table_equal, totality of the probe loops). Correspondence: all short sequences over a hash-colliding universe '
             '(incl. the family that wraps at 2^64), the member order of the marshalled set against the table model with the real FNV hashes, '
             'immutability under mutation of constructor inputs / accessor outputs.',
        note=TB + 'hash/fnv is stdlib (modelled in Impl/Hash.v).',
        technique='Coq proof of the probing-table invariant (all collision patterns) + equality laws + exhaustive colliding-universe correspondence'),
    'C12': dict(
        level='proof', design='§6 C12',
        text='Theorems: decimal / duration / datetime print-then-parse is the identity on all of int64 (datetime: on the accepted range; the full '
             'statement is REFUTED at the first day of the range = known finding F27), parsers accept exactly the documented syntax and return in-range '
             'mathematically exact values, NewDecimal(i, e) is exact or an error, the civil calendar conversions are mutually inverse on all days. '
             'Correspondence: parsers on literal tables + edit-distance mutants, printers on boundary/random values, NewDecimal grid; direct oracle: the '
             'Cedar rendering of values of every type evaluates to an equal value.',
        note=TB + 'time.Date/UnixMilli and net/netip are stdlib: the calendar and the ip parser are models of them (ipaddr has correspondence only).',
        technique='Coq round-trip and exactness proofs over all int64 (calendar by era sweep lifted) + differential correspondence'),
    'C20': dict(
        level='proof', design='§6 C20',
        text='Theorems: Add/Remove refine the abstract id->policy function and keep ids unique; MarshalCedar order is the id-sorted permutation and '
             'represents the same map; authorization depends only on the contents. Correspondence: every history of <=3 (quick) / <=4 operations over '
             'add/replace/remove/JSON round trip/text reload/load document/Map() mutation, followed by get/all/marshal/authorize, and random histories, '
             'every operation result compared (incl. policy0..policyN numbering, policy10 < policy2, file names).',
        note=TB,
        technique='Coq refinement to an abstract map + exhaustive short-history correspondence'),
}

ALL = ['C%02d' % i for i in range(1, 21)]
NOT_APPLICABLE = [dict(property_id=p, reason='check under construction at this commit (see DESIGN.md §6); the technique applies and the property will be claimed') for p in ALL if p not in CHECKS]


def main():
    checks = []
    for pid in sorted(CHECKS):
        c = CHECKS[pid]
        checks.append(dict(
            property_id=pid,
            quick_cmd='python3 py/check.py %s --tier quick' % pid,
            thorough_cmd='python3 py/check.py %s --tier thorough' % pid,
            evidence_file='evidence/%s.json' % pid,
            replay_cmd_template='python3 py/check.py %s --replay {path}' % pid,
            engine='coq-proof+correspondence',
            level_claimed=dict(category=c['level'], text=c['text'], design_ref=c['design']),
            level_note=c['note'],
            technique=c['technique'],
        ))
    m = dict(
        version=1,
        setup_cmd='python3 py/check.py --setup',
        hooks=dict(guard='verif', enable='go build -tags verif (harness/build.sh)',
                   baseline_off_cmd='cd /repo && go test -mod=mod -json -vet=off -count=1 -timeout 25m ./...',
                   source_commits=['e355874'], add_only=True),
        engines=[dict(name='coq-proof+correspondence', path='py/check.py',
                      serves_properties=sorted(CHECKS),
                      kind_free_text='Coq 8.16 development under coq/ (model + theorems), extracted to OCaml (ocaml/), compared with the Go '
                                     'implementation through harness/ on generated cases; orchestrated by py/check.py')],
        checks=checks,
        notes='See DESIGN.md. Every check rebuilds the Go harness from /repo\'s working tree, re-runs make on the Coq development '
              '(regenerating Generated/*.v from the Go sources first) and re-reads Print Assumptions of its property theorems.',
        not_applicable=NOT_APPLICABLE,
    )
    with open(os.path.join(VERIF, 'MANIFEST.json'), 'w') as f:
        json.dump(m, f, indent=1)
        f.write('\n')


if __name__ == '__main__':
    main()
