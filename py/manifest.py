#!/usr/bin/env python3
"""Regenerates MANIFEST.json from the table below (single source of truth for check registration)."""
import json
import os

VERIF = os.path.dirname(os.path.dirname(os.path.abspath(__file__)))

TB = ('Trusted: Coq 8.16.1 kernel (vm_compute for table side conditions and finite sweeps, no native_compute, no axioms: every '
      'property theorem prints "Closed under the global context"); the hand-written Gallina model of the Go code named in the text, tied '
      'to /repo by the correspondence run (differential testing, not proof) and, for the int64 kernels and the ExtMap/ToEval/fold tables, by '
      'harness/translator (regenerated and re-proved on every run); Lang/Spec.v is my transcription of the Cedar specification; extraction '
      '(ExtrOcamlBasic only) + OCaml/zarith driver; Go stdlib and runtime modelled, not verified. ')

CHECKS = {
    'C01': dict(
        level='proof', design='§6 C01',
        text='Theorem C01_eval_refines_spec: for every expression, store and request whose numbers fit in 64 bits, the model of internal/eval '
             '(wrap-around int64 kernels regenerated from evalers.go, iterative DFS for `in`, greedy like matcher, Go remainder in toDate/toTime, '
             'same evaluation order / short-circuit / type tests) returns exactly the result of the declarative semantics (Lang/Spec.v): same value or '
             'same error. Plus exact overflow detection of the four checked kernels on all of int64 x int64, like = wildcard semantics for every '
             'pattern, spec `in` = reflexive-transitive closure, termination. Model tied to the code by ~50k-case (quick) / 350k-case (thorough) '
             'correspondence: operator x boundary-operand table, extension constructors x literal strings, random trees.',
        note=TB + 'ipaddr parsing/predicates and the calendar are Go stdlib (net/netip, time): the model transcribes them; the spec side uses the same '
             'parsers (their exactness is C12).',
        technique='Coq refinement proof (model evaluator = declarative semantics) + translator-regenerated kernels + differential correspondence'),
    'C02': dict(
        level='proof', design='§6 C02',
        text='Coq theorems (Properties/C02.v: C02_decision, C02_reasons, C02_errors, C02_order_irrelevant) prove, for every finite '
             'policy list and any iterator order, that the modelled Authorize loop allows iff some permit is satisfied and no forbid is, '
             'reports exactly the satisfied forbids (else permits) and exactly the erroring policies. The model is tied to authorize.go by '
             'an exhaustive correspondence run (all sequences of <=4 (quick) / <=6 (thorough) policies over effect x outcome, three iterator kinds) '
             'with ids and positions of every diagnostic checked.',
        note=TB + 'Policy satisfaction itself (scope+conditions) is C01/C03/C04.',
        technique='Coq proof over all policy lists (fold invariant) + exhaustive differential correspondence with the Go code'),
    'C03': dict(
        level='proof', design='§6 C03',
        text='Theorems C03_in_one / C03_in_set / C03_generic: the work-list search of entityInOne/entityInSet (todo stack, known set, the four pruning '
             'tests) returns true exactly when the target is reachable by parent links of present entities (reflexive-transitive closure), on every '
             'store incl. cycles, self parents, absent parents and absent queried entities, and never exceeds the fuel 1+|store| (termination). C03_scope_forms_agree / C03_scope_forms_are_reachability: the scope forms, as the authorizer evaluates them (scope expressions through the evaluator) and as the partial evaluator / batch authorizer decides them (scope_holds), agree and are that reachability relation. '
             'Correspondence: every parent graph on 3 nodes x every presence subset (quick; 4 nodes thorough) x every pair / target set / is-in / scope '
             'form, three-way compared (Go, model, independent closure); the scope forms also through batch.Authorize (= brute force = model).',
        note=TB,
        technique='Coq invariant proof of the DFS loop (partial correctness + fuel bound) + exhaustive small-graph correspondence'),
    'C04': dict(
        level='proof', design='§6 C04',
        text='Theorem C04_fold_preserves_eval: for ANY fold table satisfying the boolean side condition, eval (fold e) = eval e in every environment '
             '(same value or same error), lifted to compiled policies (C04_compiled_policy). The fold and ToEval tables are regenerated from '
             'fold.go/convert.go on every run and the side condition is re-proved on them (C04_fold_table_sound, C04_toeval_table_ok): making `in`, '
             '`is..in`, tags or entity attribute access foldable, or folding an operator with a different evaluator than ToEval uses, breaks a named '
             'obligation. Correspondence: folded TREE (internal fold through a verif-tagged hook) = model fold; compiled outcome via cedar.Authorize = '
             'direct evaluation; caller AST and text untouched.',
        note=TB + 'Hook: internal/eval/verif_hooks.go + x/exp/eval/verif_hooks.go (build tag verif, add-only).',
        technique='Coq structural-induction proof parametric in a table regenerated from the Go source + differential correspondence incl. Go-vs-Go oracle'),
    'C05': dict(
        level='proof', design='§0.2, §6 C05',
        text='Theorems (Properties/C05.v): the model of doBatch (binding order as a parameter, doPartial per prefix, fixIgnores, cloneSub, '
             'callback budget / cancellation) delivers, in order and exactly once, for every element of the Cartesian product, the result of the ordinary '
             'authorizer on the ORIGINAL policies under the substituted request (request, values, decision, reason ids); a failing callback / cancelled '
             'context stops after exactly k+1 / k callbacks with that status. Unknowns may sit anywhere in a request part, including below members of sets '
             '(Proofs/BatchSets.v removed the earlier restriction). Correspondence: batch.Authorize = model = brute-force cedar.Authorize inside the harness.',
        note=TB + 'Built on the C06 soundness theorem. A model set is its member list in first-insertion order; Go map layout is not part of a value, so '
             'equality of the request component means equality of set values.',
        technique='Coq proof (batch = brute force, by induction on the variable list over the partial-evaluation soundness theorem) + differential run against Go and brute force'),
    'C06': dict(
        level='proof', design='§6 C06',
        text='Model of partial.go (tryPartial with projection flag, errVariable/errIgnore, partialAnd/Or/If, residualOperand, partialHasEval, '
             'PartialPolicy) in Impl/Partial.v; soundness theorem (residual satisfied iff original satisfied for every completion; dropped => never '
             'satisfied; ignored parts only ever widen what permits allow) in Properties/C06.v. Correspondence: residual policies structurally Go = model; direct oracle on every completion of every '
             'generated template (unknown principal/resource/context, unknowns nested in records and sets, ignore).',
        note=TB + 'The ignore clause is a theorem too (Proofs/PartialIgnoreProofs.v): C06_ignore_widens_permits (a permit satisfied for some value of the ignored parts is kept and its residual is satisfied there), its contrapositive for dropped permits, C06_ignore_forbid_kept, C06_partial_expr_sound_with_ignore; the widening is strict (C06_ignore_widening_is_strict).',
        technique='Coq proof of soundness of the partial evaluator model + structural differential correspondence + completion oracle'),
    'C07': dict(
        level='proof', design='§0.2, §6 C07',
        text='Model of the tokenizer (Impl/Tokenizer.v) and of the recursive-descent parser over token lists (Impl/Parser.v). Theorems (Properties/C07.v): '
             'for every expression / policy and EVERY placement of redundant parentheses (fully parenthesised, minimal, anything between) the tokens of the '
             'rendering parse to exactly that tree (literal values of set / record / extension type as the constructor expressions that denote them); string '
             'and pattern literals read back for every choice of escapes; the parser terminates on every token list; and at BYTE level (C07_text_tree, Proofs/LexRender.v): the '
             'bytes of every such rendering, policies separated by any white space, tokenize to the printer\'s tokens and parse to those policies. Correspondence: Go parser = model on '
             '10^4 texts incl. ~230 texts outside the grammar that must be rejected (reserved word x identifier position matrix, chained relations, '
             'duplicates, bad escapes). Direct oracle: independent reference renderer (py/render.py) in three layouts.',
        note=TB + 'Layout (blanks, comments) is handled by the tokenizer: its independence of delivery and exact token texts are C18. Rejection of texts outside the '
                  'grammar is decided by the correspondence and the reject corpus, not by a theorem.',
        technique='Coq proof (parse o tokenize o render = id for every parenthesisation, ~4600 lines) + differential correspondence of the parser model + independent reference renderer'),
    'C08': dict(
        level='proof', design='§0.2, §6 C08',
        text='Model of cedar_marshal.go + Value.MarshalCedar (Impl/Printer.v, exact bytes and token list) and of the parser (Impl/Parser.v). Theorems '
             '(Properties/C08.v): the tokens of the rendering of every well-formed policy parse back to that policy (effect, annotations, scopes, conditions; '
             'value literals in the normal form of the text syntax); documents of several policies parse back in order; at BYTE level the rendered text, read '
             'through the buffered scanner over EVERY chunking of a non-failing reader, tokenizes and parses back to the policies (C08_streamed_text_roundtrip: '
             'composition with the C18 refinement). Correspondence: MarshalCedar bytes = '
             'model bytes (escaper tables read off the code); parser = model. Direct oracle on the Go code: rendering parses, same head, tree identity modulo the '
             'normal form with a search for a distinguishing environment, evaluation on 4 environments, byte fixpoint, returned bytes not aliased, '
             'set / list / stream order.',
        note=TB + 'That the text normal form preserves evaluation is decided by the oracle (the analogous statement for the JSON normal form is a theorem in C09). '
                  'F27 / F30 / F16 are known findings.',
        technique='Coq proof (parse o tokenize o stream o render = id up to the text normal form) + byte-level differential correspondence of the printer + Go round-trip oracle'),
    'C09': dict(
        level='proof', design='§0.2, §6 C09',
        text='Model of internal/json on JSON trees (Impl/PolicyJson.v: MarshalJSON, UnmarshalJSON + ToNode, scopes, policies; values via Impl/ValueJson.v). '
             'Theorems (Properties/C09.v): decoding the encoding yields the identical tree up to the normal form the format imposes (decimal / ip literals as '
             'calls, record entries and annotations as key-sorted maps, empty pattern as one empty literal); whole policies; the normal form is idempotent, '
             'a second trip is the identity, and it preserves evaluation; policy sets keep their ids (C09_policy_set_ids_preserved); the normal forms of the text and the '
             'JSON codec commute, so text->JSON->text and JSON->text->JSON reach one common normal form, and every encoding of a policy evaluates to the same outcome '
             '(C09_all_encodings_same_outcome). Correspondence: Policy.MarshalJSON / PolicySet.MarshalJSON tree = model tree; Policy.UnmarshalJSON / PolicySet.UnmarshalJSON = model on '
             'encoder outputs and structure-aware mutants (objects with repeated keys, multi-member expression objects and case-folded keys are outside the '
             'modelled domain and are not compared). TRANSLATED: the decoder\'s key table - the struct tags of nodeJSON and the case order of nodeJSON.ToNode are read off internal/json on every run and the model\'s node_keys is proved equal to them '
             '(C09_decoder_keys_are_the_codes, C09_decoder_keys_are_the_declared_fields). Direct oracle on the Go code: AST identity, byte stability, ids, commutation with the text codec.',
        note=TB + 'Modelled, not verified: encoding/json (bytes <-> tree, struct decoding rules for exact-case keys). The ip-printing hypotheses are discharged for the modelled printer (Proofs/IPProofs.v).',
        technique='Coq proofs (JSON-tree codec round trip, policy sets, commutation with the text codec, same meaning) + tree-level differential correspondence + Go round-trip oracle'),
    'C10': dict(
        level='exploration', design='§0.2, §6 C10',
        text='Runtime property (no panic, no stack overflow, no endless loop): explored in a guarded child process with timeouts: structure-aware mutants of every '
             'JSON format, byte mutants of every text format, raw noise, 10^5..10^6-deep nestings and long chains of every recursive construct, short documents '
             'whose decoding cost must not explode (sibling junk keys, case-fold confusable keys). Every accepted value is passed to every encoder and the authorizer. '
             'Model half, proved (Properties/C10.v): every modelled decoder - streaming tokenizer, Cedar text parser, string / pattern unquoting, policy JSON, '
             'schema resolution - terminates on EVERY input with fuel linear in its size.',
        note='Trusted: the harness (recover-guarded goroutine, child process, timeouts). Panics and stack overflows are not representable in the Gallina models, '
             'hence level exploration. Found and repaired F10, F11, F12, F39; F13 (stack overflow on 10^6-deep input) is a known finding.',
        technique='guarded runtime exploration + Coq termination proofs for the modelled decoders'),
    'C11': dict(
        level='proof', design='§6 C11',
        text='Theorems: veq is reflexive, symmetric (on canonical values), transitive and separates the ten types; mk_set builds exactly the distinct '
             'members whatever the order/duplicates; record equality iff same keys with equal values; and the open-addressing table of types.Set (Go '
             'map[uint64]Value, probing hash++ mod 2^64, sum of hashes) implements that set for EVERY hash function compatible with equality '
             '(C11_table_members, C11_table_equal, totality of the probe loops). Correspondence: all short sequences over a hash-colliding universe '
             '(incl. the family that wraps at 2^64), the member order of the marshalled set against the table model with the real FNV hashes, '
             'immutability under mutation of constructor inputs / accessor outputs.',
        note=TB + 'hash/fnv is stdlib (modelled in Impl/Hash.v).',
        technique='Coq proof of the probing-table invariant (all collision patterns) + equality laws + exhaustive colliding-universe correspondence'),
    'C12': dict(
        level='proof', design='§6 C12',
        text='Theorems: decimal / duration / datetime print-then-parse is the identity on all of int64 (datetime: on the accepted range; the full '
             'statement is REFUTED at the first day of the range = known finding F27), parsers accept exactly the documented syntax and return in-range '
             'mathematically exact values, NewDecimal(i, e) is exact or an error, the civil calendar conversions are mutually inverse on all days; ipaddr: every '
             'well-formed address / prefix prints (dotted quad; IPv6 with :: compression) to a string that parses back to it, exactly except the IPv4-mapped IPv6 '
             'addresses (C12_ipaddr_roundtrip_exact; known finding F30); entity uids outside policies (Impl/UidText.v: EntityUID.UnmarshalCedar is a parser of its own): the printed form reads back for every non-empty type without the separator and every UTF-8 id, and the accepted texts are characterised exactly (C12_uid_text_roundtrip, C12_uid_text_accepted). '
             'Correspondence: parsers on literal tables + edit-distance mutants, printers on boundary/random values, NewDecimal grid, EntityUID.UnmarshalCedar / UnmarshalBinary on printed forms and mutants; direct oracle: the '
             'Cedar rendering of values of every type evaluates to an equal value.',
        note=TB + 'time.Date/UnixMilli and net/netip are stdlib: the calendar and the ip printer / parser are models of them, tied by the scalar correspondences.',
        technique='Coq round-trip and exactness proofs over all int64 (calendar by era sweep lifted) + differential correspondence'),
    'C13': dict(
        level='proof', design='§6 C13',
        text='Theorems (Properties/C13.v): on JSON trees, decode(encode v) is Cedar-equal to v for every json_safe value (any member order of encoded '
             'sets, i.e. any table slot order), identical under the identity order, type tags preserved; the unrestricted statement is REFUTED with the '
             'witness {"__extn": {...}} (known finding F17). Entities and entity maps (Impl/EntityJson.v, ejsonenc / ejsondec correspondences): decoding the '
             'encoding of an entity map yields the same entities in the sorted order of the encoding, the second encoding is identical, implicit and explicit '
             'spellings of uids and parents decode to the same store, the document does not depend on map traversal order. Requests, decisions and diagnostics (Impl/RequestJson.v, rjsonenc / rjsondec / djsonenc / djsondec / decjson correspondences): exact round trip of every request with a json_safe context, independent spellings of principal / action / resource decode to the same request, second encoding identical; diagnostics round-trip exactly iff their positions are 64-bit ints (omitted empty lists included) and a decoded diagnostic never holds an out-of-range int; decoders total. Schema-guided coercion (Impl/Coerce.v, tied to x/exp/types/json.go through the hook VerifCoerceValue; Proofs/CoerceProofs.v when present). Direct oracle on the Go code: values, entities, entity maps, requests, decisions, '
             'diagnostics round-trip and re-encode byte-identically; all spellings (explicit, {fn,arg}, bare string, implicit entity, schema-guided '
             'coercion) decode to equal values.',
        note=TB + 'bytes <-> tree is encoding/json (stdlib, not modelled). The ip round trip hypothesis of the value theorem is discharged for the modelled printer by C12_ipaddr_roundtrip (Proofs/IPProofs.v). Known: F16, F17, F27, F30.',
        technique='Coq round-trip proofs on JSON trees (values, entities, entity maps, requests, diagnostics) + enc/dec and coercion correspondences + Go round-trip / spelling oracle'),
    'C14': dict(
        level='proof', design='§6 C14',
        text='Theorems (Properties/C14.v): in the model every Go map is a list in arbitrary order; evaluation (value AND which error surfaces) is invariant '
             'under permutation of the entity store and of every parent set, record literals under permutation of their fields, authorization under '
             'permutation of policies and entities together. Direct oracle: every operation repeated 40x in-process with shuffled insertion orders; '
             'decision, reason/error sets with messages, and encoder bytes must be identical.',
        note=TB + 'Error MESSAGE text is not modelled (only which sub-expression fails): F23 is a message-level known finding. Found and repaired F18, F19.',
        technique='Coq permutation-invariance proofs + repetition oracle under Go map randomisation'),
    'C15': dict(
        level='proof', design='§0.2, §6 C15',
        text='Model of the expression type checker (Impl/TypeCheck.v: types, least upper bounds, capabilities, extension signatures, the `in` / `has` / tag '
             'rules) tied to the code by the `typeof` correspondence on condition bodies and their sub-expressions. Theorems (Properties/C15.v): STRICT mode - '
             'if the checker accepts an expression with type t then in every conforming environment evaluation yields a value of type t or fails only with '
             'entity-missing / overflow / extension errors, for the whole expression language (C15_strict_sound); PERMISSIVE mode - refuted with a witness '
             '(C15_permissive_refuted = known finding F29, pinned by the corpus). Policy level: Impl/ValidatePolicy.v models Validator.Policy (scopes, action application, '
             'request environments, conditions; vverdict correspondence on 17k policies) and C15_policy_sound states the property itself for accepted policies. The '
             'conformance checkers (entity.go, request.go, check_value.go) are modelled too (Impl/Conform.v, `conform` correspondence on Validator.Entity / Entities / Request verdicts): check_value decides '
             'type inhabitation exactly, what Entities / Request accept satisfies env_ok / request_env / actions_conform / store_types_known, and C15_end_to_end composes the three: policy accepted, store '
             'accepted, request accepted => no type error. The extension signatures are TRANSLATED: Generated/Tables.tc_ext_table is read off ext_funcs.go on every run and the model\'s ext_sig equals a lookup in it for every name '
             '(C15_ext_signatures_are_the_codes), with the same functions and arities as the evaluator\'s table (C15_ext_functions_same_as_evaluator). Direct oracle: random schemas x typed and hazard policies x conforming data.',
        note=TB + 'Hypotheses of the strict theorem: record types of the schema have distinct keys; attribute names shorter than 10^39 bytes (model artifact); '
             'no hypothesis on the data beyond conformance as Validator.Entity / Validator.Request decide it (action entities: parents = closure of the declared groups). The proof found F41, F42, F43 (fixed). '
             'F29 is a known finding.',
        technique='Coq proof (type soundness by induction on expressions, capabilities as an invariant) + typeof correspondence + soundness oracle over generated schemas, policies and conforming data'),
    'C16': dict(
        level='proof', design='§0.2, §6 C16',
        text='Model of resolved.Resolve (registration, RFC 70 shadowing check, Kahn cycle detection, type-reference resolution with the namespace rules, '
             'action-membership DFS) and of the validator\'s isEntityDescendant (Impl/SchemaResolve.v). Theorems (Properties/C16.v): the cycle check is sound; '
             'resolution of every type terminates once it passes; Resolve returns a verdict on EVERY schema AST; the descendant search terminates on every '
             'hierarchy and is exact. Correspondence: Go Resolve verdict and resolved types = model on ~4000 parsed schemas (text and JSON born, names with colons). '
             'Runtime oracle: all small parent / common-type graphs over one and two namespaces, random schemas, each resolved and used for validation in a guarded child.',
        note='Known finding F48 (the error text of an unguarded tag access doubles with every nested constant conditional in the key: no verdict at depth ~30; reported through a growth probe). ' + TB + 'The proof of resolve_type_terminates exposed F40 (namespace re-derived from the qualified name; stack overflow on a JSON schema name with a colon), '
                  'repaired in /repo; the model mirrors the repaired code. The validator beyond isEntityDescendant is covered by the runtime oracle only.',
        technique='Coq termination / soundness proofs of the resolver model + AST-level differential correspondence + exhaustive small-graph runtime exploration'),
    'C17': dict(
        level='proof', design='§0.2, §6 C17',
        text='Models of BOTH codecs: the schema JSON codec on JSON trees (Impl/SchemaJson.v, intermediate structs included; sjsonenc / sjsondec correspondences) and '
             'the schema text lexer, parser and printer on bytes (Impl/SchemaText.v, function by function after token.go / parser.go / marshal.go; stparse / stprint '
             'correspondences, nothing outside the model). Theorems (Properties/C17.v): JSON - decoding the rendering of every well-formed AST yields the schema in normal form '
             '(parent lists sorted, an empty bare namespace dropped), the second rendering is identical, resolution is preserved up to the order of parent lists, the decoder is '
             'total; TEXT - parse_schema (print_schema s) = norm_text s for every schema the text syntax can express (wf_text), the second rendering is byte-identical, the '
             'parser is total, and the round trip preserves the verdict and result of resolution (also for declared types named like built-ins: the printer writes __cedar::Name then - '
             'F26, found here and fixed; an empty applies-to list is not printable: known finding F45). Direct oracle on text-, JSON- and AST-born schemas for the combination of the two formats.',
        note=TB + 'Trusted in addition: the schema generators and the canonical comparison of resolved schemas. The text normal form turns every type name into a reference '
             '(the Go parser does not classify names; the resolver does). F45 is a known finding; F26 and F44 were found by this check and fixed.',
        technique='Coq proofs (JSON and text codec round trips, resolution preserved) + enc/dec and parse/print correspondences + Go-vs-Go round-trip oracle over generated schemas'),
    'C18': dict(
        level='proof', design='§6 C18',
        text='Model of the scanner (buffered rune reader with refill, sentinel, partial-rune handling, tokBuf spill, line/column bookkeeping) over a '
             'scripted io.Reader (Impl/Scanner.v) and of nextToken (Impl/Tokenizer.v); specification = the same tokenizer over a reader-free cursor on '
             'the whole byte string (Lang/Cursor.v). Theorems (Properties/C18.v): for every read schedule and buffer size >= 4 the token list (or the '
             'failure) equals the specification\'s, hence chunking invariance; termination for every reader; token text = source bytes at the offset; '
             'line/column = position_of; a reader that fails before the end yields the error (for byte-valued input). Correspondence: Go tokenizer '
             '(hook VerifTokenize) = model with bufLen 1024 = spec on documents up to 3 kB x schedules incl. failures. Direct oracle: cedar.NewDecoder '
             'over scripted readers vs NewPolicyListFromBytes incl. policy positions.',
        note=TB + 'Modelled, not verified: unicode/utf8 DecodeRune/FullRune (Base/Utf8.v, exercised by the correspondence), the parser above the token '
                  'list (deterministic function of the tokens; the Decoder tokenizes the whole reader first), the reader contract (a failing step keeps failing).',
        technique='Coq refinement proof (buffered scanner on every read schedule = reader-free cursor) + differential token correspondence + stream-vs-slice oracle'),
    'C19': dict(
        level='exploration', design='§6 C19',
        text='Data races are a property of the Go memory model and cannot be exhibited by a Gallina model; explored under the race detector: N goroutines '
             'share one policy set, entity map, request, batch template and values and run authorize / batch / marshal / inspect concurrently; each result is '
             'compared with the sequential one; inputs are snapshotted (text, JSON, raw AST) before and after. The model half (fold / partial / batch are '
             'pure functions that rebuild instead of updating) is what C04-C06 prove.',
        note='Trusted: the Go race detector (complete only for the executions it sees) and the harness.',
        technique='race-detector exploration with result comparison and input snapshots'),
    'C20': dict(
        level='proof', design='§6 C20',
        text='Theorems: Add/Remove refine the abstract id->policy function and keep ids unique; MarshalCedar order is the id-sorted permutation and '
             'represents the same map; authorization depends only on the contents. OVER HISTORIES (Proofs/PolicySetHistory.v): from any state with unique ids - in particular the empty set - every answer of every operation sequence is the one the plain map model predicts and the state is the predicted map (C20_every_history, C20_every_history_from_empty), the prediction is unique, sets with the same bindings are indistinguishable under every history; the loader: the i-th policy of a document gets the id policy<decimal i>, ids distinct, no others (C20_loader_ids, C20_policy_id_is_decimal, C20_policy_id_injective). Correspondence: every history of <=3 (quick) / <=4 operations over '
             'add/replace/remove/JSON round trip/text reload/load document/Map() mutation, followed by get/all/marshal/authorize, and random histories, '
             'every operation result compared (incl. policy0..policyN numbering, policy10 < policy2, file names).',
        note=TB,
        technique='Coq refinement to an abstract map over every history of operations + exhaustive short-history correspondence'),
}

ALL = ['C%02d' % i for i in range(1, 21)]
NOT_APPLICABLE = [dict(property_id=p, reason='check under construction at this commit (see DESIGN.md §6); the technique applies and the property will be claimed') for p in ALL if p not in CHECKS]


def main():
    checks = []
    for pid in sorted(CHECKS):
        c = CHECKS[pid]
        checks.append(dict(
            property_id=pid,
            quick_cmd='python3 py/check.py %s --tier quick' % pid,
            thorough_cmd='python3 py/check.py %s --tier thorough' % pid,
            evidence_file='evidence/%s.json' % pid,
            replay_cmd_template='python3 py/check.py %s --replay {path}' % pid,
            engine='coq-proof+correspondence',
            level_claimed=dict(category=c['level'], text=c['text'], design_ref=c['design']),
            level_note=c['note'],
            technique=c['technique'],
        ))
    m = dict(
        version=1,
        setup_cmd='python3 py/check.py --setup',
        hooks=dict(guard='verif', enable='go build -tags verif (harness/build.sh)',
                   baseline_off_cmd='cd /repo && go test -mod=mod -json -vet=off -count=1 -timeout 25m ./...',
                   source_commits=['e355874', '9eabaaf', '2b580c9', '5e62a87'], add_only=True),
        engines=[dict(name='coq-proof+correspondence', path='py/check.py',
                      serves_properties=sorted(CHECKS),
                      kind_free_text='Coq 8.16 development under coq/ (model + theorems), extracted to OCaml (ocaml/), compared with the Go '
                                     'implementation through harness/ on generated cases; orchestrated by py/check.py')],
        checks=checks,
        notes='See DESIGN.md. Every check rebuilds the Go harness from /repo\'s working tree, re-runs make on the Coq development '
              '(regenerating Generated/*.v from the Go sources first) and re-reads Print Assumptions of its property theorems.',
        not_applicable=NOT_APPLICABLE,
    )
    with open(os.path.join(VERIF, 'MANIFEST.json'), 'w') as f:
        json.dump(m, f, indent=1)
        f.write('\n')


if __name__ == '__main__':
    main()
