#!/usr/bin/env python3
"""Seeded-change bookkeeping (development tool, not a registered check).

  seed.py import <id> <property> <dir>   copy a delivery (patch.diff, demo*, README.md) into /verif/seeded/<id>/ and confirm it:
                                         applies, builds, the full test suite passes, the demo fails with it and passes without
  seed.py run <id> [Cxx ...] [--tier t]  apply the patch, run the checks of the property (or the given ones), undo the patch,
                                         record in meta.json which checks raised a VIOLATION
  seed.py table                          print the table of seeded changes and the checks that catch them
"""
import json, os, shutil, subprocess, sys, glob

ROOT = os.path.dirname(os.path.dirname(os.path.abspath(__file__)))
REPO = '/repo'
ENV = dict(os.environ, GOFLAGS='-mod=mod', GOPROXY='off', GOSUMDB='off', GOTOOLCHAIN='local')


def sh(cmd, cwd=None, timeout=3600):
    p = subprocess.run(cmd, shell=True, cwd=cwd, env=ENV, stdout=subprocess.PIPE, stderr=subprocess.STDOUT, timeout=timeout)
    return p.returncode, p.stdout.decode('utf-8', 'replace')


def clean_repo():
    rc, out = sh('git status --porcelain', REPO)
    return out.strip() == ''


def apply(d):
    rc, out = sh('git apply %s/patch.diff' % d, REPO)
    if rc:
        raise SystemExit('patch does not apply: ' + out)


def undo(extra=()):
    sh('git checkout -- .', REPO)
    for f in extra:
        if os.path.exists(f):
            os.remove(f)
    sh('git clean -fdq', REPO)


def demo_cmd(d, meta):
    return meta['demo']['cmd']


def place_demo(d, meta):
    placed = []
    for src, dst in meta['demo'].get('files', {}).items():
        dstp = os.path.join(REPO, dst)
        os.makedirs(os.path.dirname(dstp), exist_ok=True)
        shutil.copy(os.path.join(d, src), dstp)
        placed.append(dstp)
    return placed


def cmd_import(sid, prop, src, demo_file=None, demo_dst=None, demo_cmd=None):
    d = os.path.join(ROOT, 'seeded', sid)
    os.makedirs(d, exist_ok=True)
    for f in os.listdir(src):
        p = os.path.join(src, f)
        if os.path.isfile(p):
            shutil.copy(p, os.path.join(d, f))
        elif os.path.isdir(p):
            shutil.copytree(p, os.path.join(d, f), dirs_exist_ok=True)
    meta_p = os.path.join(d, 'meta.json')
    meta = json.load(open(meta_p)) if os.path.exists(meta_p) else {}
    meta.update({'id': sid, 'property': prop, 'base_commit': sh('git rev-parse --short HEAD', REPO)[1].strip()})
    if demo_file:
        meta['demo'] = {'files': {demo_file: demo_dst}, 'cmd': demo_cmd}
    json.dump(meta, open(meta_p, 'w'), indent=1)
    if 'demo' not in meta:
        print('imported; add demo info to', meta_p)
        return
    confirm(sid)


def confirm(sid):
    d = os.path.join(ROOT, 'seeded', sid)
    meta_p = os.path.join(d, 'meta.json')
    meta = json.load(open(meta_p))
    if not clean_repo():
        raise SystemExit('/repo is not clean')
    res = {}
    placed = place_demo(d, meta)
    try:
        rc, out = sh(meta['demo']['cmd'], REPO)
        res['demo_without_patch'] = 'pass' if rc == 0 else 'FAIL'
        undo(placed)
        apply(d)
        rc, out = sh('go build ./... && go vet ./... >/dev/null 2>&1; go build ./...', REPO)
        res['builds'] = rc == 0
        rc, out = sh('go test -vet=off -count=1 ./... 2>&1 | tail -40', REPO)
        bad = [l for l in out.splitlines() if l.startswith('FAIL') or l.startswith('---') or 'panic' in l]
        res['test_suite'] = 'pass' if not bad else 'FAIL: ' + '; '.join(bad[:5])
        placed = place_demo(d, meta)
        rc, out = sh(meta['demo']['cmd'], REPO)
        res['demo_with_patch'] = 'fail' if rc != 0 else 'PASSES'
        res['demo_output'] = out[-1500:]
    finally:
        undo(placed)
    meta['confirmed'] = res
    meta['genuine'] = res.get('builds') and res.get('test_suite') == 'pass' and res.get('demo_with_patch') == 'fail' and res.get('demo_without_patch') == 'pass'
    json.dump(meta, open(meta_p, 'w'), indent=1)
    print(json.dumps({k: v for k, v in res.items() if k != 'demo_output'}), 'genuine=%s' % meta['genuine'])


def cmd_run(sid, props, tier):
    d = os.path.join(ROOT, 'seeded', sid)
    meta_p = os.path.join(d, 'meta.json')
    meta = json.load(open(meta_p))
    props = props or [meta['property']]
    if not clean_repo():
        raise SystemExit('/repo is not clean')
    apply(d)
    results = meta.get('checks', {})
    try:
        for p in props:
            # evidence is rewritten by the run: keep the committed clean-tree evidence
            ev = os.path.join(ROOT, 'evidence', p + '.json')
            keep = open(ev).read() if os.path.exists(ev) else None
            rc, out = sh('python3 py/check.py %s --tier %s' % (p, tier), ROOT, timeout=7200)
            viol = [l for l in out.splitlines() if l.startswith('VIOLATION')]
            results['%s/%s' % (p, tier)] = {'exit': rc, 'violation': viol[:3]}
            rp = None
            if viol and 'replay=' in viol[0]:
                rp = viol[0].split('replay=')[1].split()[0]
                if os.path.exists(rp):
                    shutil.copy(rp, os.path.join(d, 'replay_%s_%s%s' % (p, tier, os.path.splitext(rp)[1] or '.txt')))
            print(sid, p, tier, 'exit', rc, viol[:1])
            if keep is not None:
                open(ev, 'w').write(keep)
    finally:
        undo()
    meta['checks'] = results
    meta['caught'] = any(v['exit'] == 1 and v['violation'] for v in results.values())
    json.dump(meta, open(meta_p, 'w'), indent=1)


def cmd_table():
    for mp in sorted(glob.glob(os.path.join(ROOT, 'seeded', '*', 'meta.json'))):
        m = json.load(open(mp))
        ck = ', '.join('%s:%s' % (k, 'CAUGHT' if v['exit'] == 1 and v['violation'] else 'missed') for k, v in m.get('checks', {}).items())
        print('%-8s %-4s genuine=%-5s %s  | %s' % (m['id'], m['property'], m.get('genuine'), ck, m.get('summary', '')[:90]))


if __name__ == '__main__':
    a = sys.argv[1:]
    if a[0] == 'import':
        cmd_import(*a[1:])
    elif a[0] == 'confirm':
        confirm(a[1])
    elif a[0] == 'run':
        tier = 'quick'
        if '--tier' in a:
            i = a.index('--tier'); tier = a[i + 1]; del a[i:i + 2]
        cmd_run(a[1], a[2:], tier)
    elif a[0] == 'table':
        cmd_table()
