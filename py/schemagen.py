"""A small schema model: random schemas (as Cedar schema text), conforming entity stores / requests, and policies that are
mostly well typed against the schema.  Used by C15 (validation soundness) and C16."""
import gen
from gen import S, lit

PRIMS = ['Long', 'String', 'Bool', 'decimal', 'ipaddr', 'datetime', 'duration']
EXT_CTOR = {'decimal': ('decimal', ['1.5', '0.0', '-2.25']), 'ipaddr': ('ip', ['10.0.0.1', '127.0.0.1/8', '::1']),
            'datetime': ('datetime', ['2024-01-01', '1969-12-31T23:59:59Z']), 'duration': ('duration', ['1h', '-1d2h', '0ms'])}


class Schema:
    def __init__(self, r):
        self.r = r
        self.entities = {}     # name -> dict(parents, attrs, tags)
        self.actions = {}      # name -> dict(principals, resources, context)
        self.enums = {}        # name -> list of declared ids (enumerated entity types: no attributes, parents or tags)
        self.make()

    # ---- types: ('prim', name) | ('set', t) | ('rec', {k: (t, optional)}) | ('ent', name)
    def rtype(self, depth, names):
        r = self.r
        k = r.random()
        if depth <= 0 or k < 0.55:
            return ('prim', r.choice(PRIMS))
        if k < 0.7:
            return ('ent', r.choice(names))
        if k < 0.85:
            return ('set', self.rtype(depth - 1, names))
        return ('rec', self.rrec(depth - 1, names, r.randrange(0, 3)))

    def rrec(self, depth, names, n):
        r = self.r
        keys = r.sample(['a', 'b', 'k', 'name', 'n', 'flag', 'when', 'x y', 'a.b', 'r', 'e', 's', 'd', 't'], n)
        return {k: (self.rtype(depth, names), r.random() < 0.4) for k in keys}

    def make(self):
        r = self.r
        names = r.sample(['User', 'Group', 'Doc', 'Folder', 'Team'], r.randrange(2, 5))
        for i, n in enumerate(names):
            parents = [p for p in names if r.random() < (0.3 if p != n else 0.1)]
            attrs = self.rrec(2, names, r.randrange(1, 6))
            tags = self.rtype(1, names) if r.random() < 0.4 else None
            self.entities[n] = dict(parents=parents, attrs=attrs, tags=tags)
        if r.random() < 0.5:
            self.enums[r.choice(['Color', 'Level'])] = r.sample(['red', 'green', 'a', 'b'], r.randrange(1, 4))
        self.group = r.random() < 0.5          # an action group "grp" that some actions are members of
        for a in r.sample(['view', 'edit', 'delete', 'share'], r.randrange(1, 4)):
            self.actions[a] = dict(member=self.group and r.random() < 0.6, principals=r.sample(names, r.randrange(1, min(3, len(names)) + 1)),
                                   resources=r.sample(names, r.randrange(1, min(3, len(names)) + 1)),
                                   context=self.rrec(2, names, r.randrange(0, 5)))

    # ---- schema text
    def ttext(self, t):
        if t[0] == 'prim':
            return t[1]
        if t[0] == 'ent':
            return t[1]
        if t[0] == 'set':
            return 'Set<' + self.ttext(t[1]) + '>'
        return self.rectext(t[1])

    def rectext(self, rec):
        parts = []
        for k, (t, opt) in rec.items():
            kk = k if k.replace('_', '').isalnum() and not k[0].isdigit() and k not in ('in',) else '"' + k + '"'
            parts.append('%s%s: %s' % (kk, '?' if opt else '', self.ttext(t)))
        return '{ ' + ', '.join(parts) + ' }'

    def text(self):
        out = []
        for n, e in self.entities.items():
            s = 'entity ' + n
            if e['parents']:
                s += ' in [' + ', '.join(e['parents']) + ']'
            s += ' ' + self.rectext(e['attrs'])
            if e['tags'] is not None:
                s += ' tags ' + self.ttext(e['tags'])
            out.append(s + ';')
        for n, ids in self.enums.items():
            out.append('entity %s enum [%s];' % (n, ', '.join('"%s"' % i for i in ids)))
        if self.group:
            out.append('action "grp";')
        for a, d in self.actions.items():
            out.append('action "%s"%s appliesTo { principal: [%s], resource: [%s], context: %s };' %
                       (a, ' in ["grp"]' if d['member'] else '', ', '.join(d['principals']), ', '.join(d['resources']), self.rectext(d['context'])))
        return '\n'.join(out) + '\n'

    # ---- conforming data
    def value(self, t, ids):
        r = self.r
        if t[0] == 'prim':
            n = t[1]
            if n == 'Long': return gen.vlong(r.choice([0, 1, -1, 5, gen.MAX64, gen.MIN64, 42]))
            if n == 'String': return gen.vstr(r.choice(['', 'a', 'alice', 'x y']))
            if n == 'Bool': return gen.vbool(r.random() < 0.5)
            if n == 'decimal': return gen.vdec(r.choice([0, 15000, -1, gen.MAX64]))
            if n == 'ipaddr': return gen.vip(r.choice(gen.IPS[:12]))
            if n == 'datetime': return gen.vdt(r.choice([0, 1, -1, gen.MAX64, 1700000000000]))
            return gen.vdur(r.choice([0, 1000, -1, gen.MIN64]))
        if t[0] == 'ent':
            return gen.vent(t[1], r.choice(ids))
        if t[0] == 'set':
            return gen.vset([self.value(t[1], ids) for _ in range(r.randrange(0, 3))])
        return self.record(t[1], ids)

    def record(self, rec, ids):
        r = self.r
        kvs = []
        for k, (t, opt) in rec.items():
            if opt and r.random() < 0.5:
                continue
            kvs.append((k, self.value(t, ids)))
        return gen.vrec(kvs)

    def store(self):
        r = self.r
        ids = ['a', 'b', 'c']
        ents = []
        for n, e in self.entities.items():
            for i in ids:
                if r.random() < 0.7:
                    parents = [gen.vent(p, r.choice(ids)) for p in e['parents'] if r.random() < 0.6]
                    attrs = self.record(e['attrs'], ids)
                    if r.random() < 0.12:
                        # NOT conforming: an attribute the schema does not declare (often while an optional one is absent); the validator's own
                        # conformance check must say so - a run it calls conforming is evaluated
                        attrs = attrs + [[S('undeclared'), r.choice([gen.vlong(1), gen.vstr('s'), gen.vrec([('min', gen.vlong(1))])])]]
                    tags = []
                    if e['tags'] is not None:
                        tags = [[S(k), self.value(e['tags'], ids)] for k in r.sample(['k', 't', 'x y', ''], r.randrange(0, 3))]
                    bad = r.random()
                    if bad < 0.03:
                        parents = parents + [gen.vent(r.choice(sorted(self.entities) + ['Nope']), 'a')]          # a parent of a type the schema may not allow
                    elif bad < 0.06:
                        tags = tags + [[S('k'), r.choice([gen.vlong(1), gen.vstr('s'), gen.vbool(True), gen.vdec(1)])]]   # a tag of the wrong type / on a type without tags
                    elif bad < 0.1 and len(attrs) > 1:
                        i_ = r.randrange(1, len(attrs))                                                           # an attribute value of another type
                        attrs = attrs[:i_] + [[attrs[i_][0], r.choice([gen.vlong(7), gen.vstr('x'), gen.vset([gen.vlong(1)]), gen.vip(gen.IPS[0]), gen.vdur(5), gen.vent('Nope', 'a'), gen.vrec([])])]] + attrs[i_ + 1:]
                    ents.append(['ent', gen.vent(n, i), ['parents'] + parents, ['attrs'] + attrs[1:], ['tags'] + tags])
        # enumerated entities: usually absent or bare (conforming); sometimes with an undeclared id, parents, attributes or tags, which
        # the validator's own conformance check must reject (the run is then not counted: an accepted one is evaluated)
        for n, eids in self.enums.items():
            for i in eids + ['zz']:
                k = r.random()
                if k < 0.5 or (i == 'zz' and k < 0.9):
                    continue
                parents, attrs, tags = [], [], []
                if k > 0.8 and self.entities:
                    parents = [gen.vent(r.choice(sorted(self.entities)), r.choice(ids))]
                elif k > 0.75:
                    attrs = [[S('a'), gen.vlong(1)]]
                elif k > 0.7:
                    tags = [[S('k'), gen.vlong(1)]]
                ents.append(['ent', gen.vent(n, i), ['parents'] + parents, ['attrs'] + attrs, ['tags'] + tags])
        return ['store'] + ents

    def request(self):
        r = self.r
        a = r.choice(sorted(self.actions))
        d = self.actions[a]
        ids = ['a', 'b', 'c', 'zz']
        cx = self.record(d['context'], ids[:3])
        bad = r.random()
        if bad < 0.04 and len(cx) > 1:
            i_ = r.randrange(1, len(cx))                       # NOT conforming: a context attribute of another type
            cx = cx[:i_] + [[cx[i_][0], r.choice([gen.vlong(7), gen.vstr('x'), gen.vset([gen.vstr('a')]), gen.vdec(5), gen.vrec([])])]] + cx[i_ + 1:]
        elif bad < 0.07:
            # NOT conforming: a principal / resource type the action does not apply to, or an action the schema does not declare
            other = r.choice(sorted(self.entities) + ['Nope'])
            k_ = r.randrange(3)
            return ['req', gen.vent(other if k_ == 0 else r.choice(d['principals']), r.choice(ids)), gen.vent('Action', 'nosuch' if k_ == 1 else a),
                    gen.vent(other if k_ == 2 else r.choice(d['resources']), r.choice(ids)), cx]
        if r.random() < 0.12:
            cx = cx + [[S('undeclared'), r.choice([gen.vlong(1), gen.vstr('s'), gen.vrec([('min', gen.vlong(1))])])]]      # NOT conforming, see store()
        return ['req', gen.vent(r.choice(d['principals']), r.choice(ids)), gen.vent('Action', a), gen.vent(r.choice(d['resources']), r.choice(ids)), cx]

    # ---- policies: expressions typed against an environment (ptype, action, rtype)
    def texpr(self, want, env, depth, guarded=None):
        """an expression intended to have type `want` (same shapes as rtype, plus ('prim','Bool'))"""
        r = self.r
        guarded = guarded or []
        cands = self.paths(env, want, guarded)
        if cands and (depth <= 0 or r.random() < 0.6):
            return r.choice(cands)
        if want == ('prim', 'Bool'):
            if depth <= 0:
                return lit(gen.vbool(r.random() < 0.5))
            k = r.randrange(10)
            d = depth - 1
            if k == 0: return ['and', self.texpr(want, env, d, guarded), self.texpr(want, env, d, guarded)]
            if k == 1: return ['or', self.texpr(want, env, d, guarded), self.texpr(want, env, d, guarded)]
            if k == 2: return ['not', self.texpr(want, env, d, guarded)]
            if k == 3:
                t = ('prim', r.choice(['Long', 'String', 'Bool', 'datetime', 'duration', 'decimal']))
                return [r.choice(['eq', 'ne']), self.texpr(t, env, d, guarded), self.texpr(t, env, d, guarded)]
            if k == 4:
                t = ('prim', r.choice(['Long', 'datetime', 'duration']))
                return [r.choice(['lt', 'le', 'gt', 'ge']), self.texpr(t, env, d, guarded), self.texpr(t, env, d, guarded)]
            if k == 5:
                # has-guarded access of an optional attribute
                opt = self.optional_paths(env)
                if opt:
                    base, key, t = r.choice(opt)
                    inner = self.texpr(('prim', 'Bool'), env, d, guarded + [(base, key, t)])
                    return ['and', ['has', base, S(key)], inner]
            if k == 6:
                t = ('set', ('prim', r.choice(['Long', 'String'])))
                return ['contains', self.texpr(t, env, d, guarded), self.texpr(t[1], env, d, guarded)]
            if k == 7:
                return ['in', ['var', r.choice(['principal', 'resource'])], lit(gen.vent(r.choice(sorted(self.entities)), 'a'))]
            if r.random() < 0.6:
                # the remaining operators and the extension methods (every typing rule of the checker gets exercised)
                T = lambda n: ('prim', n)
                ety = ('ent', r.choice(sorted(self.entities)))
                sety = ('set', T(r.choice(['Long', 'String'])))
                m = r.randrange(16)
                if m == 0: return ['like', self.texpr(T('String'), env, d, guarded), r.choice([['pat', S('a'), ['w']], ['pat', ['w']], ['pat', S('al'), ['w'], S('e')], ['pat', S('')]])]
                if m == 1: return ['is', self.texpr(ety, env, d, guarded), S(r.choice(sorted(self.entities) + ['Nope']))]
                if m == 2: return ['isIn', self.texpr(ety, env, d, guarded), S(r.choice(sorted(self.entities))), self.texpr(('ent', r.choice(sorted(self.entities))), env, d, guarded)]
                if m == 3: return [r.choice(['containsAll', 'containsAny']), self.texpr(sety, env, d, guarded), self.texpr(sety, env, d, guarded)]
                if m == 4: return ['isEmpty', self.texpr(sety, env, d, guarded)]
                if m == 5: return ['gt', ['neg', self.texpr(T('Long'), env, d, guarded)], self.texpr(T('Long'), env, d, guarded)]
                if m == 6: return ['call', S(r.choice(['lessThan', 'lessThanOrEqual', 'greaterThan', 'greaterThanOrEqual'])), self.texpr(T('decimal'), env, d, guarded), self.texpr(T('decimal'), env, d, guarded)]
                if m == 7: return ['call', S(r.choice(['isIpv4', 'isIpv6', 'isLoopback', 'isMulticast'])), self.texpr(T('ipaddr'), env, d, guarded)]
                if m == 8: return ['call', S('isInRange'), self.texpr(T('ipaddr'), env, d, guarded), self.texpr(T('ipaddr'), env, d, guarded)]
                if m == 9: return ['lt', ['call', S('offset'), self.texpr(T('datetime'), env, d, guarded), self.texpr(T('duration'), env, d, guarded)], self.texpr(T('datetime'), env, d, guarded)]
                if m == 10: return ['le', ['call', S('durationSince'), self.texpr(T('datetime'), env, d, guarded), self.texpr(T('datetime'), env, d, guarded)], self.texpr(T('duration'), env, d, guarded)]
                if m == 11: return ['eq', ['call', S(r.choice(['toDate'])), self.texpr(T('datetime'), env, d, guarded)], self.texpr(T('datetime'), env, d, guarded)]
                if m == 12: return ['ge', ['call', S('toTime'), self.texpr(T('datetime'), env, d, guarded)], self.texpr(T('duration'), env, d, guarded)]
                if m == 13: return ['gt', ['call', S(r.choice(['toDays', 'toHours', 'toMinutes', 'toSeconds', 'toMilliseconds'])), self.texpr(T('duration'), env, d, guarded)], self.texpr(T('Long'), env, d, guarded)]
                if m == 14:
                    tagged = [(b, self.entities[t[1]]['tags']) for b, t in self.roots(env)[:2] if t[1] in self.entities and self.entities[t[1]]['tags'] is not None]
                    if tagged:
                        base, tt = r.choice(tagged)
                        key = lit(gen.vstr(r.choice(['k', 't'])))
                        return ['and', ['hasTag', base, key], ['eq', ['getTag', base, key], self.texpr(tt, env, d, guarded)]]
                if m == 15:
                    # the same operators fed operands of the WRONG type: both the checker and its model must reject (or accept) alike
                    wrong = self.texpr(T(r.choice(['Long', 'String', 'Bool', 'decimal', 'ipaddr', 'datetime', 'duration'])), env, 0, guarded)
                    other = self.texpr(r.choice([T('Long'), T('String'), sety, ety]), env, 0, guarded)
                    return r.choice([['like', wrong, ['pat', ['w']]], ['is', wrong, S('User')], ['isEmpty', wrong], ['containsAll', wrong, other], ['contains', wrong, other],
                                     ['gt', ['neg', wrong], lit(gen.vlong(0))], ['call', S('lessThan'), wrong, other], ['call', S('isIpv4'), wrong], ['call', S('isInRange'), wrong, other],
                                     ['lt', ['call', S('offset'), wrong, other], other], ['gt', ['call', S('toDays'), wrong], lit(gen.vlong(0))], ['hasTag', wrong, lit(gen.vstr('k'))],
                                     ['eq', ['getTag', wrong, other], other], ['in', wrong, other], ['call', S('decimal'), wrong], ['call', S('ip'), lit(gen.vstr('not an ip'))],
                                     ['call', S('lessThan'), self.texpr(T('decimal'), env, 0, guarded)], ['eq', ['mkset', wrong, other], ['mkset']],
                                     ['eq', ['mkrec', [S('a'), wrong], [S('b'), other]], ['mkrec']]])      # (distinct keys: a repeated key cannot be written as text, and C19 parses these policies from text)
            return ['if', self.texpr(want, env, d, guarded), self.texpr(want, env, d, guarded), self.texpr(want, env, d, guarded)]
        if want[0] == 'prim':
            n = want[1]
            if n == 'Long':
                if depth > 0 and r.random() < 0.5:
                    return [r.choice(['add', 'sub', 'mul']), self.texpr(want, env, depth - 1, guarded), self.texpr(want, env, depth - 1, guarded)]
                return lit(gen.vlong(r.choice([0, 1, 2, 7, gen.MAX64])))
            if n == 'String': return lit(gen.vstr(r.choice(['a', 'alice', ''])))
            if n in EXT_CTOR:
                if r.random() < 0.2:
                    return lit(self.value(want, ['a']))           # an extension VALUE rather than a constructor call
                f, strs = EXT_CTOR[n]
                return ['call', S(f), lit(gen.vstr(r.choice(strs)))]
        if want[0] == 'set':
            k = r.random()
            if k < 0.15:
                return lit(self.value(want, ['a', 'b']))          # a set VALUE (policies decoded from JSON carry them)
            if k < 0.22:
                return ['mkset']                                   # the empty set literal
            if k < 0.3:
                # members of different types: an error in strict mode, a union / error in permissive mode
                return ['mkset', self.texpr(want[1], env, 0, guarded), self.texpr(('prim', r.choice(['Long', 'String', 'Bool', 'ipaddr'])), env, 0, guarded)]
            return ['mkset'] + [self.texpr(want[1], env, depth - 1, guarded) for _ in range(r.randrange(1, 3))]
        if want[0] == 'ent':
            return lit(gen.vent(want[1], r.choice(['a', 'b'])))
        if want[0] == 'rec':
            if r.random() < 0.15:
                return lit(self.value(want, ['a', 'b']))          # a record VALUE
            return ['mkrec'] + [[S(k), self.texpr(t, env, depth - 1, guarded)] for k, (t, opt) in want[1].items()]
        return lit(gen.vbool(True))

    def roots(self, env):
        ptype, action, rtype = env
        return [(['var', 'principal'], ('ent', ptype)), (['var', 'resource'], ('ent', rtype)), (['var', 'context'], ('rec', self.actions[action]['context']))]

    def walk(self, base, t, depth, guarded, out, want, only_required=True):
        """collect access paths of type `want` reachable through required (or guarded optional) attributes"""
        if t == want:
            out.append(base)
        if depth <= 0:
            return
        rec = None
        if t[0] == 'ent' and t[1] in self.entities:
            rec = self.entities[t[1]]['attrs']
        elif t[0] == 'rec':
            rec = t[1]
        if rec:
            for k, (kt, opt) in rec.items():
                if opt and not any(b == base and kk == k for (b, kk, _) in guarded):
                    continue
                self.walk(['access', base, S(k)], kt, depth - 1, guarded, out, want)

    def paths(self, env, want, guarded):
        out = []
        for base, t in self.roots(env):
            self.walk(base, t, 3, guarded, out, want)
        return out

    def optional_paths(self, env):
        res = []

        def go(base, t, depth):
            rec = None
            if t[0] == 'ent' and t[1] in self.entities:
                rec = self.entities[t[1]]['attrs']
            elif t[0] == 'rec':
                rec = t[1]
            if rec and depth > 0:
                for k, (kt, opt) in rec.items():
                    if opt:
                        res.append((base, k, kt))
                    else:
                        go(['access', base, S(k)], kt, depth - 1)
        for base, t in self.roots(env):
            go(base, t, 2)
        return res

    def policy(self, depth):
        r = self.r
        a = r.choice(sorted(self.actions))
        d = self.actions[a]
        env = (r.choice(d['principals']), a, r.choice(d['resources']))
        conds = [[r.choice(['when', 'when', 'unless']), self.texpr(('prim', 'Bool'), env, depth)] for _ in range(r.choice([1, 1, 2]))]
        # scope pins the environment so that the typing environment is the one the expressions were built for
        return ['policy', S('p'), r.choice(['permit', 'forbid']), ['is', S(env[0])], ['eq', gen.vent('Action', a)], ['is', S(env[2])], ['conds'] + conds, ['annots']]

    # ---- hazards: an expression that fails at run time, reachable only through a guard the validator may (wrongly) believe dead
    def hazard_policy(self):
        r = self.r
        a = r.choice(sorted(self.actions))
        d = self.actions[a]
        env = (r.choice(d['principals']), a, r.choice(d['resources']))
        types = sorted(self.entities)
        P, R = ['var', 'principal'], ['var', 'resource']
        E = r.choice([P, P, R] + self.paths(env, ('ent', r.choice(types)), []))
        t1 = r.choice(types)
        t2 = r.choice(types)
        f1 = self.texpr(('ent', t1), env, 1)
        f2 = self.texpr(('ent', t2), env, 1)
        cond = self.texpr(('prim', 'Bool'), env, 1)
        F = r.choice([['if', cond, f1, f2], ['if', cond, f2, f1], ['mkset', f1, f2], f1, ['mkset', f1], ['if', cond, ['mkset', f1], ['mkset', f2]]])
        opt = self.optional_paths(env)
        # sets of entities of unrelated types can still be EQUAL: both may be empty
        sa_, sb_ = self.texpr(('set', ('ent', t1)), env, 1), self.texpr(('set', ('ent', t2)), env, 1)
        guards = [['eq', sa_, sb_], ['not', ['ne', sa_, sb_]], ['eq', sa_, ['mkset']], ['in', E, F], ['in', E, F], ['in', E, F], ['is', E, S(t1)], ['isIn', E, S(t1), f2], ['eq', E, f1], ['ne', E, f1],
                  ['not', ['in', E, F]], ['in', f1, F], ['or', ['in', E, f1], ['in', E, f2]],
                  # tags / attributes of a union of entity types (permissive mode): present in one member type only
                  ['hasTag', ['if', cond, f1, f2], lit(gen.vstr('k'))], ['hasTag', ['if', cond, f2, f1], lit(gen.vstr('t'))],
                  ['has', ['if', cond, f1, f2], S(r.choice(['a', 'b', 'k', 'name', 'n']))], ['hasTag', E, lit(gen.vstr('k'))]]
        # `is` over a union of entity types (permissive mode): true of one member type only, whichever position that type has in the union
        U = r.choice([['if', cond, f1, f2], ['if', cond, f2, f1]])
        guards += [['is', U, S(t1)], ['is', U, S(t2)], ['is', U, S(min(t1, t2))], ['isIn', U, S(min(t1, t2)), f1], ['not', ['is', U, S(min(t1, t2))]]]
        if opt:
            base, key, t = r.choice(opt)
            guards.append(['has', base, S(key)])
        # the action hierarchy: membership in a group is decided from the schema when the left side denotes the action, otherwise from types
        A = ['var', 'action']
        grp, other = lit(gen.vent('Action', 'grp')), lit(gen.vent('Action', r.choice(sorted(self.actions))))
        guards += [['in', A, grp], ['in', A, other], ['in', ['if', cond, A, A], grp], ['in', ['if', cond, A, other], grp], ['in', A, ['mkset', grp, other]],
                   ['in', ['if', cond, A, A], f1], ['in', A, f1], ['eq', A, other], ['in', other, grp], ['isIn', A, S('Action'), grp]]
        if self.enums:
            en = r.choice(sorted(self.enums))
            el = lit(gen.vent(en, r.choice(self.enums[en])))
            # an enumerated entity has no ancestors, attributes or tags: the validator may rely on that only if conformance enforces it
            guards += [['in', el, F], ['in', el, f1], ['in', el, ['mkset', f1, f2]], ['in', ['if', cond, el, f1], f2], ['eq', el, f1],
                       ['in', E, el], ['in', el, el]] * 2
        # records and entities are closed: `x has undeclared` is typed False only because conformance rejects undeclared attributes
        und = r.choice([P, R, ['var', 'context']])
        guards += [['has', und, S('undeclared')]] * 2
        # attributes / tags of a union that mixes an ordinary entity type with an enumerated or action type (permissive mode): the bare member
        # has no attributes at all, so the access is sound only behind a `has` of the whole union
        if r.random() < 0.12:
            tn = r.choice(types)
            req = [k for k, (t_, opt_) in self.entities[tn]['attrs'].items() if not opt_]
            others = [A, lit(gen.vent('Action', r.choice(sorted(self.actions))))]
            if self.enums:
                en = r.choice(sorted(self.enums))
                others += [lit(gen.vent(en, r.choice(self.enums[en])))] * 2
            other = r.choice(others)
            base = self.texpr(('ent', tn), env, 1)
            U2 = r.choice([['if', cond, base, other], ['if', cond, other, base]])
            if req and r.random() < 0.7:
                k_ = r.choice(req)
                acc = ['access', U2, S(k_)]
                body = r.choice([['eq', acc, acc], ['or', ['eq', acc, acc], lit(gen.vbool(True))], ['and', ['has', U2, S(k_)], ['eq', acc, acc]]])
            else:
                acc = ['getTag', U2, lit(gen.vstr('k'))]
                body = r.choice([['eq', acc, acc], ['and', ['hasTag', U2, lit(gen.vstr('k'))], ['eq', acc, acc]]])
            return ['policy', S('p'), r.choice(['permit', 'forbid']), ['is', S(env[0])], ['eq', gen.vent('Action', a)], ['is', S(env[2])],
                    ['conds', ['when', body]], ['annots']]
        # several clauses: each is checked on its own - what an earlier `when` / `unless` establishes (a presence test) does not carry over, and an
        # `unless` holds when its body is FALSE
        if opt and r.random() < 0.1:
            base, key, t = r.choice(opt)
            acc = ['access', base, S(key)]
            first = r.choice([['unless', ['has', base, S(key)]], ['when', ['has', base, S(key)]], ['unless', ['not', ['has', base, S(key)]]], ['when', ['not', ['has', base, S(key)]]]])
            second = [r.choice(['when', 'unless']), r.choice([['eq', acc, acc], ['ne', acc, acc], ['and', cond, ['eq', acc, acc]]])]
            return ['policy', S('p'), r.choice(['permit', 'forbid']), ['is', S(env[0])], ['eq', gen.vent('Action', a)], ['is', S(env[2])],
                    ['conds', first, second], ['annots']]
        # tags of a union of two ordinary entity types (permissive mode), whatever the tag types are (entities, records, sets: not comparable with ==)
        if r.random() < 0.08:
            Uab = r.choice([['if', cond, f1, f2], ['if', cond, f2, f1]])
            kk = lit(gen.vstr(r.choice(['k', 't'])))
            body = r.choice([['and', ['hasTag', Uab, kk], ['eq', ['getTag', Uab, kk], ['getTag', Uab, kk]]], ['eq', ['getTag', Uab, kk], ['getTag', Uab, kk]],
                             ['and', ['hasTag', Uab, kk], ['hasTag', ['getTag', Uab, kk], kk]]])
            return ['policy', S('p'), r.choice(['permit', 'forbid']), ['is', S(env[0])], ['eq', gen.vent('Action', a)], ['is', S(env[2])],
                    ['conds', ['when', body]], ['annots']]
        G = r.choice(guards)
        bads = [['gt', ['add', lit(gen.vstr('a')), lit(gen.vlong(1))], lit(gen.vlong(0))], ['like', lit(gen.vlong(1)), ['pat', ['w']]],
                ['contains', lit(gen.vlong(1)), lit(gen.vlong(1))], ['lt', lit(gen.vlong(1)), lit(gen.vstr('a'))]]
        if opt:
            base, key, t = r.choice(opt)
            bads += [['eq', ['access', base, S(key)], ['access', base, S(key)]]] * 3
        bads.append(['eq', ['access', P, S('no_such_attribute')], lit(gen.vlong(1))])
        if G[0] == 'has' and G[2] == S('undeclared'):
            bads = [['gt', ['access', ['access', G[1], S('undeclared')], S('min')], lit(gen.vlong(3))], ['like', ['access', G[1], S('undeclared')], ['pat', S('adm'), ['w']]],
                    ['gt', ['access', G[1], S('undeclared')], lit(gen.vlong(0))]] + bads[:2]
        BAD = r.choice(bads)
        # BAD sits where only a guard that is (wrongly) typed False hides it - or, dually, where only a guard (wrongly) typed True does
        body = r.choice([['if', G, BAD, lit(gen.vbool(False))], ['and', G, BAD], ['or', ['not', G], BAD], ['if', ['not', G], lit(gen.vbool(True)), BAD],
                         ['if', G, lit(gen.vbool(True)), BAD], ['or', G, BAD], ['and', ['not', G], BAD], ['if', ['not', G], BAD, lit(gen.vbool(False))]])
        return ['policy', S('p'), r.choice(['permit', 'forbid']), ['is', S(env[0])], ['eq', gen.vent('Action', a)], ['is', S(env[2])],
                ['conds', ['when', body]], ['annots']]
