"""Schemas born as ASTs (x/exp/schema/ast builder API), as the rich S-expression of harness/kinds_schemaast.go.
Well-formed by construction: declared type names are identifiers, references mostly resolve; everything the AST can carry that
the text / JSON syntax must spell out is exercised: empty enums, empty applies-to lists, empty records, annotations with empty
values, attribute / action names and enum values that need quoting, qualified and unqualified references and action parents."""
from gen import S

ENT = ['User', 'Group', 'Doc', 'Folder', 'T1', '_x']
ENUM = ['Color', 'Level']
COMMON = ['Ctx', 'Name', 'Rec']
ATTR = ['a', 'b', 'name', 'x y', '', 'in', 'é', 'a"b', 'if', 'k1']
ACT = ['view', 'edit', 'x y', '', 'a"b', 'Action', 'in']
STRS = ['', 'red', 'x y', 'é', 'a"b', '\\', 'line\nbreak']
ANN = ['doc', 'id', 'a1', '_k']
NSN = ['NS', 'A::B']


def annots(r, p=0.25):
    if r.random() > p:
        return ['annots']
    return ['annots'] + [[S(k), S(r.choice(STRS))] for k in sorted(r.sample(ANN, r.randrange(1, 3)))]


class Gen:
    def __init__(self, r):
        self.r = r
        self.nss = [''] if r.random() < 0.6 else []
        self.nss += r.sample(NSN, r.choice([0, 1, 1, 2]))
        if not self.nss:
            self.nss = ['']
        self.decl = {}
        for ns in self.nss:
            ents = r.sample(ENT, r.randrange(0, 4))
            enums = r.sample(ENUM, r.choice([0, 0, 1, 2]))
            commons = r.sample(COMMON, r.choice([0, 0, 1, 2]))
            self.decl[ns] = dict(ents=ents, enums=enums, commons=commons, acts=r.sample(ACT, r.randrange(0, 4)))

    def q(self, ns, n):
        return ns + '::' + n if ns else n

    def ent_ref(self, ns):
        """a reference to a declared entity / enum type, visible from ns"""
        r = self.r
        cands = []
        for m in self.nss:
            for n in self.decl[m]['ents'] + self.decl[m]['enums']:
                cands.append(self.q(m, n))
                if m == ns:
                    cands.append(n)
        if not cands or r.random() < 0.05:
            return r.choice(['Nope', 'NS::Nope', 'User'])
        return r.choice(cands)

    def common_ref(self, ns):
        r = self.r
        cands = []
        for m in self.nss:
            for n in self.decl[m]['commons']:
                cands.append(self.q(m, n))
                if m == ns:
                    cands.append(n)
        return r.choice(cands) if cands else None

    def ty(self, ns, d, allow_common=True):
        r = self.r
        k = r.random()
        if d <= 0 or k < 0.4:
            return r.choice([['string'], ['long'], ['bool'], ['ext', S(r.choice(['ipaddr', 'decimal', 'datetime', 'duration']))]])
        if k < 0.5:
            return ['ent', S(self.ent_ref(ns))]
        if k < 0.62:
            c = self.common_ref(ns) if allow_common and r.random() < 0.6 else None
            return ['ref', S(c if c else r.choice([self.ent_ref(ns), 'String', 'Long', 'Bool', 'ipaddr', '__cedar::String', '__cedar::Long']))]
        if k < 0.78:
            return ['set', self.ty(ns, d - 1, allow_common)]
        return self.rec(ns, d - 1, allow_common)

    def rec(self, ns, d, allow_common=True):
        r = self.r
        return ['rec'] + [[S(a), self.ty(ns, d, allow_common), '1' if r.random() < 0.3 else '0', annots(r, 0.15)]
                          for a in sorted(r.sample(ATTR, r.choice([0, 1, 2, 3])), key=lambda s: s.encode())]

    def ns(self, ns):
        r = self.r
        d = self.decl[ns]
        ents = []
        for n in sorted(d['ents']):
            parents = [S(self.ent_ref(ns)) for _ in range(r.choice([0, 0, 1, 2, 3]))]
            ents.append(['ent', S(n), annots(r), ['parents'] + parents,
                         ['shape', self.rec(ns, 2) if r.random() < 0.7 else 'none'],
                         ['tags', self.ty(ns, 1) if r.random() < 0.3 else 'none']])
        enums = [['enum', S(n), annots(r), ['values'] + [S(v) for v in r.sample(STRS, r.choice([0, 1, 2, 3]))]] for n in sorted(d['enums'])]
        # common types never mention common types (no cycles, no order dependence)
        commons = [['ct', S(n), annots(r), self.ty(ns, 2, allow_common=False)] for n in sorted(d['commons'])]
        acts = []
        names = sorted(d['acts'], key=lambda s: s.encode())
        for i, n in enumerate(names):
            parents = []
            for p in r.sample(names[:i], min(i, r.choice([0, 0, 1, 2]))):      # parents among earlier names: no cycles
                k = r.random()
                parents.append([S('' if k < 0.5 else self.q(ns, 'Action') if k < 0.8 else 'Action'), S(p)])
            ap = 'none'
            if r.random() < 0.75:
                cx = 'none'
                if r.random() < 0.6:
                    c = self.common_ref(ns)
                    cx = ['ref', S(c)] if c and r.random() < 0.3 else self.rec(ns, 2)
                ap = ['ap', ['principals'] + [S(self.ent_ref(ns)) for _ in range(r.choice([0, 1, 1, 2]))],
                      ['resources'] + [S(self.ent_ref(ns)) for _ in range(r.choice([0, 1, 1, 2]))], ['context', cx]]
            acts.append(['act', S(n), annots(r), ['parents'] + parents, ['applies', ap]])
        return ['ns', S(ns), annots(r) if ns else ['annots'], ['entities'] + ents, ['enums'] + enums, ['commons'] + commons, ['actions'] + acts]

    def schema(self):
        return ['xschema'] + [self.ns(n) for n in sorted(self.nss)]


def schema_ast(r):
    return Gen(r).schema()
