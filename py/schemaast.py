"""Schemas born as ASTs (x/exp/schema/ast builder API), as the rich S-expression of harness/kinds_schemaast.go.
Well-formed by construction: declared type names are identifiers, references mostly resolve; everything the AST can carry that
the text / JSON syntax must spell out is exercised: empty enums, empty applies-to lists, empty records, annotations with empty
values, attribute / action names and enum values that need quoting, qualified and unqualified references and action parents."""
from gen import S

ENT = ['User', 'Group', 'Doc', 'Folder', 'T1', '_x']
ENUM = ['Color', 'Level']
COMMON = ['Ctx', 'Name', 'Rec']
ATTR = ['a', 'b', 'name', 'x y', '', 'in', 'é', 'a"b', 'if', 'k1']
ACT = ['view', 'edit', 'x y', '', 'a"b', 'Action', 'in']
STRS = ['', 'red', 'x y', 'é', 'a"b', '\\', 'line\nbreak']
ANN = ['doc', 'id', 'a1', '_k']
NSN = ['NS', 'A::B']


def annots(r, p=0.25):
    if r.random() > p:
        return ['annots']
    return ['annots'] + [[S(k), S(r.choice(STRS))] for k in sorted(r.sample(ANN, r.randrange(1, 3)))]


class Gen:
    def __init__(self, r):
        self.r = r
        self.nss = [''] if r.random() < 0.6 else []
        self.nss += r.sample(NSN, r.choice([0, 1, 1, 2]))
        if not self.nss:
            self.nss = ['']
        self.decl = {}
        for ns in self.nss:
            ents = r.sample(ENT, r.randrange(0, 4))
            enums = r.sample(ENUM, r.choice([0, 0, 1, 2]))
            commons = r.sample(COMMON, r.choice([0, 0, 1, 2]))
            self.decl[ns] = dict(ents=ents, enums=enums, commons=commons, acts=r.sample(ACT, r.randrange(0, 4)))

    def q(self, ns, n):
        return ns + '::' + n if ns else n

    def ent_ref(self, ns):
        """a reference to a declared entity / enum type, visible from ns"""
        r = self.r
        cands = []
        for m in self.nss:
            for n in self.decl[m]['ents'] + self.decl[m]['enums']:
                cands.append(self.q(m, n))
                if m == ns:
                    cands.append(n)
        if not cands or r.random() < 0.05:
            return r.choice(['Nope', 'NS::Nope', 'User'])
        return r.choice(cands)

    def common_ref(self, ns):
        r = self.r
        cands = []
        for m in self.nss:
            for n in self.decl[m]['commons']:
                cands.append(self.q(m, n))
                if m == ns:
                    cands.append(n)
        return r.choice(cands) if cands else None

    def ty(self, ns, d, allow_common=True):
        r = self.r
        k = r.random()
        if d <= 0 or k < 0.4:
            return r.choice([['string'], ['long'], ['bool'], ['ext', S(r.choice(['ipaddr', 'decimal', 'datetime', 'duration']))]])
        if k < 0.5:
            return ['ent', S(self.ent_ref(ns))]
        if k < 0.62:
            c = self.common_ref(ns) if allow_common and r.random() < 0.6 else None
            return ['ref', S(c if c else r.choice([self.ent_ref(ns), 'String', 'Long', 'Bool', 'ipaddr', '__cedar::String', '__cedar::Long']))]
        if k < 0.78:
            return ['set', self.ty(ns, d - 1, allow_common)]
        return self.rec(ns, d - 1, allow_common)

    def rec(self, ns, d, allow_common=True):
        r = self.r
        return ['rec'] + [[S(a), self.ty(ns, d, allow_common), '1' if r.random() < 0.3 else '0', annots(r, 0.15)]
                          for a in sorted(r.sample(ATTR, r.choice([0, 1, 2, 3])), key=lambda s: s.encode())]

    def ns(self, ns):
        r = self.r
        d = self.decl[ns]
        ents = []
        for n in sorted(d['ents']):
            parents = [S(self.ent_ref(ns)) for _ in range(r.choice([0, 0, 1, 2, 3]))]
            ents.append(['ent', S(n), annots(r), ['parents'] + parents,
                         ['shape', self.rec(ns, 2) if r.random() < 0.7 else 'none'],
                         ['tags', self.ty(ns, 1) if r.random() < 0.3 else 'none']])
        enums = [['enum', S(n), annots(r), ['values'] + [S(v) for v in r.sample(STRS, r.choice([0, 1, 2, 3]))]] for n in sorted(d['enums'])]
        # common types never mention common types (no cycles, no order dependence)
        commons = [['ct', S(n), annots(r), self.ty(ns, 2, allow_common=False)] for n in sorted(d['commons'])]
        acts = []
        names = sorted(d['acts'], key=lambda s: s.encode())
        for i, n in enumerate(names):
            parents = []
            for p in r.sample(names[:i], min(i, r.choice([0, 0, 1, 2]))):      # parents among earlier names: no cycles
                k = r.random()
                parents.append([S('' if k < 0.5 else self.q(ns, 'Action') if k < 0.8 else 'Action'), S(p)])
            ap = 'none'
            if r.random() < 0.75:
                cx = 'none'
                if r.random() < 0.6:
                    c = self.common_ref(ns)
                    cx = ['ref', S(c)] if c and r.random() < 0.3 else self.rec(ns, 2)
                ap = ['ap', ['principals'] + [S(self.ent_ref(ns)) for _ in range(r.choice([0, 1, 1, 2]))],
                      ['resources'] + [S(self.ent_ref(ns)) for _ in range(r.choice([0, 1, 1, 2]))], ['context', cx]]
            acts.append(['act', S(n), annots(r), ['parents'] + parents, ['applies', ap]])
        return ['ns', S(ns), annots(r) if ns else ['annots'], ['entities'] + ents, ['enums'] + enums, ['commons'] + commons, ['actions'] + acts]

    def schema(self):
        return ['xschema'] + [self.ns(n) for n in sorted(self.nss)]


def schema_ast(r):
    return Gen(r).schema()


# ---------------------------------------------------------------------------------------------------------------------------------
# "wild" ASTs for the PRINTER correspondence (kind stprint): everything ast.Schema can hold, well-formed or not.  The printer writes
# entity / common-type / namespace names, annotation keys and type names verbatim, quotes action and attribute names that are not
# identifiers (or are reserved words), and escapes string contents itself; so names here include reserved words, builtin-like names,
# the empty string, blanks, quotes, backslashes, control characters, NUL, DEL, non-ASCII and bytes that are not UTF-8.  The lists are
# NOT sorted and may repeat a key (the harness builds Go maps from them: the later entry wins).

W_IDENT = ['User', 'Group', 'A', 'a1', '_', '_x9', 'String', 'Long', 'Bool', 'Boolean', 'Set', 'Record', 'Entity', 'Extension', 'ipaddr',
           'decimal', 'datetime', 'duration', 'namespace', 'entity', 'action', 'type', 'enum', 'tags', 'appliesTo', 'attributes',
           'principal', 'resource', 'context', 'in', 'if', 'is', 'has', 'like', 'true', 'false', 'then', 'else', '__cedar',
           '__cedarx', 'X__cedar', 'Action']
W_ODD = ['', ' ', 'x y', 'a-b', '1a', 'a.b', 'a::b', '::', 'a:b', '"', 'a"b', '\\', 'a\\b', "'", '\\"', 'é', 'aé', '日本', '\U0001F600',
         '\n', 'a\nb', '\r', '\t', '\x00', 'a\x00b', '\x01', '\x1f', '\x7f', '\x80', '\u00a0', '\u2028', '\ufffd', '\ufeffa', '*', '\\u{41}',
         b'\xff', b'a\xffb', b'\xc3', b'\xe2\x82', b'\xed\xa0\x80', b'\xf4\x90\x80\x80', b'\xc0\xaf', b'\xf0\x9f\x98', b'\x80abc']
W_PATH = ['User', 'NS::User', 'A::B::C', '__cedar::String', '__cedar::Long', '__cedar::ipaddr', 'A::__cedar', 'String', 'Set', 'x y', '', 'é', b'\xff']
W_EXT = ['ipaddr', 'decimal', 'datetime', 'duration', 'foo', '', 'x y', '__cedar::ipaddr']
W_NS = ['', '', 'NS', 'A::B', 'a', '__cedar', 'A::__cedar', 'X__cedar', 'in', 'x y', 'é', 'String', b'\xff']


def _b(s):
    return s if isinstance(s, bytes) else s.encode('utf-8')


T_IDENT = ['User', 'Group', 'A', 'a1', '_', '_x9', 'String', 'Long', 'ipaddr', 'namespace', 'entity', 'action', 'type', 'enum', 'tags', 'appliesTo',
           'attributes', 'principal', 'resource', 'context', '__cedarx', 'X__cedar', 'Action', 'T', 'U']
T_COMMON = [n for n in T_IDENT if n not in ('String', 'Long')]
T_PATH = ['User', 'NS::User', 'A::B::C', '__cedar::String', '__cedar::Long', '__cedar::ipaddr', 'String', 'Long', 'Bool', 'ipaddr', 'enum', 'tags', 'T', '__cedar']
T_NS = ['', '', 'NS', 'A::B', 'a', 'X__cedar', 'String', 'namespace', 'entity::type', '__cedarx::y']


class Wild:
    """tame=True: declared names, annotation keys, namespace names and references are words the text syntax can spell (the printer writes
    them verbatim), applies-to lists are not empty; action / attribute names, enum values and annotation values stay arbitrary: the
    printed text must then parse back"""

    def __init__(self, r, tame=False):
        self.r = r
        self.tame = tame

    def name(self, p_odd=0.35):
        r = self.r
        return r.choice(W_ODD) if r.random() < p_odd else r.choice(W_IDENT)

    def decl(self, common=False):
        r = self.r
        if self.tame:
            return r.choice(T_COMMON if common else T_IDENT)
        return self.name(0.1)

    def path(self):
        return self.r.choice(T_PATH if self.tame else W_PATH)

    def annots(self, p=0.3):
        r = self.r
        if r.random() > p:
            return ['annots']
        return ['annots'] + [[S(r.choice(W_IDENT) if self.tame else self.name(0.15)), S(r.choice(['', '', 'v', self.name(0.7)]))] for _ in range(r.choice([1, 1, 2, 3]))]

    def ty(self, d):
        r = self.r
        k = r.random()
        if d <= 0 or k < 0.35:
            return r.choice([['string'], ['long'], ['bool'], ['ext', S(r.choice(W_EXT[:4] if self.tame else W_EXT))], ['ent', S(self.path())], ['ref', S(self.path())]])
        if k < 0.6:
            return ['set', self.ty(d - 1)]
        return self.rec(d - 1)

    def rec(self, d):
        r = self.r
        return ['rec'] + [[S(self.name()), self.ty(d), r.choice(['0', '0', '1']), self.annots(0.2)] for _ in range(r.choice([0, 0, 1, 2, 3, 4]))]

    def refs(self, nonempty=False):
        r = self.r
        return [S(self.path()) for _ in range(r.choice([1, 1, 2, 3] if nonempty else [0, 0, 1, 1, 2, 3]))]

    def ns(self, name):
        r = self.r
        ents = [['ent', S(self.decl()), self.annots(), ['parents'] + self.refs(),
                 ['shape', self.rec(r.choice([0, 1, 2, 3])) if r.random() < 0.6 else 'none'],
                 ['tags', self.ty(r.choice([0, 1, 2])) if r.random() < 0.35 else 'none']] for _ in range(r.choice([0, 0, 1, 2, 3]))]
        enums = [['enum', S(self.decl()), self.annots(), ['values'] + [S(self.name(0.6)) for _ in range(r.choice([0, 1, 2, 3]))]]
                 for _ in range(r.choice([0, 0, 0, 1, 2]))]
        if self.tame:      # an entity type and an enumerated type of one name cannot be written in one namespace
            taken = set(e[1] for e in ents)
            enums = [e for e in enums if e[1] not in taken]
        commons = [['ct', S(self.decl(True)), self.annots(), self.ty(r.choice([0, 1, 2, 3]))] for _ in range(r.choice([0, 0, 1, 2]))]
        acts = []
        for _ in range(r.choice([0, 0, 1, 2, 3])):
            parents = [[S(r.choice(['', '', 'Action', 'NS::Action', '__cedar::A'] if self.tame else ['', '', 'Action', 'NS::Action', 'x y', '__cedar'])), S(self.name(0.5))] for _ in range(r.choice([0, 0, 1, 2, 3]))]
            ap = 'none'
            if r.random() < 0.7:
                cx = 'none'
                if r.random() < 0.6:
                    cx = self.ty(r.choice([0, 1, 2])) if r.random() < 0.4 else self.rec(r.choice([0, 1, 2]))
                ap = ['ap', ['principals'] + self.refs(self.tame), ['resources'] + self.refs(self.tame), ['context', cx]]
            acts.append(['act', S(self.name(0.5)), self.annots(), ['parents'] + parents, ['applies', ap]])
        return ['ns', S(name), self.annots(0.4), ['entities'] + ents, ['enums'] + enums, ['commons'] + commons, ['actions'] + acts]

    def schema(self):
        r = self.r
        k = r.random()
        if k < 0.05:
            return ['xschema']
        if k < 0.12:
            # namespaces without declarations, with and without annotations
            return ['xschema'] + [['ns', S(n), self.annots(0.5), ['entities'], ['enums'], ['commons'], ['actions']] for n in r.sample(T_NS if self.tame else W_NS, r.choice([1, 2, 3]))]
        names = [r.choice(T_NS if self.tame else W_NS) for _ in range(r.choice([1, 1, 2, 3]))]
        return ['xschema'] + [self.ns(n) for n in names]


def wild_ast(r, tame=False):
    return Wild(r, tame).schema()
