"""Shared machinery of the checks: builds, running cases on the code and on the model,
proof-obligation bookkeeping, evidence, violations, known findings."""
import fcntl
import json
import os
import random
import re
import subprocess
import sys
import time

import sx

VERIF = os.path.dirname(os.path.dirname(os.path.abspath(__file__)))
REPO = '/repo'
COQ = os.path.join(VERIF, 'coq')
WORK = os.path.join(VERIF, 'work')
HARNESS = os.path.join(VERIF, 'harness', 'bin', 'harness')
DRIVER = os.path.join(VERIF, 'ocaml', '_build', 'driver')
NCPU = os.cpu_count() or 4

GOENV = dict(os.environ, GOFLAGS='-mod=mod', GOPROXY='off', GOSUMDB='off', GOTOOLCHAIN='local')

FORBIDDEN = re.compile(r'\b(Admitted|admit|Axiom|Axioms|Parameter|Parameters|Conjecture|Abort All)\b|'
                       r'Unset\s+Guard|bypass_check|Admit\s+Obligations|type-in-type|impredicative-set|'
                       r'Unset\s+Universe\s+Checking|Unset\s+Positivity')

TRUSTED_BASE = [
    'Coq 8.16.1 kernel (coqc); vm_compute used for table side-conditions and finite sweeps; native_compute not used',
    'no axioms: every property theorem is "Closed under the global context" (Print Assumptions, re-read on every run)',
    'the hand-written Gallina model of the Go code; tied to /repo by the correspondence runner (differential testing, not proof) and, '
    'for tables and int64 kernels, by the translator harness/translator (regenerated and re-proved on every run)',
    'extraction (ExtrOcamlBasic only: bool, option, unit, prod, list, sumbool, sumor; Z/positive/nat stay inductive), OCaml 4.13.1 + zarith for I/O',
    'Go harness, S-expression codecs, python orchestrator and canonicaliser',
    'Go standard library and runtime are modelled, not verified (encoding/json, strconv, time, net/netip, unicode/utf8, hash/fnv, maps)',
]


def log(*a):
    print(*a, flush=True)


def sh(cmd, cwd=None, timeout=3600, env=None):
    """run a command, return (rc, combined output)"""
    try:
        p = subprocess.run(cmd, cwd=cwd, env=env, stdout=subprocess.PIPE, stderr=subprocess.STDOUT,
                           timeout=timeout, shell=isinstance(cmd, str))
        return p.returncode, p.stdout.decode('utf-8', 'replace')
    except subprocess.TimeoutExpired as e:
        out = (e.stdout or b'').decode('utf-8', 'replace')
        return 124, out + '\n[timeout after %ss]' % timeout


class Lock:
    def __init__(self, name):
        os.makedirs(WORK, exist_ok=True)
        self.path = os.path.join(WORK, '.' + name + '.lock')

    def __enter__(self):
        self.f = open(self.path, 'w')
        fcntl.flock(self.f, fcntl.LOCK_EX)
        return self

    def __exit__(self, *a):
        fcntl.flock(self.f, fcntl.LOCK_UN)
        self.f.close()


# ---------------------------------------------------------------- builds

def newest_mtime(paths, exts):
    m = 0
    for p in paths:
        if os.path.isfile(p):
            m = max(m, os.path.getmtime(p))
            continue
        for root, _, files in os.walk(p):
            for f in files:
                if f.endswith(exts):
                    m = max(m, os.path.getmtime(os.path.join(root, f)))
    return m


def run_translator():
    """Regenerate coq/theories/Generated/*.v from /repo's current sources.  Returns (ok, message)."""
    tr = os.path.join(VERIF, 'harness', 'translator')
    if not os.path.isdir(tr):
        return True, 'no translator'
    rc, out = sh(['go', 'run', '.', REPO, os.path.join(COQ, 'theories', 'Generated')], cwd=tr, env=GOENV, timeout=300)
    return rc == 0, out


def build_coq():
    """translator + make.  Returns (ok, log, translator_ok, translator_log)."""
    with Lock('coq'):
        tok, tlog = run_translator()
        if not os.path.exists(os.path.join(COQ, 'Makefile')) or \
                os.path.getmtime(os.path.join(COQ, 'Makefile')) < os.path.getmtime(os.path.join(COQ, '_CoqProject')):
            sh(['coq_makefile', '-f', '_CoqProject', '-o', 'Makefile'], cwd=COQ)
        rc, out = sh(['make', '-j%d' % NCPU], cwd=COQ, timeout=3000)
        return rc == 0, out, tok, tlog


def build_model():
    with Lock('ocaml'):
        src = newest_mtime([os.path.join(COQ, 'theories'), os.path.join(VERIF, 'ocaml')], ('.v', '.ml', '.sh'))
        if os.path.exists(DRIVER) and os.path.getmtime(DRIVER) >= src:
            return True, 'up to date'
        rc, out = sh([os.path.join(VERIF, 'ocaml', 'build.sh')], timeout=1200)
        return rc == 0, out


def build_harness(race=False):
    with Lock('go'):
        env = dict(GOENV, VERIF_RACE='1') if race else GOENV
        rc, out = sh([os.path.join(VERIF, 'harness', 'build.sh')], env=env, timeout=1800)
        return rc == 0, out


HARNESS_RACE = os.path.join(VERIF, 'harness', 'bin', 'harness-race')


def scan_forbidden():
    hits = []
    for root, _, files in os.walk(os.path.join(COQ, 'theories')):
        for f in files:
            if not f.endswith('.v'):
                continue
            p = os.path.join(root, f)
            txt = open(p, encoding='utf-8').read()
            # comments may mention the words; strip (non-nested is enough for our style)
            txt2 = re.sub(r'\(\*.*?\*\)', '', txt, flags=re.S)
            for m in FORBIDDEN.finditer(txt2):
                hits.append('%s: %s' % (os.path.relpath(p, COQ), m.group(0)))
            # Variable / Hypothesis / Context are only legitimate inside a Section
            depth = 0
            for m in re.finditer(r'^\s*(Section|End|Module|Variables?|Hypothes[ie]s|Context)\b\s*([A-Za-z0-9_]*)', txt2, flags=re.M):
                w = m.group(1)
                if w == 'Section':
                    depth += 1
                elif w == 'End':
                    depth = max(0, depth - 1)
                elif w == 'Module':
                    depth += 1   # End Module balances it
                elif depth == 0:
                    hits.append('%s: %s outside a section' % (os.path.relpath(p, COQ), w))
    return hits


def property_obligations(prop):
    """Re-check theories/Properties/<prop>.v and read the Print Assumptions output.
    Returns list of dicts {name, closed, axioms} and the raw output."""
    path = os.path.join(COQ, 'theories', 'Properties', prop + '.v')
    if not os.path.exists(path):
        return [], 'missing ' + path
    src = open(path, encoding='utf-8').read()
    with Lock('coq'):
        rc, out = sh(['coqc', '-Q', 'theories', 'Cedar', '-w', '-notation-overridden',
                      os.path.join('theories', 'Properties', prop + '.v')], cwd=COQ, timeout=1200)
    names = re.findall(r'Print Assumptions\s+([A-Za-z0-9_\.\']+)\s*\.', src)
    obs = []
    if rc != 0:
        return [dict(name=n, closed=False, axioms=['<file does not compile>']) for n in (names or ['<file>'])], out
    # split output into one chunk per Print Assumptions
    chunks = re.split(r'(?=Closed under the global context|Axioms:)', out)
    chunks = [c for c in chunks if c.startswith('Closed under') or c.startswith('Axioms:')]
    for i, n in enumerate(names):
        if i < len(chunks) and chunks[i].startswith('Closed under'):
            obs.append(dict(name=n, closed=True, axioms=[]))
        elif i < len(chunks):
            ax = re.findall(r'^([A-Za-z0-9_\.\']+)\s*:', chunks[i][len('Axioms:'):], flags=re.M)
            obs.append(dict(name=n, closed=False, axioms=ax))
        else:
            obs.append(dict(name=n, closed=False, axioms=['<no output>']))
    return obs, out


# ---------------------------------------------------------------- running cases

def write_cases(path, cases):
    with open(path, 'w') as f:
        for c in cases:
            f.write(c if isinstance(c, str) else sx.dump(c))
            f.write('\n')


def _read_results(path, res):
    if not os.path.exists(path):
        return
    with open(path, errors='replace') as f:
        for line in f:
            line = line.rstrip('\n')
            if not line:
                continue
            i = line.find(' ')
            if i < 0:
                continue
            res[line[:i]] = line[i + 1:]


def _run_go_shard(cases_path, out_path, timeout_ms, total_timeout, binary=None):
    """Run one shard, restarting after a crash/timeout of the process."""
    res = {}
    if os.path.exists(out_path):
        os.remove(out_path)
    ids = []
    with open(cases_path) as f:
        for line in f:
            if line.startswith('(case '):
                ids.append(line.split(' ', 3)[1])
    skip = 0
    env = dict(GOENV, HARNESS_CASE_TIMEOUT_MS=str(timeout_ms), GORACE='halt_on_error=1 exitcode=66')
    t0 = time.time()
    crashes = 0
    while skip < len(ids):
        try:
            p = subprocess.run([binary or HARNESS, 'run', cases_path, out_path, str(skip)], env=env,
                               stdout=subprocess.PIPE, stderr=subprocess.PIPE,
                               timeout=max(10, total_timeout - (time.time() - t0)))
            rc, err = p.returncode, p.stderr.decode('utf-8', 'replace')
        except subprocess.TimeoutExpired:
            rc, err = 124, 'shard timeout'
        res.clear()
        _read_results(out_path, res)
        done = 0
        while done < len(ids) and ids[done] in res:
            done += 1
        if rc == 0 and done >= len(ids):
            break
        if done >= len(ids):
            break
        # the process died (fatal error) or stopped after a timeout: attribute to the case in flight
        crashed = ids[done]
        if crashed not in res:
            kind = 'crash'
            tail = err[-400:].replace('\n', ' | ')
            if 'DATA RACE' in err:
                kind = 'data-race'
                tail = err[:1500].replace('\n', ' | ')
            elif 'stack overflow' in err or 'goroutine stack exceeds' in err:
                kind = 'stack-overflow'
            elif rc == 124:
                kind = 'hang'
            with open(out_path, 'a') as f:
                f.write('%s (%s %s)\n' % (crashed, kind, sx.S(tail)))
            res[crashed] = '(%s %s)' % (kind, sx.S(tail))
        skip = done + 1
        crashes += 1
        if crashes > 200 or time.time() - t0 > total_timeout:
            break
    return res


def run_go(cases, name, workdir, shards=None, timeout_ms=10000, total_timeout=3000, binary=None):
    """cases: list of case strings.  Returns dict id -> result string."""
    from concurrent.futures import ThreadPoolExecutor
    os.makedirs(workdir, exist_ok=True)
    if shards is None:
        shards = 1 if len(cases) < 400 else min(NCPU, max(1, len(cases) // 200))
    parts = [cases[i::shards] for i in range(shards)]
    jobs = []
    for i, part in enumerate(parts):
        cp = os.path.join(workdir, '%s.go.%d.cases' % (name, i))
        op = os.path.join(workdir, '%s.go.%d.out' % (name, i))
        write_cases(cp, part)
        jobs.append((cp, op))
    res = {}
    with ThreadPoolExecutor(max_workers=shards) as ex:
        for r in ex.map(lambda j: _run_go_shard(j[0], j[1], timeout_ms, total_timeout, binary), jobs):
            res.update(r)
    return res


def run_model(cases, name, workdir, shards=None, total_timeout=3000):
    from concurrent.futures import ThreadPoolExecutor
    os.makedirs(workdir, exist_ok=True)
    if shards is None:
        shards = 1 if len(cases) < 400 else min(NCPU, max(1, len(cases) // 200))
    parts = [cases[i::shards] for i in range(shards)]
    jobs = []
    for i, part in enumerate(parts):
        cp = os.path.join(workdir, '%s.model.%d.cases' % (name, i))
        op = os.path.join(workdir, '%s.model.%d.out' % (name, i))
        write_cases(cp, part)
        jobs.append((cp, op))

    def one(j):
        cp, op = j
        if os.path.exists(op):
            os.remove(op)
        rc, out = sh('ulimit -s unlimited 2>/dev/null; exec %s %s %s' % (DRIVER, cp, op), timeout=total_timeout)
        r = {}
        _read_results(op, r)
        return r

    res = {}
    with ThreadPoolExecutor(max_workers=shards) as ex:
        for r in ex.map(one, jobs):
            res.update(r)
    return res


def case_id(case):
    return case.split(' ', 3)[1]


def canon_str(s):
    try:
        return sx.dump(sx.canon(sx.parse(s)))
    except Exception:
        return s


# ---------------------------------------------------------------- context

class Ctx:
    def __init__(self, prop, tier, seed):
        self.prop = prop
        self.tier = tier
        self.seed = seed
        self.rng = random.Random(seed)
        self.workdir = os.path.join(WORK, prop)
        os.makedirs(self.workdir, exist_ok=True)
        self.t0 = time.time()
        self.violations = []       # list of (what, replay_path, found_input)
        self.known_hits = []       # list of strings
        self.obligations = []      # list of dict(name, kind, ok, detail)
        self.evaluations = 0
        self.nontrivial = set()
        self.samples = []
        self.rule = ''
        self.extra = {}
        self.assumptions = []
        self.exhaustive = None
        self.level = 'proof'
        self.findings = load_findings()
        self._nviol = 0

    # ---- obligations
    def oblige(self, name, kind, ok, detail=''):
        self.obligations.append(dict(name=name, kind=kind, ok=bool(ok), detail=detail))
        return ok

    def broken_obligations(self):
        return [o for o in self.obligations if not o['ok']]

    # ---- coverage
    def count(self, case_key, nontrivial):
        self.evaluations += 1
        if nontrivial:
            self.nontrivial.add(case_key)

    def sample(self, x, limit=6):
        if len(self.samples) < limit:
            self.samples.append(x)

    # ---- violations and findings
    def violation(self, what, replay, found_input=True):
        self._nviol += 1
        d = os.path.join(WORK, 'replays', self.prop)
        os.makedirs(d, exist_ok=True)
        path = os.path.join(d, 'v%d_%d.json' % (self.seed, self._nviol))
        obj = dict(property=self.prop, what=what, found_input=found_input)
        obj.update(replay)
        with open(path, 'w') as f:
            json.dump(obj, f, indent=1)
        self.violations.append((what, path, found_input))
        if self._nviol <= 20:
            log('VIOLATION property=%s replay=%s%s' % (self.prop, path, '' if found_input else ' no-failing-input-found'))
            log('  ' + what[:600])
        return path

    def known(self, finding_id, what):
        # only a finding that known_findings.json lists as `known` for this property is reported as such; anything else that matches a
        # finding's signature (a finding recorded as fixed, or never recorded) is a violation like any other
        if not any(f['id'] == finding_id and f['property'] == self.prop and f['status'] == 'known' for f in self.findings):
            self.violation('the signature of finding %s was met, but known_findings.json does not list it as a known finding of %s (a repaired defect has returned?): %s'
                           % (finding_id, self.prop, what), dict(kind='finding', id=finding_id, what=what))
            return
        msg = 'KNOWN-FINDING: property=%s %s: %s' % (self.prop, finding_id, what)
        if msg not in self.known_hits:
            self.known_hits.append(msg)
            log(msg)

    def known_findings(self, status='known'):
        return [f for f in self.findings if f['property'] == self.prop and f['status'] == status]

    # ---- finishing
    def finish(self):
        wall = time.time() - self.t0
        nob = len(self.obligations)
        ndis = len([o for o in self.obligations if o['ok']])
        cov = dict(
            obligations=nob, discharged=ndis,
            checker_cmd='make -C coq (coq_makefile, full .vo) && coqc theories/Properties/%s.v (Print Assumptions) ; '
                        'python3 py/check.py %s --tier %s' % (self.prop, self.prop, self.tier),
            trusted_base=TRUSTED_BASE,
            evaluations=max(self.evaluations, 0),
            distinct_nontrivial=len(self.nontrivial),
            rule=self.rule,
            samples=self.samples if self.samples else ['<no cases run>'],
            obligation_list=self.obligations,
            known_findings_reported=self.known_hits,
        )
        if self.exhaustive is not None:
            cov['exhaustive'] = self.exhaustive
        cov.update(self.extra)
        ev = dict(property_id=self.prop, tier=self.tier, seed=self.seed, level=self.level, coverage=cov,
                  assumptions=self.assumptions, wall_s=round(wall, 2), violations=len(self.violations))
        os.makedirs(os.path.join(VERIF, 'evidence'), exist_ok=True)
        with open(os.path.join(VERIF, 'evidence', self.prop + '.json'), 'w') as f:
            json.dump(ev, f, indent=1)
        log('%s %s: %d obligations (%d discharged), %d cases (%d distinct non-trivial), %d violations, %d known findings, %.1fs'
            % (self.prop, self.tier, nob, ndis, self.evaluations, len(self.nontrivial), len(self.violations),
               len(self.known_hits), wall))
        return 1 if self.violations else 0


def load_findings():
    p = os.path.join(VERIF, 'known_findings.json')
    if not os.path.exists(p):
        return []
    return json.load(open(p))['findings']


# ---------------------------------------------------------------- standard phases

def standard_build(ctx, need_model=True, need_harness=True, theorems=True):
    """Build everything for a check; records build obligations.  Returns dict of booleans."""
    ok_coq, coq_log, tok, tlog = build_coq()
    ctx.oblige('translator: Generated/*.v regenerated from /repo', 'translator', tok, '' if tok else tlog[-1500:])
    ctx.oblige('coq: make (all theories, full .vo)', 'build', ok_coq, '' if ok_coq else coq_log[-3000:])
    hits = scan_forbidden()
    ctx.oblige('coq: no Admitted/admit/Axiom/Parameter/Conjecture/guard switches in theories/', 'hygiene', not hits, '; '.join(hits[:10]))
    res = dict(coq=ok_coq, translator=tok, coq_log=coq_log)
    if not theorems:
        ctx.level = 'exploration'
    if ok_coq and theorems:
        obs, raw = property_obligations(ctx.prop)
        if not obs:
            ctx.oblige('Properties/%s.v present' % ctx.prop, 'theorem', False, raw[-500:])
        for o in obs:
            ctx.oblige('theorem %s (Print Assumptions: %s)' % (o['name'], 'closed' if o['closed'] else ','.join(o['axioms'])),
                       'theorem', o['closed'], '' if o['closed'] else raw[-1500:])
    if need_model:
        if ok_coq:
            okm, mlog = build_model()
        else:
            okm, mlog = os.path.exists(DRIVER), 'coq build failed; using the last built model driver'
        ctx.oblige('model: extraction + OCaml driver build', 'build', okm, '' if okm else mlog[-2000:])
        res['model'] = okm
    if need_harness:
        okh, hlog = build_harness()
        if not okh:
            # the repository (or the harness against it) does not compile: nothing can be checked
            log('harness build failed:\n' + hlog[-3000:])
        ctx.oblige('go: harness builds against /repo working tree (-tags verif)', 'build', okh, '' if okh else hlog[-2000:])
        res['harness'] = okh
    return res


def differential(ctx, cases, name, classify=None, nontrivial=None, project=None, shards=None,
                 describe='Go implementation and Coq model disagree', timeout_ms=10000):
    """Run cases on code and model, compare canonical results.
    classify(case, go, model) -> finding id or None ; nontrivial(case, go) -> bool.
    Returns (go_results, model_results, mismatches)."""
    go = run_go(cases, name, ctx.workdir, shards=shards, timeout_ms=timeout_ms)
    mo = run_model(cases, name, ctx.workdir, shards=shards)
    mism = []
    for c in cases:
        cid = case_id(c)
        g = go.get(cid, '(missing)')
        m = mo.get(cid, '(missing)')
        gp = project(g) if project else canon_str(g)
        mp = project(m) if project else canon_str(m)
        ctx.count(c.split(' ', 2)[2] if c.count(' ') >= 2 else c, nontrivial(c, g) if nontrivial else True)
        if gp != mp:
            fid = classify(c, g, m) if classify else None
            if fid:
                ctx.known(fid[0], fid[1])
            else:
                mism.append((c, g, m))
    for (c, g, m) in mism[:20]:
        ctx.violation('%s: go=%s model=%s' % (describe, g[:300], m[:300]),
                      dict(kind='case', case=c, go=g, model=m))
    if len(mism) > 20:
        log('  ... %d further mismatches suppressed' % (len(mism) - 20))
        ctx._nviol += len(mism) - 20
    return go, mo, mism


def replay_case(prop, path):
    obj = json.load(open(path))
    log(json.dumps({k: v for k, v in obj.items() if k != 'case'}, indent=1)[:3000])
    if obj.get('kind') == 'case' or 'case' in obj:
        wd = os.path.join(WORK, prop)
        build_harness()
        build_model()
        c = obj['case']
        g = run_go([c], 'replay', wd)
        m = run_model([c], 'replay', wd)
        log('case : ' + c[:2000])
        log('go   : ' + str(list(g.values())))
        log('model: ' + str(list(m.values())))
        return 0 if [canon_str(x) for x in g.values()] == [canon_str(x) for x in m.values()] else 1
    return 0


def require_builds(ctx, b):
    if not (b.get('harness') and b.get('model', True)):
        ctx.violation('build failed: ' + '; '.join(o['name'] for o in ctx.broken_obligations()),
                      dict(kind='build', obligations=ctx.broken_obligations()), found_input=False)
        return False
    return True


def epilogue(ctx):
    """A proof obligation that no longer checks is a violation even when no failing input was found."""
    broken = [o for o in ctx.broken_obligations() if o['kind'] in ('theorem', 'build', 'hygiene', 'translator')]
    if broken and not ctx.violations:
        ctx.violation('proof obligations no longer check: ' + '; '.join(o['name'] for o in broken),
                      dict(kind='obligations', obligations=broken), found_input=False)


# ---------------------------------------------------------------- known-finding signatures shared by several checks
import re as _re

_IP6 = _re.compile(r'\(ip 6 (\d+) (\d+)\)')
_DT = _re.compile(r'\(dt (-?\d+)\)')


def has_4in6(text):
    """F30: an IPv4-mapped IPv6 address occurs in the case"""
    for m in _IP6.finditer(text):
        a = int(m.group(1))
        if 0xffff00000000 <= a <= 0xffffffffffff:
            return True
    return False


def has_first_day_datetime(text):
    """F27: a datetime in the first 86 400 000 ms of the int64 range occurs in the case"""
    for m in _DT.finditer(text):
        if int(m.group(1)) < -2 ** 63 + 86400000:
            return True
    return False
