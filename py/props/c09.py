"""C09 — the JSON policy codec round-trips and agrees with the text codec.
Direct oracle on the Go code: decode(encode p) has the identical AST (decimal/ip literals as calls, annotations and record entries
by key); second encoding identical; policy-set ids preserved; text->JSON->text and JSON->text->JSON give what one format alone
gives; all encodings evaluate identically."""
import lib
import props.codec_common as cc


def run(ctx):
    ctx.rule = ('same policy population as C08 (every operator pairing, literal kinds incl. extension values, patterns with wildcards and escapes, '
                'records, is..in, every scope form, annotations) + policy sets with awkward ids; compared through the JSON codec and across the two '
                'codecs. non-trivial = the policy rendered and the full round trip was checked')
    res = cc.run_codec(ctx, want_text=False)
    if res is None:
        return
    bad, n = res
    ctx.oblige('direct oracle: JSON round trip (identical AST, stable bytes, ids, commutation with text, same meaning) on %d cases' % n, 'oracle', bad == 0)
    lib.epilogue(ctx)
