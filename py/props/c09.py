"""C09 — the JSON policy codec round-trips and agrees with the text codec.
Direct oracle on the Go code: decode(encode p) has the identical AST (decimal/ip literals as calls, annotations and record entries
by key); second encoding identical; policy-set ids preserved; text->JSON->text and JSON->text->JSON give what one format alone
gives; all encodings evaluate identically."""
import lib
import props.codec_common as cc


def run(ctx):
    ctx.rule = ('same policy population as C08 (every operator pairing, literal kinds incl. extension values, patterns with wildcards and escapes, '
                'records, is..in, every scope form, annotations) + policy sets with awkward ids; compared through the JSON codec and across the two '
                'codecs. non-trivial = the policy rendered and the full round trip was checked')
    res = cc.run_codec(ctx, want_text=False)
    if res is None:
        return
    bad, n = res
    import sx, gen
    from gen import case, S
    import props.c13 as c13
    g, pols = cc.gen_policies(ctx, 800 if ctx.tier == 'quick' else 30000)
    pols = [p for p in pols if not lib.has_4in6(sx.dump(p))]
    enc_cases = [case('e%d' % i, 'pjsonenc', p) for i, p in enumerate(pols)]
    go_e, mo_e, m1 = lib.differential(ctx, enc_cases, 'pjsonenc', project=c13.proj_tree,
                                      describe='Policy.MarshalJSON: Go and the Coq model (Impl/PolicyJson.v enc_policy) produce different JSON trees')
    ctx.oblige('correspondence: Policy.MarshalJSON = PolicyJson.enc_policy as JSON trees on %d policies' % len(enc_cases), 'correspondence', not m1)
    # decoding: the encoder's own trees, and structure-aware mutants of them (member deletion / null / duplication / wrong kind / reordering /
    # extra typed keys / junk keys), Go verdict and tree = model
    r = ctx.rng
    trees = []
    for c in enc_cases:
        res_ = go_e.get(lib.case_id(c), '')
        if res_.startswith('(tree '):
            trees.append(sx.parse(res_)[1])
    JUNK = [['null'], ['num', '1'], ['str', S('x')], ['arr'], ['obj'], ['bool', '1'], ['obj', [S('Value'), ['num', '1']]], ['arr', ['obj', [S('Var'), ['str', S('principal')]]]]]

    def nodes(t, path=()):
        yield path, t
        if not isinstance(t, str) and t and t[0] == 'arr':
            for i, x in enumerate(t[1:]):
                yield from nodes(x, path + (i + 1,))
        elif not isinstance(t, str) and t and t[0] == 'obj':
            for i, kv in enumerate(t[1:]):
                yield from nodes(kv[1], path + (i + 1, 1))

    def replace(t, path, f):
        if not path:
            return f(t)
        t = list(t)
        t[path[0]] = replace(t[path[0]], path[1:], f)
        return t

    def mutate(t):
        ns = list(nodes(t))
        path, sub = r.choice(ns)
        k = r.randrange(8)
        if k == 0: return replace(t, path, lambda x: r.choice(JUNK))
        objs = [(p_, x) for p_, x in ns if not isinstance(x, str) and x and x[0] == 'obj' and len(x) > 1]
        if not objs: return replace(t, path, lambda x: ['null'])
        p_, o = r.choice(objs)
        i = r.randrange(1, len(o))
        if k == 1: return replace(t, p_, lambda x: x[:i] + x[i + 1:])                                   # delete a member
        if k == 2: return replace(t, p_, lambda x: x[:i] + [[x[i][0], ['null']]] + x[i + 1:])             # null member
        if k == 3: return replace(t, p_, lambda x: x + [[x[i][0], r.choice(JUNK)]])                       # duplicate key, last wins
        if k == 4: return replace(t, p_, lambda x: [x[0]] + r.sample(x[1:], len(x) - 1))                  # reorder members
        if k == 5: return replace(t, p_, lambda x: x + [[S(r.choice(['zz', 'Value', 'Var', 'Set', '==', 'decimal', 'isIpv4', 'left', 'op', 'entity'])), r.choice(JUNK)]])
        if k == 6: return replace(t, p_, lambda x: x[:i] + [[S(r.choice(['decimal', 'ip', 'isInRange', 'nosuch', 'contains', 'Record'])), x[i][1]]] + x[i + 1:])
        return replace(t, path, lambda x: ['arr', x])
    dec_trees = list(trees)
    # like patterns as OTHER producers may write them: repeated wildcards, split / empty literals, in every position
    W = ['str', S('Wildcard')]
    lit_ = lambda x: ['obj', [S('Literal'), ['str', S(x)]]]
    PATS = [[W, W, lit_('foo')], [W, W], [W, W, W, lit_('a'), W, W], [lit_('a'), lit_('b')], [lit_(''), W, lit_('x')], [W, lit_(''), W, lit_('x')], [lit_('')], [W], [lit_('a'), W, W, lit_('b')],
            [lit_('*'), W], [W, lit_(''), lit_('')], [lit_(''), lit_(''), W, W, lit_('')]]
    for pat in PATS:
        for subj in ('bar', '', 'foox', 'foo', 'axb', 'ab', 'x', '*'):
            body = ['obj', [S('like'), ['obj', [S('left'), ['obj', [S('Value'), ['str', S(subj)]]]], [S('pattern'), ['arr'] + pat]]]]
            dec_trees.append(['obj', [S('effect'), ['str', S('permit')]], [S('principal'), ['obj', [S('op'), ['str', S('All')]]]], [S('action'), ['obj', [S('op'), ['str', S('All')]]]],
                              [S('resource'), ['obj', [S('op'), ['str', S('All')]]]], [S('conditions'), ['arr', ['obj', [S('kind'), ['str', S('when')]], [S('body'), body]]]]])
    for t in trees:
        for _ in range(2 if ctx.tier == 'quick' else 6):
            dec_trees.append(mutate(t))
    dec_cases = [case('d%d' % i, 'pjsondec', t) for i, t in enumerate(dec_trees)]

    def proj_dec(res_):
        return lib.canon_str(res_)
    go_d = lib.run_go(dec_cases, 'pjsondec', ctx.workdir)
    mo_d = lib.run_model(dec_cases, 'pjsondec', ctx.workdir)
    mism, unk, acc = 0, 0, 0
    for c in dec_cases:
        cid = lib.case_id(c)
        g_, m_ = proj_dec(go_d.get(cid, '(missing)')), proj_dec(mo_d.get(cid, '(missing)'))
        ctx.count(c[:3000], g_.startswith('(ok'))
        if m_ == '(unmodelled)':
            unk += 1
            continue
        acc += g_.startswith('(ok')
        if g_ != m_:
            mism += 1
            if mism <= 6:
                ctx.violation('Policy.UnmarshalJSON: Go and the Coq model (Impl/PolicyJson.v dec_policy) disagree: go=%s model=%s' % (g_[:300], m_[:300]),
                              dict(kind='case', case=c, go=g_, model=m_))
    ctx.extra['pjsondec'] = dict(cases=len(dec_cases), accepted=acc, unmodelled=unk)
    ctx.oblige('correspondence: Policy.UnmarshalJSON = PolicyJson.dec_policy on %d JSON trees (encoder outputs and structural mutants; %d outside the modelled domain)'
               % (len(dec_cases), unk), 'correspondence', mism == 0)
    # policy sets: {"staticPolicies": {id: policy}} - ids (incl. awkward ones) are the keys
    IDS = ['p', 'policy0', 'policy10', '', 'a b', 'é', '"q"', 'staticPolicies', 'x/y', 'P']
    sets = []
    for i in range(150 if ctx.tier == 'quick' else 5000):
        ids = r.sample(IDS, r.randrange(0, 5))
        chosen = [r.choice(pols) for _ in ids]
        sets.append(['policies'] + [[c_[0], S(i_)] + c_[2:] for i_, c_ in zip(ids, chosen)])
    ps_enc = [case('se%d' % i, 'psjsonenc', st) for i, st in enumerate(sets)]
    go_pe, mo_pe, m3 = lib.differential(ctx, ps_enc, 'psjsonenc', project=c13.proj_tree,
                                        describe='PolicySet.MarshalJSON: Go and the Coq model (Impl/PolicyJson.v enc_policy_set) produce different JSON trees')
    ctx.oblige('correspondence: PolicySet.MarshalJSON = PolicyJson.enc_policy_set as JSON trees on %d policy sets' % len(ps_enc), 'correspondence', not m3)
    ps_trees = []
    for c in ps_enc:
        res_ = go_pe.get(lib.case_id(c), '')
        if res_.startswith('(tree '):
            t = sx.parse(res_)[1]
            ps_trees.append(t)
            for _ in range(2):
                ps_trees.append(mutate(t))
    ps_trees += [['null'], ['obj'], ['obj', [S('staticPolicies'), ['null']]], ['obj', [S('staticPolicies'), ['obj', [S('a'), ['null']]]]], ['obj', [S('staticPolicies'), ['arr']]],
                 ['obj', [S('templates'), ['obj']], [S('staticPolicies'), ['obj']]], ['arr']]
    ps_dec = [case('sd%d' % i, 'psjsondec', t) for i, t in enumerate(ps_trees)]
    go_pd = lib.run_go(ps_dec, 'psjsondec', ctx.workdir)
    mo_pd = lib.run_model(ps_dec, 'psjsondec', ctx.workdir)
    m4 = unk4 = 0
    for c in ps_dec:
        cid = lib.case_id(c)
        g_, m_ = proj_dec(go_pd.get(cid, '(missing)')), proj_dec(mo_pd.get(cid, '(missing)'))
        if m_ == '(unmodelled)':
            unk4 += 1
            continue
        if g_ != m_:
            m4 += 1
            if m4 <= 6:
                ctx.violation('PolicySet.UnmarshalJSON: Go and the Coq model (Impl/PolicyJson.v dec_policy_set) disagree: go=%s model=%s' % (g_[:300], m_[:300]),
                              dict(kind='case', case=c, go=g_, model=m_))
    ctx.oblige('correspondence: PolicySet.UnmarshalJSON = PolicyJson.dec_policy_set on %d JSON trees (%d outside the modelled domain)' % (len(ps_dec), unk4), 'correspondence', m4 == 0)
    ctx.oblige('direct oracle: JSON round trip (identical AST, stable bytes, ids, commutation with text, same meaning) on %d cases' % n, 'oracle', bad == 0)
    lib.epilogue(ctx)
