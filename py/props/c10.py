"""C10 — decoders and encoders are total: no panic, crash or hang on any input; accepted values can be passed to every
encoder and to the authorizer.  Theorems: Properties/C10.v (the JSON-tree decoders of the models return a value or an error
on every tree; parser fuel bound).  The crash half is runtime behaviour: structure-aware mutation of valid documents of every
decoder + raw byte noise + deep nesting, each case in a recover()-guarded goroutine with a timeout inside a child process."""
import json

import lib
import gen
import sx
from gen import S, case

SCHEMA_TEXT = '''namespace NS { type T = { a: Long, b?: Set<String> };
entity Group; entity User in [Group] { name: String, age?: Long, t: T, ip: ipaddr } tags String;
entity Doc enum ["a", "b"];
action "view", edit in [all] appliesTo { principal: [User], resource: [Doc, User], context: { flag: Bool, r: { x: Long } } };
action all; }
@doc("x") entity Top in [NS::Group] = { "weird key": NS::T };
'''
SCHEMA_JSON = json.dumps({"NS": {"commonTypes": {"T": {"type": "Record", "attributes": {"a": {"type": "Long"}, "b": {"type": "Set", "element": {"type": "String"}, "required": False}}}},
                                 "entityTypes": {"Group": {}, "User": {"memberOfTypes": ["Group"], "shape": {"type": "Record", "attributes": {"name": {"type": "String"}, "t": {"type": "T"}, "ip": {"type": "Extension", "name": "ipaddr"}, "f": {"type": "Entity", "name": "Group"}}}, "tags": {"type": "String"}},
                                                 "Doc": {"enum": ["a", "b"]}},
                                 "actions": {"view": {"appliesTo": {"principalTypes": ["User"], "resourceTypes": ["Doc"], "context": {"type": "Record", "attributes": {}}}, "memberOf": [{"id": "all"}]},
                                             "all": {}}}})
POLICY_TEXTS = [
    '@id("a")\n@b("x y")\npermit (principal == User::"alice", action in [Action::"view", Action::"edit"], resource is Doc in Folder::"f")\nwhen { principal.name like "al*\\*" && context has "weird key" && [1, -2].contains(3) }\nunless { if true then {a: 1, "b c": ip("1.2.3.4")}.a > 0 else decimal("1.5").lessThan(decimal("2.0")) };',
    'forbid(principal is NS::User, action, resource) when { resource.tags.hasTag("k") && resource.getTag("k") == "v" || !(1 + 2 * -3 - 4 == 0) };',
    'permit(principal, action == Action::"a", resource in Folder::"x") when { principal in [User::"a", User::"b"] && "\\u{1F600}\\n\\t\\\\\\"" != "" };',
    'permit(principal,action,resource) when { datetime("2024-01-01T00:00:00Z").offset(duration("1d2h")).toDate() < datetime("2024-02-01") };',
    'permit(principal,action,resource) when { context.a.b.c["d"].e has f.g.h };',
    'permit(principal,action,resource) when { -decimal("1.0") == -duration("1h").toHours() || - -ip("1.1.1.1").isLoopback() || -(datetime("2024-01-01")) < 1 };',
]


def mutate_bytes(r, b, k):
    b = bytearray(b)
    for _ in range(k):
        op = r.randrange(6)
        if op == 0 and b:
            del b[r.randrange(len(b))]
        elif op == 1:
            b.insert(r.randrange(len(b) + 1), r.choice(b'(){}[]",:;@\\*!-+.<>=&|0129aeiftn \n\x00\xff\xc3\xe2'))
        elif op == 2 and b:
            b[r.randrange(len(b))] = r.randrange(256)
        elif op == 3 and b:
            i = r.randrange(len(b)); j = min(len(b), i + r.randrange(1, 20))
            b[i:i] = b[i:j]
        elif op == 4 and b:
            del b[r.randrange(len(b)):]
        elif b:
            i = r.randrange(len(b)); j = min(len(b), i + r.randrange(1, 10))
            del b[i:j]
    return bytes(b)


REPL = [None, [], {}, "", 0, 1, -1, True, False, "x", [None], {"": None}, [[]], 1.5, 1e30, {"type": None}, {"__extn": None}, {"__entity": {}}, {"fn": 1}]


def mutate_json(r, tree):
    """replace / delete / duplicate one random position"""
    paths = []

    def walk(t, path):
        paths.append(path)
        if isinstance(t, dict):
            for k in t:
                walk(t[k], path + [k])
        elif isinstance(t, list):
            for i, x in enumerate(t):
                walk(x, path + [i])
    walk(tree, [])
    tree = json.loads(json.dumps(tree))
    path = r.choice(paths)
    if not path:
        return r.choice(REPL)
    t = tree
    for p in path[:-1]:
        t = t[p]
    last = path[-1]
    op = r.randrange(4)
    if op == 0:
        t[last] = r.choice(REPL)
    elif op == 1:
        if isinstance(t, dict):
            del t[last]
        else:
            del t[last]
    elif op == 2:
        if isinstance(t, list):
            t.append(t[last])
        else:
            t[r.choice(['type', 'id', 'fn', 'arg', '__extn', 'Value', 'left', 'right', 'args', 'x'])] = t[last]
    else:
        t[last] = [t[last]]
    return tree


def run(ctx):
    b = lib.standard_build(ctx)   # Properties/C10.v: termination of the modelled decoders (the model half); the runtime half is explored below
    if not lib.require_builds(ctx, b):
        return
    r = ctx.rng
    g = gen.Gen(r)
    quick = ctx.tier == 'quick'
    # 1. seeds rendered by the code itself
    seeds = []
    for i in range(60 if quick else 400):
        seeds.append(case('p%d' % i, 'render', g.policy('p', depth=r.choice([1, 2, 3, 4]))))
    for i in range(40 if quick else 300):
        seeds.append(case('v%d' % i, 'render', g.value(3)))
    for i in range(20 if quick else 100):
        seeds.append(case('s%d' % i, 'render', g.store()))
    rendered = lib.run_go(seeds, 'seeds', ctx.workdir)
    ptext, pjson, vjson, vtext, ejson = list(POLICY_TEXTS), [], [], [], []
    for c in seeds:
        res = rendered.get(lib.case_id(c), '')
        if not res.startswith('(('):
            continue
        d = {x[0]: sx.unS(x[1]) for x in sx.parse(res)}
        cid = lib.case_id(c)
        if cid.startswith('p'):
            ptext.append(d['cedar'].decode('utf-8', 'replace')); pjson.append(d['json'])
        elif cid.startswith('v'):
            vtext.append(d['cedar']); vjson.append(d['json'])
        else:
            ejson.append(d['json'])
    cases = []
    n = 0

    def add(which, data):
        nonlocal n
        n += 1
        if isinstance(data, str):
            data = data.encode('utf-8', 'surrogatepass')
        cases.append('(case d%d decode %s x%s)' % (n, which, data.hex()))

    # every prefix of texts that use every lexical construct (comments of both kinds, strings with escapes, long operators): an input may
    # end anywhere - inside a comment, an escape, a multi-byte character, an operator
    LEXY_POLICY = '@a("x\\n\\u{e9}") /* c * / */ permit ( principal == A::B::"é\\"", action in [Action::"a"], resource ) // é\nwhen { 1 <= 2 && !(context.a has b) || "\\x41*" like "a\\**" };'
    LEXY_SCHEMA = '// é\nnamespace A::B { /* c ** / */ @d("x\\"") entity E in [F] = { "k\\n": Set<__cedar::Long>, o?: T } tags String; entity F enum ["a"]; type T = { a: Long }; action "v" in [w] appliesTo { principal: [E], resource: [F], context: T }; action w; } /* end **/'
    for i in range(1, len(LEXY_POLICY.encode()) + 1):
        add('policy-text', LEXY_POLICY.encode()[:i])
        add('stream', LEXY_POLICY.encode()[:i])
    for i in range(1, len(LEXY_SCHEMA.encode()) + 1):
        add('schema-text', LEXY_SCHEMA.encode()[:i])
    for tail in ('/*', '/**', '/* *', '/* x *', '//', '/', '"', '"\\', '"\\u', '"\\u{', '"\\u{e', '"\\x', '"\\x4', '@', '@a(', ':', '::', '<', '=', '!', '&', '|', '-', '\xc3', '\xe6\x97', '\xf0\x9f\x98'):
        for base, which in ((LEXY_POLICY, 'policy-text'), (LEXY_SCHEMA, 'schema-text'), ('', 'policy-text'), ('', 'schema-text'), ('A::', 'uid-text')):
            add(which, base.encode() + tail.encode('latin-1'))
    per = 6 if quick else 60
    for t in ptext:
        tb = t.encode()
        for which in ('policy-text', 'policylist', 'stream', 'policyset-text'):
            add(which, tb)
        for _ in range(per):
            m = mutate_bytes(r, tb, r.choice([1, 1, 2, 3, 8]))
            add(r.choice(['policy-text', 'policylist', 'stream', 'policyset-text']), m)
    for j in pjson:
        add('policy-json', j)
        add('policyset-json', b'{"staticPolicies":{"a":' + j + b',"b":' + j + b'}}')
        tree = json.loads(j)
        for _ in range(per * 2):
            m = json.dumps(mutate_json(r, tree)).encode()
            add('policy-json', m)
            if r.random() < 0.3:
                add('policyset-json', b'{"staticPolicies":{"a":' + m + b'}}')
        for _ in range(per // 2):
            add('policy-json', mutate_bytes(r, j, r.choice([1, 2, 4])))
    for m in [b'{}', b'null', b'[]', b'{"staticPolicies":null}', b'{"staticPolicies":{"a":null}}', b'{"staticPolicies":[]}', b'{"staticPolicies":{"":{}}}',
              b'{"templates":{}}', b'{"staticPolicies":{"a":{"effect":"permit"}}}']:
        add('policyset-json', m)
    # the typed value decoders (IPAddr, Decimal, Datetime, Duration, EntityUID, Set, Record, Pattern, Decision, EntityMap .UnmarshalJSON,
    # EntityUID.UnmarshalBinary) called directly: nothing has checked that the bytes are JSON, or that there are any
    for m in [b'', b' ', b'"', b'""', b'"1.2.3.4"', b'"1.5"', b'"1h"', b'"2024-01-01"', b'{', b'{}', b'[', b'[]', b'null', b'n', b'0', b'-', b'"\\', b'{"__extn"', b'{"__extn":{}}',
              b'{"__extn":{"fn":"ip","arg":"1.2.3.4"}}', b'{"fn":"decimal","arg":"1.5"}', b'{"__entity":{}}', b'{"__entity":null}', b'{"type":"A","id":"a"}', b'"Wildcard"', b'["Wildcard",{"Literal":"a"}]',
              b'[{"Literal":null}]', b'"allow"', b'"deny"', b'\xff', b'\x00']:
        add('typed-value-json', m)
        for i in range(len(m)):
            add('typed-value-json', m[:i])
    for j in vjson:
        add('value-json', j)
        add('typed-value-json', j)
        for _ in range(max(1, per // 3)):
            add('typed-value-json', mutate_bytes(r, j, r.choice([1, 2, 4])))
        add('record-json', b'{"k":' + j + b'}')
        tree = json.loads(j)
        for _ in range(per):
            m = json.dumps(mutate_json(r, tree)).encode()
            add('value-json', m)
            add('record-json', b'{"k":' + m + b'}')
            add('request-json', b'{"principal":{"type":"U","id":"a"},"action":{"type":"A","id":"a"},"resource":{"type":"R","id":"r"},"context":{"k":' + m + b'}}')
    for j in ejson:
        add('entitymap-json', j)
        tree = json.loads(j)
        for _ in range(per * 2):
            mt = mutate_json(r, tree)
            add('entitymap-json', json.dumps(mt).encode())
            if isinstance(mt, list) and mt:
                add('entity-json', json.dumps(mt[0]).encode())
    for v in vtext:
        add('uid-text', v)
        for _ in range(2):
            add('uid-text', mutate_bytes(r, v, 2))
    for u in ['User::"a"', 'A::B::"x\\n"', '::"a"', 'User::', 'User::"a', 'User::"\\u{110000}"', 'User::"\\"', '"a"::"b"', 'User::"a"x', '']:
        add('uid-text', u)
        # the same texts indented / followed by white space of every length up to a line's worth (an index computed before trimming is a classic)
        for ws in (' ', '\t', '\n', '\r\n', '\x0b', '\u00a0'):
            for n_ in (1, 2, 3, 4, 5, 6, 8, 12, 40):
                add('uid-text', ws * n_ + u)
                add('uid-text', u + ws * n_)
                add('uid-text', ws * n_ + u + ws * (n_ // 2))
    sj = json.loads(SCHEMA_JSON)
    add('schema-text', SCHEMA_TEXT)
    add('schema-json', SCHEMA_JSON)
    for _ in range(300 if quick else 5000):
        add('schema-text', mutate_bytes(r, SCHEMA_TEXT.encode(), r.choice([1, 1, 2, 3, 6])))
        add('schema-json', json.dumps(mutate_json(r, sj)).encode())
    # 2. raw noise
    for _ in range(300 if quick else 5000):
        noise = bytes(r.randrange(256) for _ in range(r.randrange(0, 60)))
        add(r.choice(['policy-text', 'stream', 'policy-json', 'policyset-json', 'value-json', 'typed-value-json', 'entitymap-json', 'uid-text', 'schema-text', 'schema-json']), noise)
    # 3. deep nesting / long chains
    deep = 100000 if quick else 1000000
    head = 'permit(principal,action,resource) when { '
    deepdocs = [
        ('policy-text', head + '(' * deep + '1' + ')' * deep + ' };'), ('policy-text', head + '[' * deep + ']' * deep + ' };'),
        ('policy-text', head + '!' * deep + 'true };'), ('policy-text', head + '-' * deep + '1 };'),
        ('policy-text', head + '{a:' * deep + '1' + '}' * deep + ' };'), ('policy-text', head + 'if true then ' * deep + '1' + ' else 1' * deep + ' };'),
        ('policy-text', head + '1' + '+1' * deep + ' == 0 };'), ('policy-text', head + 'true' + ' && true' * deep + ' };'),
        ('policy-text', head + 'context' + '.a' * deep + ' };'), ('policy-text', head + 'context' + '["a"]' * deep + ' };'),
        ('policy-text', head + 'context' + '.contains(1)' * deep + ' };'), ('policy-text', head + 'ip(' * deep + '"1"' + ')' * deep + ' };'),
        ('stream', (head + '(' * deep)), ('policylist', '@a("b")' * deep + 'permit(principal,action,resource);'),
        ('policy-text', 'permit(principal,action,resource)' + ' when { true }' * deep + ';'),
        ('policy-json', '{"effect":"permit","principal":{"op":"All"},"action":{"op":"All"},"resource":{"op":"All"},"conditions":[{"kind":"when","body":' + '{"!":{"arg":' * 9000 + '{"Value":true}' + '}}' * 9000 + '}]}'),
        ('policy-json', '[' * deep), ('value-json', '[' * deep + ']' * deep), ('value-json', '{"a":' * deep + '1' + '}' * deep),
        ('value-json', '[' * 9000 + ']' * 9000), ('entitymap-json', '[{"uid":{"type":"A","id":"a"},"parents":[],"attrs":{"x":' + '[' * 9000 + ']' * 9000 + '},"tags":{}}]'),
        ('schema-text', 'entity A { a: ' + 'Set<' * deep + 'Long' + '>' * deep + ' };'), ('schema-text', 'entity A { a: ' + '{ a: ' * 5000 + 'Long' + ' }' * 5000 + ' };'),   # rendering indents per level: output is quadratic in depth (F38, see DESIGN)
        ('schema-text', 'namespace A { ' * deep + '}' * deep), ('schema-text', 'entity A in [' + 'A,' * deep + 'A];'),
        ('schema-json', '{"":{"entityTypes":{"A":{"shape":' + '{"type":"Set","element":' * 9000 + '{"type":"Long"}' + '}' * 9000 + '}},"actions":{}}}'),
        ('uid-text', 'A::' * deep + '"a"'),
    ]
    # 4. short documents (< 3 kB) of moderate depth whose decoding cost must not explode: each level carries a sibling key the typed
    #    decoder does not know, a duplicate key, or an alternative spelling - the shapes on which a decoder that retries falls back twice
    pj = '{"effect":"permit","principal":{"op":"All"},"action":{"op":"All"},"resource":{"op":"All"},"conditions":[{"kind":"when","body":%s}]}'

    def nest(shape, leaf, depth):
        x = leaf
        for _ in range(depth):
            x = shape.replace('X', x)
        return x
    for depth in (12, 26, 40):
        for shape in ('{"Set":[X],"zz":[]}', '{"zz":[],"Set":[X]}', '{"!":{"arg":X},"zz":[]}', '{"Record":{"a":X},"zz":[]}', '{"neg":{"arg":X},"decimal":[]}',
                      '{"is":{"left":X,"entity_type":"T"},"zz":[]}', '{"if-then-else":{"if":X,"then":{"Value":1},"else":{"Value":1}},"zz":[]}',
                      '{".":{"left":X,"attr":"a"},"zz":[]}', '{"decimal":[X],"zz":[]}', '{"set":[X],"ZZ":[]}', '{"Value":{"a":X},"zz":[]}',
                      # keys that differ from a known key only by a character with unusual case folding (dotted / dotless i, Kelvin sign, long s)
                      '{"Set":[X],"\u0130n":[]}', '{"Set":[X],"\u0131s":[]}', '{"Set":[X],"li\u212ae":[]}', '{"\u017fet":[X],"zz":[]}', '{"Set":[X],"\u0130sEmpty":[]}',
                      '{"Set":[X],"ha\u017f":[]}', '{"Set":[X],"conta\u0130ns":[]}', '{"SET":[X],"IN":[]}', '{"Set":[X],"\u212a":[]}'):
            add('policy-json', pj % nest(shape, '{"Value":1}', depth))
        for shape in ('{"a":X,"__extn":1}', '{"__extn":{"fn":"ip","arg":"1.1.1.1"},"a":X}', '{"__entity":{"type":"A","id":"a"},"a":X}', '{"type":"A","id":"a","x":X}'):
            add('value-json', nest(shape, '1', depth))
            add('entitymap-json', '[{"uid":{"type":"A","id":"a"},"parents":[],"attrs":{"x":%s},"tags":{}}]' % nest(shape, '1', depth))
        for shape in ('{"type":"Set","element":X,"zz":1}', '{"type":"Record","attributes":{"a":X},"zz":1}', '{"type":"Record","attributes":{"a":{"type":"Set","element":X,"required":false}}}'):
            add('schema-json', '{"":{"entityTypes":{"A":{"shape":{"type":"Record","attributes":{"a":%s}}}},"actions":{}}}' % nest(shape, '{"type":"Long"}', depth))
    ndeep0 = len(cases)
    for which, doc in deepdocs:
        add(which, doc)
    deep_cases = cases[ndeep0:]
    cases = cases[:ndeep0]
    ctx.rule = ('structure-aware mutants (subtree -> null/[]/{}/""/numbers/escape-shaped objects, key deletion/duplication, wrapping) of valid JSON '
                'of policies, policy sets, values, records, requests, entities, entity maps and schemas rendered by the code itself; byte-level '
                'mutants (insert/delete/replace/duplicate/truncate) of policy and schema texts and entity uids; the typed value decoders (IPAddr, Decimal, Datetime, Duration, EntityUID, Set, Record, Pattern, Decision, EntityMap) called directly on empty input, every prefix of their spellings and byte mutants; raw noise; %d-deep nestings and '
                '%d-long chains of every recursive construct of every text grammar, and 9000-deep JSON. Every accepted value is passed to every '
                'encoder, the authorizer and (schemas) the resolver/validator. non-trivial = the input was accepted by its decoder' % (deep, deep))
    go = lib.run_go(cases, 'decode', ctx.workdir, timeout_ms=30000, shards=lib.NCPU)
    # the deep / long inputs need seconds and up to a gigabyte each: run them two at a time with a generous limit
    go.update(lib.run_go(deep_cases, 'deep', ctx.workdir, timeout_ms=300000, shards=2))
    cases = cases + deep_cases
    bad = 0
    acc = rej = 0
    for c in cases:
        res = go.get(lib.case_id(c), '(missing)')
        ctx.count(c[:4000], res == '(accepted)')
        if res == '(accepted)':
            acc += 1
            continue
        if res == '(rejected)':
            rej += 1
            continue
        if res.startswith('(stack-overflow') and len(c) > 50000:
            ctx.known('F13', 'deeply nested or very long chained input overflows the goroutine stack (fatal, not recoverable)')
            continue
        bad += 1
        if bad <= 8:
            ctx.violation('decoder/encoder not total: %s on %s input of %d bytes' % (res[:200], c.split(' ')[3], (len(c.split(' ')[4]) - 2) // 2),
                          dict(kind='case', case=c[:20000], go=res))
    ctx.extra['accepted'] = acc
    ctx.extra['rejected'] = rej
    # a decoder that works through goroutines of its own must not race with itself either (a race is a crash waiting for its schedule): the
    # inputs that hold several policies / entities / members, and a sample of the rest, once more under the race detector
    okr, rlog = lib.build_harness(race=True)
    ctx.oblige('go: harness builds with the race detector (-race -tags verif)', 'build', okr, '' if okr else rlog[-2000:])
    if okr:
        many = []
        for which in ('policyset-json', 'entitymap-json', 'policyset-text', 'policylist', 'stream', 'schema-json', 'schema-text'):
            group = [c for c in cases if len(c) < 20000 and c.split(' ', 4)[3] == which]
            accepted = [c for c in group if go.get(lib.case_id(c)) == '(accepted)']
            per = 100 if quick else 1000
            many += accepted[:per] + [c for c in group if c not in set(accepted)][:per // 4]
        chosen = set(many)
        rest = [c for c in cases if len(c) < 20000 and c not in chosen]
        sample = many + r.sample(rest, min(len(rest), 300 if quick else 3000))
        rgo = lib.run_go(sample, 'decode-race', ctx.workdir, timeout_ms=60000, shards=lib.NCPU, binary=lib.HARNESS_RACE)
        rbad = 0
        for c in sample:
            cid = lib.case_id(c)
            a, b_ = go.get(cid, '(missing)'), rgo.get(cid, '(missing)')
            if a != b_ and a in ('(accepted)', '(rejected)'):
                rbad += 1
                if rbad <= 4:
                    ctx.violation('decoder under the race detector: %s (plain run: %s) on %s input of %d bytes' % (b_[:300], a, c.split(' ')[3], (len(c.split(' ')[4]) - 2) // 2),
                                  dict(kind='case', case=c[:20000], go=b_, plain=a, binary='harness-race'))
        ctx.oblige('runtime oracle: the same outcome under the race detector, no data race inside a decoder (%d inputs, %d of them documents with several policies / entities)'
                   % (len(sample), len(many)), 'oracle', rbad == 0)
    ctx.oblige('runtime oracle: no panic / crash / hang on %d inputs (accepted %d, rejected %d)' % (len(cases), acc, rej), 'oracle', bad == 0)
    for c in cases[:3]:
        ctx.sample(dict(case=c[:300], go=go.get(lib.case_id(c))))
    ctx.level = 'exploration'     # the property is about the running code; the theorems of Properties/C10.v carry its termination half only
    lib.epilogue(ctx)
