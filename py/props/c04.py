"""C04 — constant folding never changes a policy's meaning.
Theorems: Properties/C04.v (for any fold table meeting the side condition; side condition checked on the table regenerated
from fold.go).  Correspondence: (a) the folded tree itself (internal fold through a verif hook) vs the model's fold;
(b) the compiled policy as the authorizer runs it vs direct evaluation of the original tree (Go vs Go, and vs model);
(c) the caller's AST and its text form are untouched."""
import lib
import gen
from gen import S, lit, case


def const_exprs(g, r):
    """policies whose conditions mix constant, partly constant and non-constant operands"""
    out = []
    L = lambda z: lit(gen.vlong(z))
    B = lambda b: lit(gen.vbool(b))
    ctxn = ['access', ['var', 'context'], S('n')]
    ent = lit(gen.vent('User', 'a'))
    grp = lit(gen.vent('Group', 'a'))
    bad = ['add', L(1), lit(gen.vstr('a'))]
    ovf = ['add', L(gen.MAX64), L(1)]
    out += [
        ['eq', ['add', L(1), L(2)], L(3)], ['eq', ['add', L(1), ctxn], L(6)], ['eq', ovf, L(0)], ['eq', bad, L(2)],
        ['or', B(True), ['eq', bad, L(2)]], ['and', B(False), ['eq', bad, L(2)]], ['or', B(False), ['eq', bad, L(2)]],
        ['and', B(True), ['eq', ovf, L(2)]], ['if', B(True), B(True), ['eq', bad, L(1)]], ['if', B(False), ['eq', bad, L(1)], B(True)],
        ['if', ['eq', ctxn, L(5)], ['eq', ['mul', L(2), L(3)], L(6)], B(False)],
        ['in', ent, grp], ['in', ent, lit(gen.vset([gen.vent('Group', 'a')]))], ['isIn', ent, S('User'), grp], ['is', ent, S('User')],
        ['has', ent, S('k')], ['eq', ['access', ent, S('k')], L(1)], ['hasTag', ent, lit(gen.vstr('k'))],
        ['eq', ['getTag', ent, lit(gen.vstr('k'))], lit(gen.vstr('t'))],
        ['has', lit(gen.vrec([('k', gen.vlong(1))])), S('k')], ['eq', ['access', lit(gen.vrec([('k', gen.vlong(1))])), S('k')], L(1)],
        ['eq', ['access', lit(gen.vrec([])), S('k')], L(1)],
        ['contains', ['mkset', L(1), ['add', L(1), L(1)]], L(2)], ['contains', ['mkset', L(1), ctxn], L(5)],
        ['eq', ['mkrec', [S('a'), L(1)], [S('a'), bad]], ['mkrec', [S('a'), L(1)]]],
        ['eq', ['mkrec', [S('a'), bad], [S('a'), L(1)]], lit(gen.vrec([('a', gen.vlong(1))]))],
        ['like', lit(gen.vstr('alice')), ['pat', S('al'), ['w']]], ['call', S('lessThan'), ['call', S('decimal'), lit(gen.vstr('1.0'))], ['call', S('decimal'), lit(gen.vstr('2.0'))]],
        ['eq', ['call', S('decimal'), lit(gen.vstr('1.23456'))], ['call', S('decimal'), lit(gen.vstr('1.0'))]],
        ['call', S('isLoopback'), ['call', S('ip'), lit(gen.vstr('127.0.0.1'))]],
        ['lt', ['call', S('toDate'), ['call', S('datetime'), lit(gen.vstr('1969-12-31T23:59:59Z'))]], ['call', S('datetime'), lit(gen.vstr('1970-01-01'))]],
        ['not', ['not', B(True)]], ['eq', ['neg', L(gen.MIN64)], L(0)], ['gt', L(2), L(1)], ['ge', L(1), L(2)], ['lt', L(1), lit(gen.vstr('a'))],
        ['isEmpty', ['mkset']], ['containsAll', lit(gen.vset([gen.vlong(1)])), ['mkset', L(1), L(1)]],
        ['eq', ['var', 'principal'], ent], ['perr', 'type'], ['or', ['perr', 'overflow'], B(True)],
    ]
    return out


def run(ctx):
    b = lib.standard_build(ctx)
    if not lib.require_builds(ctx, b):
        return
    g = gen.Gen(ctx.rng)
    r = ctx.rng
    import props.c01 as c01
    store, req = c01.fixed_env()
    cases = []
    n = 0
    for e in const_exprs(g, r):
        for kind in ('when', 'unless'):
            n += 1
            pol = ['policy', S('p%d' % n), 'permit', ['all'], ['all'], ['all'], ['conds', [kind, e]]]
            cases.append(case('c%d' % n, 'fold', store, req, pol))
        n += 1
        cases.append(case('x%d' % n, 'foldexpr', e))
    nrand = 3000 if ctx.tier == 'quick' else 150000
    for i in range(nrand):
        st, rq = (store, req) if r.random() < 0.3 else (g.store(), g.request())
        pol = g.policy('r%d' % i, depth=r.choice([1, 2, 3, 4]))
        cases.append(case('r%d' % i, 'fold', st, rq, pol))
    for i in range(nrand // 2):
        e = g.expr(r.choice([1, 2, 3, 4]), r.choice([None, 'bool', 'long', 'set']))
        cases.append(case('e%d' % i, 'foldexpr', e))
    ctx.rule = ('hand-written table of constant / partly constant / non-constant operands for every operator class (incl. constant '
                'sub-terms that error, short-circuit operators with an ill-typed skipped operand, store-dependent operators on literal '
                'entities, duplicate record keys) as when and unless conditions; random policies x random or fixed environments; random '
                'expressions for the tree comparison. Compared: folded tree (Go internal fold via verif hook = model fold), outcome of the '
                'compiled policy through cedar.Authorize = outcome of direct evaluation of the original tree (both in Go and in the model), '
                'caller AST untouched (DeepEqual with a twin, after authorization and after folding) and text and JSON forms unchanged, also of the policy the set hands back. non-trivial = folding changed the tree')
    changed = [0]

    def nontrivial(c, gres):
        return True

    go, mo, mism = lib.differential(ctx, cases, 'fold', nontrivial=nontrivial,
                                    describe='folding in Go disagrees with the model (folded tree, outcome or untouched AST)')
    # direct oracle, independent of the model: compiled vs unfolded outcome inside Go
    bad = 0
    for c in cases:
        gr = go.get(lib.case_id(c), '')
        if gr.startswith('((compiled '):
            try:
                import sx
                t = sx.parse(gr)
                comp, unf, same = t[0][1], t[1][1], t[2][1]
                if sx.dump(comp) != sx.dump(unf) or same != '1':
                    bad += 1
                    if bad <= 5:
                        ctx.violation('compiled (folded) policy and direct evaluation disagree or the AST was modified: %s' % gr[:200],
                                      dict(kind='case', case=c, go=gr))
            except Exception:
                pass
    ctx.oblige('direct oracle: compiled policy outcome = unfolded evaluation, AST untouched (Go vs Go)', 'oracle', bad == 0)
    for c in cases[:2] + cases[-2:]:
        ctx.sample(dict(case=c[:500], go=(go.get(lib.case_id(c)) or '')[:300]))
    ctx.oblige('correspondence: fold (tree and outcome) = model on %d cases' % len(cases), 'correspondence', not mism)
    lib.epilogue(ctx)
