"""C12 — scalar and extension values have exact, canonical text forms.
Theorems: Properties/C12.v (decimal / duration / datetime codecs: print-parse round trip on all of int64, accepted syntax,
range, exact constructors; calendar inverse).  Correspondence: ParseDecimal/ParseDuration/ParseDatetime/ParseIPAddr and the
String() printers vs the models on literal tables, all strings within edit distance 1-2 of valid literals, boundary and random
values; NewDecimal on boundary (i, exponent).  Direct oracle: the Cedar rendering of every value parses and evaluates to an
equal value and re-renders to the same bytes."""
import lib
import gen
import sx
from gen import S, case

ALPHA = '0123456789+-.:TZdhms/ abfx%_'


def mutants(r, s, n):
    out = set()
    for _ in range(n):
        t = list(s)
        for _ in range(r.choice([1, 1, 2])):
            k = r.randrange(3)
            if k == 0 and t:
                del t[r.randrange(len(t))]
            elif k == 1:
                t.insert(r.randrange(len(t) + 1), r.choice(ALPHA))
            elif t:
                t[r.randrange(len(t))] = r.choice(ALPHA)
        out.add(''.join(t))
    return out


def c10_mutate(r, b):
    b = bytearray(b)
    for _ in range(r.choice([1, 1, 2])):
        k = r.randrange(4)
        pos = r.randrange(len(b) + 1)
        ch = r.choice(b'":\\ aA*\x00\xff\xc3{}u')
        if k == 0 or not b:
            b.insert(pos, ch)
        elif k == 1:
            del b[min(pos, len(b) - 1)]
        elif k == 2:
            b[min(pos, len(b) - 1)] = ch
        else:
            b[pos:pos] = b[max(0, pos - 3):pos]
    return bytes(b)


def run(ctx):
    b = lib.standard_build(ctx)
    if not lib.require_builds(ctx, b):
        return
    r = ctx.rng
    g = gen.Gen(r)
    cases = []
    n = 0
    quick = ctx.tier == 'quick'

    def add(kind, *parts):
        nonlocal n
        n += 1
        cases.append(case('s%d' % n, kind, *parts))

    tables = {'decimal': gen.DEC_STRS, 'duration': gen.DUR_STRS, 'datetime': gen.DT_STRS, 'ip': gen.IP_STRS}
    nm = 25 if quick else 400
    for ty, strs in tables.items():
        seen = set()
        for s in strs:
            for t in [s] + sorted(mutants(r, s, nm)):
                if t not in seen:
                    seen.add(t)
                    add('scalar', ['parse', ty, S(t)])
    # printers on boundary and random values, and parse(print) through the parse case of the printed form is covered by cedarvalue
    longs = gen.LONGS + [r.randrange(gen.MIN64, gen.MAX64) for _ in range(200 if quick else 20000)]
    for z in longs:
        add('scalar', ['print', gen.vdec(z)])
        add('scalar', ['print', gen.vdur(z)])
    for z in gen.DTS + gen.DURS + [r.randrange(gen.MIN64, gen.MAX64) for _ in range(300 if quick else 20000)] + \
            [r.randrange(-70000000000000, 300000000000000) for _ in range(300 if quick else 20000)]:
        add('scalar', ['print', gen.vdt(z)])
    for i in gen.LONGS + [1844674408, 922337203685477, 922337203685478, -922337203685477, -922337203685478, 92233720368547758, 9223372036854, 12345]:
        for e in range(-6, 17):
            add('scalar', ['newdecimal', str(i), str(e)])
    # every value's Cedar rendering evaluates to an equal value
    vals = [gen.vlong(z) for z in gen.LONGS] + [gen.vdec(z) for z in gen.DECS + longs[:60]] + [gen.vdur(z) for z in gen.DURS + longs[:60]] + \
           [gen.vdt(z) for z in gen.DTS + [r.randrange(gen.MIN64 + gen.DAY, gen.MAX64) for _ in range(60)]] + [gen.vip(t) for t in gen.IPS] + \
           [gen.vstr(s) for s in gen.STRINGS + ['"', '\\', "'", '\n\t\r', '\x7f', '\u0085', '​', '﻿', '�', '\U0001f600', '́a', 'a\x00b', '*', '\\*', '${x}']] + \
           [gen.vent(t, i) for t in gen.ETYPES for i in gen.EIDS + ['"', '\\', '\n', 'é', 'C:\\x\\', 'a\\\\', '\\"', '"\\', 'a::"b', '::"', 'x\\"y"', '\u2028', '*']] + \
           [gen.vrec([(k, gen.vlong(1))]) for k in gen.KEYS + ['"', '\\', '\x07', '\x7f', 'if', 'true', 'a b', '1a', '​']]
    for s in range(0x20):
        vals.append(gen.vstr(chr(s)))
    for _ in range(500 if quick else 30000):
        vals.append(g.value(3))
    for _ in range(300 if quick else 20000):
        cp = r.choice([r.randrange(0, 0x80), r.randrange(0x80, 0x800), r.randrange(0x800, 0xd800), r.randrange(0xe000, 0x10000), r.randrange(0x10000, 0x110000)])
        vals.append(gen.vstr('a' + chr(cp) + 'b'))
    for v in vals:
        add('cedarvalue', v)
    ctx.rule = ('parse: %d literal strings of decimal/duration/datetime/ip (valid, boundary, malformed) and their random mutants within edit '
                'distance 1-2 (accept/reject and value, Go = model); print: boundary and random int64 values of decimal/duration/datetime '
                '(Go String() = model printer); NewDecimal on boundary (i, exponent) pairs; and for values of every type (all boundary longs, '
                'strings and entity ids / record keys over control, quote, non-ASCII, every C0 character and random scalar values from each UTF-8 '
                'length class, ip incl. every prefix class, nested sets/records) the Cedar rendering must parse, evaluate to an equal value and '
                're-render identically. non-trivial = accepted by the parser / round trip attempted'
                % sum(len(v) for v in tables.values()))

    def classify(c, gres, m):
        return None

    scal = [c for c in cases if ' scalar ' in c[:40]]
    cv = [c for c in cases if ' cedarvalue ' in c[:40]]

    def nontrivial(c, gres):
        return not gres.startswith('(err')

    go, mo, mism = lib.differential(ctx, scal, 'scalar', nontrivial=nontrivial, classify=classify,
                                    describe='scalar codec in Go disagrees with the model')
    gcv = lib.run_go(cv, 'cedarvalue', ctx.workdir)
    bad = 0
    for c in cv:
        res = gcv.get(lib.case_id(c), '(missing)')
        ctx.count(c.split(' ', 2)[2], True)
        if res == '(ok)' or res.startswith('(ok-second-rendering-differs'):
            continue   # byte stability of a second rendering is C08/C13's business
        if lib.has_4in6(c) and ('does-not-evaluate' in res or 'does-not-parse' in res):
            ctx.known('F30', 'IPv4-mapped IPv6 address prints in mixed notation that ParseIPAddr rejects')
            continue
        if lib.has_first_day_datetime(c) and 'does-not-evaluate' in res:
            ctx.known('F27', 'datetime in the first day of the int64 range prints but does not parse (minDatetime one day late)')
            continue
        bad += 1
        if bad <= 5:
            ctx.violation('Cedar rendering of a value does not round-trip: ' + res[:300], dict(kind='case', case=c, go=res))
    # probes for the listed findings (so they are reported while present, and their disappearance is visible)
    for f in ctx.known_findings():
        w = f['witness']['value']
        pr = lib.run_go([case('k', 'cedarvalue', sx.parse(w))], 'known', ctx.workdir)
        if not (pr.get('k') or '').startswith('(ok'):
            ctx.known(f['id'], f['what'][:160])
    ctx.oblige('direct oracle: Cedar rendering of %d values parses, evaluates to an equal value, re-renders identically' % len(cv), 'oracle', bad == 0)
    for c in scal[:2] + cv[:2]:
        ctx.sample(dict(case=c[:300], go=(go.get(lib.case_id(c)) or gcv.get(lib.case_id(c)) or '')[:200]))
    ctx.oblige('correspondence: scalar parsers/printers/constructors = model on %d cases' % len(scal), 'correspondence', not mism)
    # EntityUID.UnmarshalCedar / UnmarshalBinary = Impl/UidText.parse_uid: printed forms (written here with the escapes the printer uses), their byte
    # mutants, hand-made shapes around the separator and the quotes
    def q(s_):
        out = ''
        for ch in s_:
            out += {'"': '\\"', '\\': '\\\\', '\n': '\\n', '\t': '\\t', '\r': '\\r', '\0': '\\0'}.get(ch, ch)
        return '"' + out + '"'
    TYPES = gen.ETYPES + ['A::B::C', 'a', '', 'A:', 'A::', ':', 'A b', 'é', 'A::"B', '"']
    IDS = gen.EIDS + ['"', '\\', '\n', 'é', 'C:\\x\\', 'a\\\\', '\\"', '"\\', 'a::"b', '::"', 'x"y', '*', '\\*', '\U0001f600', 'a b', "'"]
    texts = [t + '::' + q(i) for t in TYPES for i in IDS]
    texts += ['', '::', '::"', '::""', 'A::"', 'A::""', 'A::"a', 'A::a"', 'A::"a"b"', 'A::"a""', 'A::"\\"', 'A::"\\\\"', 'A::"\\u{41}"', 'A::"\\u{110000}"', 'A::"\\x41"', 'A::"\\q"',
              'A::"a"::"b"', 'A::B"c"', 'A"::"b"', ' A::"a"', 'A::"a" ', 'A ::"a"', 'A:: "a"', 'A::"\\*"', 'A::"*"', 'A::"\xff"', 'A:::"a"', 'A::::"a"', '"::"a"', 'A::"a\\"']
    texts += [ws * n_ + 'A::"a"' + ws * m_ for ws in (' ', '\t', '\n') for n_ in (0, 1, 4, 8) for m_ in (0, 1, 4) if n_ + m_]
    ucases = []
    for t in texts:
        tb = t.encode('utf-8', 'surrogateescape') if isinstance(t, str) else t
        ucases.append(case('u%d' % len(ucases), 'uidparse', S(tb)))
        for _ in range(2 if quick else 12):
            ucases.append(case('u%d' % len(ucases), 'uidparse', S(c10_mutate(r, tb))))
    go_u, mo_u, mism_u = lib.differential(ctx, ucases, 'uidparse', nontrivial=lambda c, g_: g_.startswith('(ok'),
                                          describe='EntityUID.UnmarshalCedar: Go and the Coq model (Impl/UidText.v parse_uid) disagree')
    ctx.extra['uidparse'] = dict(cases=len(ucases), accepted=sum(1 for c in ucases if go_u.get(lib.case_id(c), '').startswith('(ok')))
    ctx.oblige('correspondence: EntityUID.UnmarshalCedar (= UnmarshalBinary) = UidText.parse_uid on %d texts (printed forms over types and ids that need escaping, shapes around '
               'the separator and the quotes, byte mutants)' % len(ucases), 'correspondence', not mism_u)
    lib.epilogue(ctx)
