"""C08 — Cedar text marshalling round-trips every policy.
Direct oracle on the Go code for policies built programmatically (and re-decoded from JSON): the rendering parses; effect,
annotations and scope are preserved; the reparsed policy evaluates identically on several environments; rendering the
reparsed policy reproduces the same bytes; policy sets / lists / the Encoder-Decoder stream keep the documented order."""
import lib
import props.codec_common as cc


def run(ctx):
    ctx.rule = ('every (parent, child, operand position) operator pairing incl. negative literals, negation of integer-led operands, keyword and '
                'non-identifier attribute names / record keys, strings, entity ids and patterns over control, quote, non-ASCII and astral characters, '
                'extension values nested in sets/records/arguments, method vs function calls, all scope-form combinations with annotations; random '
                'policies; policy sets with ids that sort non-trivially. non-trivial = the policy rendered and the full round trip was checked')
    res = cc.run_codec(ctx, want_text=True)
    if res is None:
        return
    bad, n = res
    g, pols = cc.gen_policies(ctx, 600 if ctx.tier == 'quick' else 20000)
    np_, mism = cc.printer_correspondence(ctx, pols)
    ctx.oblige('correspondence: Policy.MarshalCedar bytes = Impl/Printer.v model (render (policy_items p)) on %d policies' % np_, 'correspondence', not mism)
    ctx.oblige('direct oracle: text round trip (parse, same head, same meaning, byte fixpoint, set/list/stream order) on %d cases' % n, 'oracle', bad == 0)
    lib.epilogue(ctx)
