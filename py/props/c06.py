"""C06 — partial evaluation is sound for every completion of the unknowns.
Theorems: Properties/C06.v.  Correspondence: residual policies (structural) Go = model.  Direct oracle (Go only):
for every completion, residual satisfied <=> original satisfied; dropped => never satisfied; ignore only widens permits."""
import itertools

import lib
import gen
import sx
from gen import S, lit, case

VAR_T = '__cedar::variable'
IGN_T = '__cedar::ignore'
UNK_T = '__cedar::unknown'


def var(name): return gen.vent(VAR_T, name)
def ign(): return gen.vent(IGN_T, '')


UA, UB, UC = gen.vent('User', 'a'), gen.vent('User', 'b'), gen.vent('User', 'c')
G = gen.vent('Group', 'g')
DOC = gen.vent('Doc', 'd')
ACT = gen.vent('Action', 'view')

STORE = ['store',
         ['ent', UA, ['parents', G], ['attrs', [S('name'), gen.vstr('alice')], [S('n'), gen.vlong(1)]], ['tags', [S('k'), gen.vlong(1)]]],
         ['ent', UB, ['parents'], ['attrs', [S('name'), gen.vstr('bob')]], ['tags']],
         ['ent', G, ['parents', gen.vent('Group', 'top')], ['attrs'], ['tags']],
         ['ent', gen.vent('Group', 'top'), ['parents'], ['attrs'], ['tags']],
         ['ent', DOC, ['parents'], ['attrs', [S('owner'), UA]], ['tags']],
         # the action hierarchy is two levels deep: view -> readers -> all (listed groups are reached through more than one hop)
         ['ent', ACT, ['parents', gen.vent('Action', 'readers')], ['attrs'], ['tags']],
         ['ent', gen.vent('Action', 'readers'), ['parents', gen.vent('Action', 'all')], ['attrs'], ['tags']],
         ['ent', gen.vent('Action', 'all'), ['parents'], ['attrs'], ['tags']]]

VALUES = {
    # (the zero uid is a legal request part in the Go API)
    'p': [UA, UB, UC, gen.vent('', '')], 'r': [DOC, UA, gen.vent('', '')], 'f': [gen.vbool(True), gen.vbool(False)], 'n': [gen.vlong(1), gen.vlong(2)],
    'm': [gen.vlong(1), gen.vstr('s'), gen.vlong(gen.MAX64)], 'w': [UA, UB], 'g': [G, gen.vent('Group', 'h'), UA],
    's': [gen.vstr('10.0.0.1'), gen.vstr('1.5'), gen.vstr('not a literal'), gen.vlong(3)],
    'a': [ACT, gen.vent('Action', 'edit'), ACT],
}


def subst(v, sigma):
    if isinstance(v, str):
        return v
    if v and v[0] == 'e' and sx.unS(v[1]).decode() == VAR_T:
        return sigma[sx.unS(v[2]).decode()]
    if v and v[0] in ('set',):
        return ['set'] + [subst(x, sigma) for x in v[1:]]
    if v and v[0] == 'rec':
        return ['rec'] + [[kv[0], subst(kv[1], sigma)] for kv in v[1:]]
    return v


def vars_of(v, acc):
    if isinstance(v, str):
        return
    if v and v[0] == 'e' and sx.unS(v[1]).decode() == VAR_T:
        acc.add(sx.unS(v[2]).decode())
    elif v and v[0] in ('set', 'rec'):
        for x in v[1:]:
            vars_of(x[1] if v[0] == 'rec' else x, acc)


def gen_template(r):
    """returns (principal, action, resource, context, ignored-parts)"""
    ignored = set()
    k = r.random()
    if k < 0.45: p = r.choice([UA, UA, UA, UA, UA, UA, UB, UB, UB, gen.vent('', '')])      # (a known principal may be the zero uid)
    elif k < 0.9: p = var('p')
    else:
        p = ign(); ignored.add('principal')
    k = r.random()
    if k < 0.55: res = DOC
    elif k < 0.86: res = var('r')
    elif k < 0.92: res = var('p')          # the SAME variable as the principal may use: one binding completes several request parts
    else:
        res = ign(); ignored.add('resource')
    k = r.random()
    if k < 0.08:
        ctx = var('c')       # whole context unknown
    elif k < 0.14:
        ctx = ign(); ignored.add('context')
    else:
        fields = []
        fields.append(('flag', var('f') if r.random() < 0.5 else gen.vbool(r.random() < 0.5)))
        fields.append(('n', var(r.choice(['n', 'm'])) if r.random() < 0.6 else gen.vlong(r.choice([1, 2]))))
        if r.random() < 0.7:
            fields.append(('l', gen.vset([var('n') if r.random() < 0.5 else gen.vlong(2), gen.vlong(1)])))
        if r.random() < 0.7:
            fields.append(('r', gen.vrec([('x', var('n') if r.random() < 0.6 else gen.vlong(1)), ('y', gen.vlong(5))])))
        if r.random() < 0.6:
            fields.append(('who', var(r.choice(['p', 'w'])) if r.random() < 0.7 else UA))
        if r.random() < 0.15:
            fields.append(('ig', ign()))
        if r.random() < 0.5:
            fields.append(('str', var('s') if r.random() < 0.6 else gen.vstr(r.choice(['10.0.0.1', '1.5', 'x']))))
        # unknowns nested below members of sets and inside records that are compared whole
        if r.random() < 0.5:
            fields.append(('groups', gen.vset([var('g') if r.random() < 0.7 else G, gen.vent('Group', 'z')])))
        if r.random() < 0.4:
            fields.append(('want', var(r.choice(['w', 'n'])) if r.random() < 0.7 else gen.vrec([('x', gen.vlong(1))])))
        if r.random() < 0.4:
            fields.append(('meta', gen.vrec([('x', var('n') if r.random() < 0.7 else gen.vlong(1))])))
        if r.random() < 0.4:
            fields.append(('sr', gen.vset([gen.vrec([('by', var('w') if r.random() < 0.7 else UA)])])))
        if r.random() < 0.3:
            fields.append(('ss', gen.vset([gen.vset([var('n') if r.random() < 0.7 else gen.vlong(1)]), gen.vset([])])))
        ctx = gen.vrec(fields)
    a = ACT
    ka = r.random()
    if ka < 0.12:
        a = var('a')                      # the action may be a variable or ignored too
    elif ka < 0.16:
        a = ign(); ignored.add('action')
    return p, a, res, ctx, ignored


def atom_expr(r):
    P, R, C = ['var', 'principal'], ['var', 'resource'], ['var', 'context']
    acc = lambda e, k: ['access', e, S(k)]
    L = lambda z: lit(gen.vlong(z))
    choices = [
        lambda: ['eq', P, lit(r.choice([UA, UB]))],
        lambda: ['in', P, lit(G)],
        lambda: ['in', P, lit(gen.vset([G, UB]))],
        lambda: ['is', P, S('User')],
        lambda: ['isIn', P, S('User'), lit(G)],
        lambda: ['isIn', P, S(r.choice(['User', 'Doc'])), acc(R, 'owner')],
        lambda: ['isIn', acc(C, 'who'), S(r.choice(['User', 'Group'])), acc(C, 'missing')],
        lambda: ['isIn', R, S('User'), ['add', L(1), lit(gen.vstr('a'))]],
        lambda: ['eq', R, lit(DOC)],
        lambda: ['eq', acc(R, 'owner'), P],
        lambda: ['eq', acc(P, 'name'), lit(gen.vstr('alice'))],
        lambda: ['has', P, S('n')],
        lambda: ['hasTag', P, lit(gen.vstr('k'))],
        lambda: ['eq', ['getTag', P, lit(gen.vstr('k'))], L(1)],
        lambda: acc(C, 'flag'),
        lambda: ['eq', acc(C, 'n'), L(r.choice([1, 2]))],
        lambda: ['gt', ['add', acc(C, 'n'), L(1)], L(2)],
        lambda: ['contains', acc(C, 'l'), L(r.choice([1, 2, 3]))],
        lambda: ['containsAny', acc(C, 'l'), lit(gen.vset([gen.vlong(2), gen.vlong(7)]))],
        lambda: ['eq', acc(acc(C, 'r'), 'x'), L(1)],
        lambda: ['eq', acc(C, 'r'), lit(gen.vrec([('x', gen.vlong(1)), ('y', gen.vlong(5))]))],
        lambda: ['eq', C, lit(gen.vrec([('flag', gen.vbool(True)), ('n', gen.vlong(1))]))],
        lambda: ['has', C, S(r.choice(['n', 'zz', 'ig', 'who']))],
        lambda: ['has', acc(C, 'r'), S(r.choice(['x', 'zz']))],
        lambda: ['eq', acc(C, 'who'), P],
        lambda: ['in', acc(C, 'who'), lit(G)],
        lambda: ['eq', acc(C, 'ig'), L(1)],
        lambda: ['eq', ['add', acc(C, 'n'), lit(gen.vstr('a'))], L(1)],
        lambda: acc(C, 'missing'),
        lambda: ['eq', acc(['if', acc(C, 'flag'), C, acc(C, 'r')], 'n'), L(1)],
        lambda: ['eq', acc(['if', ['eq', P, lit(UA)], acc(C, 'r'), lit(gen.vrec([('x', gen.vlong(1))]))], 'x'), L(1)],
        lambda: lit(gen.vbool(r.random() < 0.5)),
        lambda: ['isEmpty', ['mkset', acc(C, 'n')]],
        lambda: ['eq', ['mkrec', [S('a'), acc(C, 'n')]], lit(gen.vrec([('a', gen.vlong(1))]))],
        lambda: ['like', acc(P, 'name'), ['pat', S('al'), ['w']]],
        lambda: ['lt', acc(C, 'n'), acc(acc(C, 'r'), 'y')],
        # an unknown (or residual) operand FOLLOWED by a composite operand that holds a nested unknown, and the mirrored order
        lambda: ['in', P, acc(C, 'groups')],
        lambda: ['in', acc(C, 'who'), acc(C, 'groups')],
        lambda: ['contains', acc(C, 'groups'), P],
        lambda: ['eq', acc(C, 'want'), acc(C, 'meta')],
        lambda: ['eq', acc(C, 'meta'), acc(C, 'want')],
        lambda: ['contains', acc(C, 'sr'), ['mkrec', [S('by'), P]]],
        lambda: ['contains', acc(C, 'ss'), ['mkset', acc(C, 'n')]],
        lambda: ['containsAll', acc(C, 'ss'), ['mkset', ['mkset', acc(C, 'n')]]],
        lambda: ['eq', ['mkset', P, acc(C, 'who')], acc(C, 'groups')],
        lambda: ['eq', ['mkrec', [S('a'), P], [S('b'), acc(C, 'meta')]], lit(gen.vrec([('a', UA), ('b', gen.vrec([('x', gen.vlong(1))]))]))],
        lambda: ['lt', acc(C, 'n'), acc(acc(C, 'meta'), 'x')],
    ]
    # every relational and arithmetic operator over operands that may be known, unknown or equal (boundary: equal operands)
    def num():
        return r.choice([acc(C, 'n'), L(1), L(2), L(5), acc(acc(C, 'r'), 'x'), acc(acc(C, 'r'), 'y'), acc(acc(C, 'meta'), 'x'), ['add', acc(C, 'n'), L(0)],
                         ['sub', acc(acc(C, 'r'), 'y'), L(4)], ['mul', acc(C, 'n'), L(1)], ['neg', ['neg', acc(C, 'n')]], L(gen.MAX64)])
    choices += [lambda: [r.choice(['lt', 'le', 'gt', 'ge', 'eq', 'ne']), num(), num()]] * 8
    choices += [lambda: ['eq', [r.choice(['add', 'sub', 'mul']), num(), num()], L(r.choice([0, 1, 2, 4, 6]))]] * 3
    # operands of the wrong kind for &&, ||, if (known and unknown), and extension constructors / methods over known and unknown strings
    def anyb():
        return r.choice([acc(C, 'flag'), lit(gen.vbool(True)), lit(gen.vbool(False)), ['eq', acc(C, 'n'), L(1)], acc(C, 'missing')])
    def nonbool():
        return r.choice([L(1), lit(gen.vstr('s')), acc(C, 'n'), acc(C, 'str'), acc(C, 'r'), acc(C, 'l')])
    choices += [lambda: ['and', nonbool(), anyb()], lambda: ['and', anyb(), nonbool()], lambda: ['or', nonbool(), anyb()], lambda: ['or', anyb(), nonbool()],
                lambda: ['if', nonbool(), anyb(), anyb()], lambda: ['not', nonbool()], lambda: ['if', anyb(), nonbool(), anyb()]]
    sarg = lambda: r.choice([acc(C, 'str'), lit(gen.vstr('10.0.0.1')), lit(gen.vstr('1.5')), lit(gen.vstr('bad')), acc(acc(C, 'r'), 'x')])
    choices += [lambda: ['call', S('isIpv4'), ['call', S('ip'), sarg()]], lambda: ['call', S('isInRange'), ['call', S('ip'), sarg()], ['call', S('ip'), lit(gen.vstr('10.0.0.0/8'))]],
                lambda: ['call', S('lessThan'), ['call', S('decimal'), sarg()], ['call', S('decimal'), lit(gen.vstr('2.0'))]],
                lambda: ['lt', ['call', S('datetime'), sarg()], ['call', S('datetime'), lit(gen.vstr('2024-01-01'))]],
                lambda: ['gt', ['call', S('toHours'), ['call', S('duration'), sarg()]], acc(C, 'n')],
                lambda: ['call', S('isIpv4'), sarg()], lambda: ['call', S('ip'), sarg(), sarg()], lambda: ['call', S('nosuchfn'), sarg()]] * 2
    choices += [lambda: [r.choice(['containsAll', 'containsAny']), acc(C, 'l'), lit(gen.vset([gen.vlong(z) for z in r.sample([1, 2, 3], r.randrange(0, 3))]))],
                lambda: ['isEmpty', acc(C, 'l')], lambda: ['ne', acc(C, 'who'), P], lambda: ['ne', P, lit(r.choice([UA, UB]))],
                lambda: ['like', acc(P, 'name'), ['pat', ['w'], S('ce')]], lambda: ['hasTag', P, lit(gen.vstr(r.choice(['k', 'zz'])))]]
    return r.choice(choices)()


def bool_expr(r, depth):
    if depth <= 0 or r.random() < 0.3:
        return atom_expr(r)
    k = r.randrange(5)
    if k == 0: return ['and', bool_expr(r, depth - 1), bool_expr(r, depth - 1)]
    if k == 1: return ['or', bool_expr(r, depth - 1), bool_expr(r, depth - 1)]
    if k == 2: return ['not', bool_expr(r, depth - 1)]
    if k == 3: return ['if', bool_expr(r, depth - 1), bool_expr(r, depth - 1), bool_expr(r, depth - 1)]
    return atom_expr(r)


def scope_for(r, which):
    k = r.randrange(6)
    if which == 'action':
        # every action scope form: all, ==, in, in [..] (empty, with the action, without it)
        return r.choice([['all'], ['all'], ['all'], ['eq', ACT], ['eq', ACT], ['eq', gen.vent('Action', 'edit')], ['in', ACT], ['in', gen.vent('Action', 'grp')],
                         ['inset'], ['inset', ACT], ['inset', gen.vent('Action', 'edit'), ACT], ['inset', gen.vent('Action', 'edit')],
                         ['in', gen.vent('Action', 'all')], ['in', gen.vent('Action', 'readers')], ['inset', gen.vent('Action', 'all')],
                         ['inset', gen.vent('Action', 'edit'), gen.vent('Action', 'all')], ['inset', gen.vent('Action', 'readers'), gen.vent('Action', 'nosuch')]])
    if which == 'principal':
        return r.choice([['all'], ['all'], ['eq', UA], ['in', G], ['is', S('User')], ['isin', S('User'), G], ['in', UA], ['isin', S('Doc'), G], ['isin', S('User'), gen.vent('Group', 'h')],
                         ['eq', UB], ['is', S('Group')], ['in', gen.vent('Group', 'top')], ['isin', S('User'), gen.vent('Group', 'top')]])
    return r.choice([['all'], ['all'], ['eq', DOC], ['in', DOC], ['is', S('Doc')], ['is', S('User')], ['isin', S('Doc'), DOC], ['isin', S('User'), G], ['in', G], ['eq', UA]])


def fix_ignored(part, which):
    if which == 'context':
        return ['rec']
    return gen.vent(UNK_T, which)


def build_case(r, cid):
    p, a, res, ctx, ignored = gen_template(r)
    conds = [[r.choice(['when', 'when', 'unless']), bool_expr(r, r.choice([0, 1, 2, 3]))] for _ in range(r.choice([1, 1, 2, 3]))]
    eff = r.choice(['permit', 'forbid'])
    pol = ['policy', S('p'), eff, scope_for(r, 'principal'), scope_for(r, 'action'), scope_for(r, 'resource'), ['conds'] + conds]
    names = set()
    for part in (p, a, res, ctx):
        vars_of(part, names)
    names = sorted(names)
    pools = []
    for nm in names:
        if nm == 'c':
            pools.append([gen.vrec([('flag', gen.vbool(True)), ('n', gen.vlong(1))]),
                          gen.vrec([('flag', gen.vbool(False)), ('n', gen.vlong(2)), ('l', gen.vset([gen.vlong(1)])),
                                    ('r', gen.vrec([('x', gen.vlong(1)), ('y', gen.vlong(5))])), ('who', UA)])])
        else:
            pools.append(VALUES[nm])
    comps = []
    ign_vals = {'principal': [UA, UB], 'resource': [DOC, UA], 'action': [ACT, gen.vent('Action', 'edit')],
                'context': [gen.vrec([('flag', gen.vbool(True)), ('n', gen.vlong(1)), ('who', UA)]), gen.vrec([])]}
    ign_parts = sorted(ignored)
    for combo in itertools.product(*pools):
        sigma = dict(zip(names, combo))
        base = {'principal': subst(p, sigma), 'action': subst(a, sigma), 'resource': subst(res, sigma), 'context': subst(ctx, sigma)}
        # nested ignore marker inside the context: completions give it a concrete value for the original
        for ivals in itertools.product(*[ign_vals[x] for x in ign_parts]):
            orig = dict(base)
            fixed = dict(base)
            for x, v in zip(ign_parts, ivals):
                orig[x] = v
                fixed[x] = fix_ignored(v, x)
            def deign(v, repl):
                if isinstance(v, str): return v
                if v and v[0] == 'e' and sx.unS(v[1]).decode() == IGN_T: return repl
                if v and v[0] == 'set': return ['set'] + [deign(x, repl) for x in v[1:]]
                if v and v[0] == 'rec': return ['rec'] + [[kv[0], deign(kv[1], repl)] for kv in v[1:]]
                return v
            for repl in ([gen.vlong(1), gen.vlong(9)] if 'x6967' in sx.dump(ctx) else [None]):
                o = dict(orig)
                f = dict(fixed)
                if repl is not None:
                    o['context'] = deign(o['context'], repl)
                req1 = ['req', o['principal'], o['action'], o['resource'], o['context']]
                req2 = ['req', f['principal'], f['action'], f['resource'], f['context']]
                comps.append(['c', req1, req2])
            if len(comps) > 40:
                break
        if len(comps) > 40:
            break
    tmpl = ['req', p, a, res, ctx]
    nested_ign = 'x6967' in sx.dump(ctx) and IGN_T.encode().hex() in sx.dump(ctx)
    meta = dict(ignored=ign_parts, nested_ign=nested_ign, effect=eff, has_unknown=bool(names) or bool(ign_parts) or nested_ign)
    return (case('p%d' % cid, 'partial', STORE, tmpl, pol), case('s%d' % cid, 'psound', STORE, tmpl, pol, ['comps'] + comps), meta)


def check_sound(ctx, c, res, meta):
    """the property, checked on the Go side's outcomes"""
    t = sx.parse(res)
    if not isinstance(t, list) or t[0] not in ('keep', 'drop'):
        return 'unexpected result ' + res[:200]
    kept = t[0] == 'keep'
    widen = bool(meta['ignored']) or meta['nested_ign']
    for o in t[1:]:
        orig, resid = sx.dump(o[1]), sx.dump(o[2])
        osat = orig == 't'
        rsat = kept and resid == 't'
        if not widen:
            if osat != rsat:
                return 'original %s but residual %s (%s)' % (orig, resid if kept else 'dropped', 'kept' if kept else 'dropped')
        else:
            # ignore only widens permits: original satisfied for some value of the ignored part => kept and residual satisfied
            if meta['effect'] == 'permit' and osat and not rsat:
                return 'permit with an ignored part: original satisfied but residual %s' % (resid if kept else 'dropped')
    return None


def run(ctx):
    b = lib.standard_build(ctx)
    if not lib.require_builds(ctx, b):
        return
    r = ctx.rng
    n = 4000 if ctx.tier == 'quick' else 150000
    pcases, scases, metas = [], [], {}
    for i in range(n):
        pc, sc, meta = build_case(r, i)
        pcases.append(pc)
        scases.append(sc)
        metas[lib.case_id(sc)] = meta
    ctx.rule = ('random policies (scopes of every form, 1-3 when/unless conditions built from 33 atoms over principal/resource/context incl. '
                'nested records, sets, entity attributes/tags, error-raising sub-terms, if/&&/||/!) x partial environments (principal, '
                'resource, whole context unknown or ignored; unknowns nested in context record fields, sets and sub-records; the same '
                'variable in several places; nested ignore) x all completions from value lists that hit both branches of each comparison and '
                'include ill-typed values. Compared: (a) residual policy Go = model structurally; (b) soundness on the Go outcomes for every '
                'completion. non-trivial = the environment has an unknown and the policy was not decided by its scope alone')

    def nontrivial(c, g):
        return g.startswith('(keep') or g.startswith('((keep') or ' na)' in g

    go, mo, mism = lib.differential(ctx, pcases + scases, 'partial', nontrivial=nontrivial,
                                    describe='PartialPolicy in Go disagrees with the model')
    bad = 0
    kept = dropped = 0
    for c in scases:
        cid = lib.case_id(c)
        res = go.get(cid, '(missing)')
        if res.startswith('(keep'):
            kept += 1
        elif res.startswith('(drop'):
            dropped += 1
        msg = check_sound(ctx, c, res, metas[cid])
        if msg:
            bad += 1
            if bad <= 5:
                ctx.violation('partial evaluation unsound: ' + msg, dict(kind='case', case=c, go=res, meta=metas[cid]))
    ctx.extra['kept'] = kept
    ctx.extra['dropped'] = dropped
    ctx.oblige('direct oracle: residual sat <=> original sat for every completion; ignore only widens permits (%d policies)' % len(scases),
               'oracle', bad == 0)
    for c in pcases[:2] + scases[:2]:
        ctx.sample(dict(case=c[:700], go=(go.get(lib.case_id(c)) or '')[:300]))
    ctx.oblige('correspondence: PartialPolicy residual and outcomes = model on %d cases' % (len(pcases) + len(scases)), 'correspondence', not mism)
    lib.epilogue(ctx)
