"""C18 — streaming decode is chunking-invariant and source positions are exact.
Theorems: Properties/C18.v (the scanner's refill loop refines sequential UTF-8 decoding of the byte stream for every read
schedule).  Direct oracle: cedar.NewDecoder over scripted readers (1-byte, random sizes, zero-length reads, data together with
EOF, failure at a byte position) vs NewPolicyListFromBytes on the whole slice; positions vs positions computed by the generator."""
import lib
import gen
import sx
import render
from gen import S
import props.c07 as c07
import props.c10 as c10

FILL = ['\n', ' ', '\r\n', '\t', '// plain\n', '// é ü 日本 \U0001f600\n', '/* block\n é */', '/**/', '   ', '\n\n', '/* \U0001f600\U0001f600 */\r\n']


def build_doc(r, pols, pad_to=None):
    """returns (bytes, [expected (offset, line, col)])"""
    out = bytearray()
    pos = []
    for i, t in enumerate(pols):
        for _ in range(r.randrange(0, 4)):
            out += r.choice(FILL).encode()
        if pad_to is not None and i == len(pols) // 2:
            want = pad_to - len(out)
            if want > 6:
                out += b'//' + b'x' * (want - 3) + b'\n'
        tb = t.encode()
        off = len(out)
        before = bytes(out)
        line = 1 + before.count(b'\n')
        last_nl = before.rfind(b'\n')
        col = 1 + len(before[last_nl + 1:].decode('utf-8'))
        pos.append((off, line, col))
        out += tb
    for _ in range(r.randrange(0, 3)):
        out += r.choice(FILL).encode()
    return bytes(out), pos


def run(ctx):
    b = lib.standard_build(ctx, theorems=False)   # no Coq theorem for this property yet: see MANIFEST level
    if not lib.require_builds(ctx, b):
        return
    r = ctx.rng
    quick = ctx.tier == 'quick'
    pg = c07.PGen(r)
    texts = list(c10.POLICY_TEXTS)
    for _ in range(40):
        p = pg.policy(r.choice([1, 2, 3]))
        texts.append(render.render_policy(p, 'min', r, r.choice(['space', 'wild', 'tight'])))
    # long string / long comment policies so that tokens straddle several buffers
    texts.append('permit(principal,action,resource) when { "' + 'é' * 700 + 'x' * 900 + '" == "" };')
    texts.append('forbid(principal,action,resource) when { ' + 'context.' + 'a' * 1500 + ' };')
    FILL.append('/* ' + '日' * 800 + ' */')
    cases = []
    meta = {}
    n = 0
    ndocs = 40 if quick else 600
    for d in range(ndocs):
        k = r.randrange(1, 8)
        pols = [r.choice(texts) for _ in range(k)]
        pad = r.choice([None, 1024 - r.randrange(0, 12), 2048 - r.randrange(0, 12), 1024 + r.randrange(0, 5), 3072 - r.randrange(0, 8)])
        doc, pos = build_doc(r, pols, pad)
        bad_kind = None
        if d % 10 == 7:
            # a malformed document: whole and streaming must report the same error
            cut = r.randrange(1, len(doc))
            doc = doc[:cut] + r.choice([b'\x00', b'\xff', b'"', b'\xe6\x97', b'/*', b'@']) + doc[cut:]
            bad_kind = 'malformed'
        scheds = [[1], [2], [3], [5], [7], [1023], [1024], [1025], [4096], [0, 1], [1, 0, 0, 3], [r.randrange(1, 50) for _ in range(20)],
                  [r.choice([0, 1, 2, 3, 4, 1020, 1024, 1030]) for _ in range(12)] + [1]]
        for sc in (scheds if not quick else r.sample(scheds, 6) + [[1]]):
            for ewd in (0, 1):
                n += 1
                c = '(case s%d stream x%s (sizes %s) (failat none) (eofwithdata %d))' % (n, doc.hex(), ' '.join(map(str, sc)), ewd)
                cases.append(c)
                meta[lib.case_id(c)] = dict(pos=pos, fail=None, bad=bad_kind, n=len(pols))
        # reader failure at several byte positions
        fails = sorted({0, 1, len(doc) - 1, len(doc) // 2} | {r.randrange(0, len(doc)) for _ in range(6 if quick else 40)})
        for f in fails:
            n += 1
            sc = r.choice(scheds)
            c = '(case s%d stream x%s (sizes %s) (failat %d) (eofwithdata %d))' % (n, doc.hex(), ' '.join(map(str, sc)), f, r.randrange(2))
            cases.append(c)
            meta[lib.case_id(c)] = dict(pos=pos, fail=f, bad=bad_kind, n=len(pols))
    ctx.rule = ('documents of 1-7 policies (hand-written + reference-rendered with comments, CRLF, multi-byte text, 1.6 kB strings and 2.4 kB comments, '
                'padding that puts tokens / runes / comments across the 1024, 2048 and 3072 byte buffer boundaries; 10%% malformed) x reader schedules '
                '(1,2,3,5,7 bytes; 1023/1024/1025; zero-length reads interleaved; random sizes) x data-with-EOF x reader failure at 10+ byte positions. '
                'Checked: stream result = whole-slice result incl. positions or the same error text; failure => error; positions = generator-computed '
                '(byte offset, line, column in characters). non-trivial = the document is longer than the 1024-byte buffer')
    go = lib.run_go(cases, 'stream', ctx.workdir, timeout_ms=60000)
    bad = 0
    for c in cases:
        cid = lib.case_id(c)
        m = meta[cid]
        res = go.get(cid, '(missing)')
        ctx.count(c[:6000], len(c) > 2300)
        msg = None
        try:
            t = sx.parse(res)
            whole, stream = t[0][1], t[1][1]
        except Exception:
            msg = 'unexpected result ' + res[:200]
            whole = stream = None
        if msg is None:
            if m['fail'] is not None:
                if stream[0] == 'policies':
                    msg = 'reader failed at byte %d but the decoder returned %d policies and no error' % (m['fail'], len(stream) - 1)
            else:
                def normerr(x):
                    if x[0] in ('error', 'reader-error'):
                        t = sx.unS(x[1]).decode('utf-8', 'replace')
                        if t.startswith('parser error: '):
                            t = t[len('parser error: '):]
                        return ['error', t]
                    return x
                whole, stream = normerr(whole), normerr(stream)
                if sx.dump(whole) != sx.dump(stream):
                    msg = 'streaming result differs from whole-slice result: whole=%s stream=%s' % (sx.dump(whole)[:200], sx.dump(stream)[:200])
                elif whole[0] == 'policies' and m['bad'] is None:
                    got = [(int(p[1]), int(p[2]), int(p[3])) for p in whole[1:]]
                    if got != m['pos']:
                        msg = 'positions differ: got %s expected %s' % (got[:8], m['pos'][:8])
                elif whole[0] != 'policies' and m['bad'] is None:
                    msg = 'a valid document was rejected: ' + sx.dump(whole)[:200]
        if msg:
            bad += 1
            if bad <= 6:
                ctx.violation(msg, dict(kind='case', case=c[:30000], go=res[:3000]))
    ctx.oblige('direct oracle: streaming = whole slice, reader failure => error, positions exact (%d runs)' % len(cases), 'oracle', bad == 0)
    for c in cases[:2]:
        ctx.sample(dict(case=c[:200] + ' ... ' + c[-80:], go=(go.get(lib.case_id(c)) or '')[:200]))
    lib.epilogue(ctx)
