"""C18 — streaming decode is chunking-invariant and source positions are exact.
Theorems: Properties/C18.v (the scanner's refill loop refines sequential UTF-8 decoding of the byte stream for every read
schedule).  Direct oracle: cedar.NewDecoder over scripted readers (1-byte, random sizes, zero-length reads, data together with
EOF, failure at a byte position) vs NewPolicyListFromBytes on the whole slice; positions vs positions computed by the generator."""
import lib
import gen
import sx
import render
from gen import S
import props.c07 as c07
import props.c10 as c10

FILL = ['\n', ' ', '\r\n', '\t', '// plain\n', '// é ü 日本 \U0001f600\n', '/* block\n é */', '/**/', '/***/', '/* a **/', '/**** b ****/', '/*/ ** /* ***/', '   ', '\n\n', '/* \U0001f600\U0001f600 */\r\n']


def build_doc(r, pols, pad_to=None):
    """returns (bytes, [expected (offset, line, col)])"""
    out = bytearray()
    pos = []
    for i, t in enumerate(pols):
        for _ in range(r.randrange(0, 4)):
            out += r.choice(FILL).encode()
        if pad_to is not None and i == len(pols) // 2:
            want = pad_to - len(out)
            if want > 6:
                out += b'//' + b'x' * (want - 3) + b'\n'
        tb = t.encode()
        off = len(out)
        before = bytes(out)
        line = 1 + before.count(b'\n')
        last_nl = before.rfind(b'\n')
        col = 1 + len(before[last_nl + 1:].decode('utf-8'))
        pos.append((off, line, col))
        out += tb
    for _ in range(r.randrange(0, 3)):
        out += r.choice(FILL).encode()
    return bytes(out), pos


LEX = ['permit', 'forbid', 'when', 'unless', 'principal', 'action', 'resource', 'context', 'true', 'false', 'if', 'then', 'else', 'in', 'like', 'has', 'is',
       # identifiers that END in (or are made of) reserved words: wherever a chunk boundary falls, the token is what the whole text says
       'admin', 'within', 'login', 'origin', 'skin', 'iffy', 'elsewhen', 'thenelse', 'ifthenelse', 'truefalse', 'notin', 'principalin', 'likehas', 'hasis', 'isin',
       '__cedar', '_a1', 'A', 'z9_', '0', '7', '123456789012345678901234567890', '==', '!=', '<=', '>=', '<', '>', '&&', '||', '!', '::', ':', '.', ',', ';',
       '(', ')', '{', '}', '[', ']', '+', '-', '*', '@', '/', '=', '|', '&', '%', '#', '~', '?', '"a"', '""', '"\\n\\t\\\\\\0\\\'\\"\\*"', '"\\x41\\x7f"', '"\\u{e9}"',
       '"\\u{1F600}"', '"\\u{0000061}"', '"\\u{}"', '"\\x4"', '"\\q"', '"\\u{110000}"', '"é日\U0001f600"', '"unterminated', '"a\nb"', '// c\n', '//\n', '/**/',
       '/* a\n b */', '/* é */', '/***/', '/* x **/', '/*/ ** ****/', '/** y ***/', '/* unterminated', '/*/', 'é', '日', '\U0001f600', ' ', '\n', '\r\n', '\t', '\r']
BADBYTES = [b'\x00', b'\xff', b'\xc0\x80', b'\xe6\x97', b'\xf0\x9f\x98', b'\x80', b'\xed\xa0\x80', b'\xf4\x90\x80\x80', b'\xe6']


BADLEX = [t for t in LEX if t in ('"\\u{}"', '"\\x4"', '"\\q"', '"unterminated', '"a\nb"', '/* unterminated', '/*/')]
GOODLEX = [t for t in LEX if t not in BADLEX]


def lex_doc(r, size, bad):
    out = bytearray()
    while len(out) < size:
        k = r.random()
        if k < 0.03:
            out += (r.choice('abcxyz_') * r.randrange(1, 1500)).encode()          # a very long identifier
        elif k < 0.05:
            out += ('"' + r.choice(['é', 'a', '日', '\\n', '\U0001f600']) * r.randrange(1, 700) + '"').encode()
        elif k < 0.07:
            out += ('/* ' + r.choice(['é', 'a', '*', '日']) * r.randrange(1, 900) + ' */').encode()
        elif bad and k < 0.073:
            out += r.choice(BADBYTES) if r.random() < 0.5 else r.choice(BADLEX).encode()
        elif k < 0.1:
            # comments are scanned (and validated) like everything else: line and block comments, with non-ASCII text, sometimes unterminated
            body = ''.join(r.choice(['a', ' ', 'é', '日', '/', '*', '"', "\\"]) for _ in range(r.choice([0, 3, 30, 300, 1100]))).encode()
            if bad and r.random() < 0.5:
                i = r.randrange(0, len(body) + 1)
                body = body[:i] + r.choice(BADBYTES) + body[i:]
            out += (b'//' + body.replace(b'\n', b' ') + (b'\n' if r.random() < 0.9 else b'')) if r.random() < 0.6 else (b'/*' + body.replace(b'*/', b'* ') + b'*/')
        else:
            out += r.choice(GOODLEX).encode()
        if r.random() < 0.6:
            out += r.choice([b' ', b' ', b'\n', b'\t', b''])
    return bytes(out)


def token_cases(ctx, docs):
    r = ctx.rng
    quick = ctx.tier == 'quick'
    cases = []
    n = 0
    srcs = list(docs)
    for i in range(30 if quick else 500):
        size = r.choice([5, 40, 300, 1000, 1024, 1030, 2047, 2100, 3080])
        srcs.append(lex_doc(r, size, bad=(i % 4 == 3)))
    # an invalid byte inside a comment, the comment placed before, across and after the first buffer boundary
    for badb in BADBYTES:
        for pad in (0, 990, 1019, 1030):
            for cm in (b'// caf' + badb + b' x\n', b'/* caf' + badb + b' x */', b'//' + badb + b'\n', b'// ok\n//' + b'y' * 40 + badb):
                srcs.append(b' ' * pad + b'permit(principal,action,resource);' + cm + b'forbid(principal,action,resource);')
    for doc in srcs:
        L = len(doc)
        scheds = [[], [(1, 0)] * (L + 2), [(r.choice([0, 1, 2, 3, 5, 7]), 0) for _ in range(60)], [(r.choice([1020, 1021, 1022, 1023, 1024, 4000, 0]), 0) for _ in range(8)],
                  [(r.randrange(0, 40), 0) for _ in range(30)]]
        for sc in (scheds if not quick else [scheds[0]] + r.sample(scheds[1:], 2)):
            n += 1
            cases.append('(case k%d tokens x%s (sched %s) (ewd %d))' % (n, doc.hex(), ' '.join('(%d %d)' % s for s in sc), r.randrange(2)))
        # reader failures
        for _ in range(2 if quick else 6):
            n += 1
            sc = [(r.choice([1, 3, 100, 1024]), 0) for _ in range(r.randrange(0, 6))] + [(r.choice([0, 1, 7, 2000]), 1)] + [(r.choice([1, 50]), 0) for _ in range(r.randrange(0, 3))]
            cases.append('(case k%d tokens x%s (sched %s) (ewd %d) (mode %s))' % (n, doc.hex(), ' '.join('(%d %d)' % s for s in sc), r.randrange(2),
                                                                                  r.choice(['sticky', 'once', 'oncedata'])))
    return cases


def run(ctx):
    b = lib.standard_build(ctx)
    if not lib.require_builds(ctx, b):
        return
    r = ctx.rng
    quick = ctx.tier == 'quick'
    pg = c07.PGen(r)
    texts = list(c10.POLICY_TEXTS)
    for _ in range(40):
        p = pg.policy(r.choice([1, 2, 3]))
        texts.append(render.render_policy(p, 'min', r, r.choice(['space', 'wild', 'tight'])))
    # long string / long comment policies so that tokens straddle several buffers
    texts.append('permit(principal,action,resource) when { "' + 'é' * 700 + 'x' * 900 + '" == "" };')
    texts.append('forbid(principal,action,resource) when { ' + 'context.' + 'a' * 1500 + ' };')
    FILL.append('/* ' + '日' * 800 + ' */')
    cases = []
    docs = []
    meta = {}
    n = 0
    ndocs = 40 if quick else 600
    for d in range(ndocs):
        k = r.randrange(1, 8)
        pols = [r.choice(texts) for _ in range(k)]
        pad = r.choice([None, 1024 - r.randrange(0, 12), 2048 - r.randrange(0, 12), 1024 + r.randrange(0, 5), 3072 - r.randrange(0, 8)])
        doc, pos = build_doc(r, pols, pad)
        if d % 3 == 0:
            docs.append(doc)
        bad_kind = None
        if d % 10 == 7:
            # a malformed document: whole and streaming must report the same error
            cut = r.randrange(1, len(doc))
            doc = doc[:cut] + r.choice([b'\x00', b'\xff', b'"', b'\xe6\x97', b'/*', b'@']) + doc[cut:]
            bad_kind = 'malformed'
        scheds = [[1], [2], [3], [5], [7], [1023], [1024], [1025], [4096], [0, 1], [1, 0, 0, 3], [r.randrange(1, 50) for _ in range(20)],
                  [r.choice([0, 1, 2, 3, 4, 1020, 1024, 1030]) for _ in range(12)] + [1]]
        for sc in (scheds if not quick else r.sample(scheds, 6) + [[1]]):
            for ewd in (0, 1):
                n += 1
                c = '(case s%d stream x%s (sizes %s) (failat none) (eofwithdata %d))' % (n, doc.hex(), ' '.join(map(str, sc)), ewd)
                cases.append(c)
                meta[lib.case_id(c)] = dict(pos=pos, fail=None, bad=bad_kind, n=len(pols))
        # reader failure at several byte positions
        # failure positions: start, end, middle, random, and every policy boundary (where a truncated prefix is itself a valid document)
        fails = sorted({0, 1, len(doc) - 1, len(doc) // 2} | {r.randrange(0, len(doc)) for _ in range(6 if quick else 40)}
                       | {o for (o, _, _) in pos[1:]} | {o - 1 for (o, _, _) in pos[1:] if o > 0})
        for f in fails:
            n += 1
            sc = r.choice(scheds)
            c = '(case s%d stream x%s (sizes %s) (failat %d) (eofwithdata %d) (failonce %d))' % (n, doc.hex(), ' '.join(map(str, sc)), f, r.randrange(2), r.randrange(2))
            cases.append(c)
            meta[lib.case_id(c)] = dict(pos=pos, fail=f, bad=bad_kind, n=len(pols))
    ctx.rule = ('documents of 1-7 policies (hand-written + reference-rendered with comments, CRLF, multi-byte text, 1.6 kB strings and 2.4 kB comments, '
                'padding that puts tokens / runes / comments across the 1024, 2048 and 3072 byte buffer boundaries; 10%% malformed) x reader schedules '
                '(1,2,3,5,7 bytes; 1023/1024/1025; zero-length reads interleaved; random sizes) x data-with-EOF x reader failure at 10+ byte positions. '
                'Checked: stream result = whole-slice result incl. positions or the same error text; failure => error; positions = generator-computed '
                '(byte offset, line, column in characters). non-trivial = the document is longer than the 1024-byte buffer')
    go = lib.run_go(cases, 'stream', ctx.workdir, timeout_ms=60000)
    bad = 0
    for c in cases:
        cid = lib.case_id(c)
        m = meta[cid]
        res = go.get(cid, '(missing)')
        ctx.count(c[:6000], len(c) > 2300)
        msg = None
        try:
            t = sx.parse(res)
            whole, stream = t[0][1], t[1][1]
        except Exception:
            msg = 'unexpected result ' + res[:200]
            whole = stream = None
        if msg is None:
            if m['fail'] is not None:
                if stream[0] == 'policies':
                    msg = 'reader failed at byte %d but the decoder returned %d policies and no error' % (m['fail'], len(stream) - 1)
            else:
                def normerr(x):
                    if x[0] in ('error', 'reader-error'):
                        t = sx.unS(x[1]).decode('utf-8', 'replace')
                        if t.startswith('parser error: '):
                            t = t[len('parser error: '):]
                        return ['error', t]
                    return x
                whole, stream = normerr(whole), normerr(stream)
                if sx.dump(whole) != sx.dump(stream):
                    msg = 'streaming result differs from whole-slice result: whole=%s stream=%s' % (sx.dump(whole)[:200], sx.dump(stream)[:200])
                elif whole[0] == 'policies' and m['bad'] is None:
                    got = [(int(p[1]), int(p[2]), int(p[3])) for p in whole[1:]]
                    if got != m['pos']:
                        msg = 'positions differ: got %s expected %s' % (got[:8], m['pos'][:8])
                elif whole[0] != 'policies' and m['bad'] is None:
                    msg = 'a valid document was rejected: ' + sx.dump(whole)[:200]
        if msg:
            bad += 1
            if bad <= 6:
                ctx.violation(msg, dict(kind='case', case=c[:30000], go=res[:3000]))
    tcases = token_cases(ctx, docs)
    go_t, mo_t, mism = lib.differential(ctx, tcases, 'tokens', shards=16, nontrivial=lambda c, g: len(c) > 2300,
                                        describe='tokenizer (type, offset, line, column, text of every token, or error): Go and the Coq scanner model disagree')
    ctx.oblige('correspondence: internal/parser tokenizer = Impl.Tokenizer over Impl.Scanner (bufLen 1024) = Lang.Cursor spec tokenizer, on %d (document, read schedule) pairs'
               % len(tcases), 'correspondence', not mism)
    ctx.extra['token_results'] = {k: sum(1 for v in go_t.values() if v.startswith(k)) for k in ('(ok', '(error')}
    ctx.oblige('direct oracle: streaming = whole slice, reader failure => error, positions exact (%d runs)' % len(cases), 'oracle', bad == 0)
    for c in cases[:2]:
        ctx.sample(dict(case=c[:200] + ' ... ' + c[-80:], go=(go.get(lib.case_id(c)) or '')[:200]))
    lib.epilogue(ctx)
