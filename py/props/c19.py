"""C19 — shared policies and entities: race-free concurrent reads, inputs never mutated.
What a theorem can carry (Properties/C19.v): the read-only operations of the MODEL are pure functions of their inputs, and the
model of fold / partial / batch builds new terms instead of updating its arguments.  The race half is runtime behaviour of the Go
memory model, which no Gallina model can exhibit: it is explored here under the race detector (go build -race) with N goroutines
sharing one policy set, entity map, batch template and values, over one common and several per-goroutine requests; every result is compared with the sequential one and the
inputs are snapshotted before and after."""
import lib
import gen
import sx
from gen import S, case
import props.c06 as c06


def stateful_policies():
    C = ['var', 'context']
    acc = lambda k: ['access', C, S(k)]
    call = lambda f, *a: ['call', S(f)] + list(a)
    bodies = [call('isIpv4', call('ip', acc('ip'))), call('isInRange', call('ip', acc('ip')), call('ip', acc('net'))),
              call('lessThan', call('decimal', acc('dec')), call('decimal', acc('dec2'))), ['lt', call('datetime', acc('dt')), call('datetime', acc('dt2'))],
              ['lt', call('duration', acc('dur')), call('toTime', call('datetime', acc('dt')))], ['like', acc('ip'), ['pat', S('10.'), ['w']]],
              ['contains', acc('set'), acc('n')], ['in', ['var', 'principal'], acc('ents')], ['has', C, S('ip')],
              ['eq', ['mkrec', [S('a'), acc('n')]], ['mkrec', [S('a'), gen.lit(gen.vlong(1))]]], ['gt', ['add', acc('n'), acc('n')], gen.lit(gen.vlong(2))]]
    return [['policy', S('st%d' % i), 'permit' if i % 3 else 'forbid', ['all'], ['all'], ['all'], ['conds', ['when', b]]] for i, b in enumerate(bodies)]


def stateful_context(r):
    return gen.vrec([('ip', gen.vstr(r.choice(['10.0.0.1', '192.168.1.1', '::1', '10.1.2.3', 'bad']))), ('net', gen.vstr(r.choice(['10.0.0.0/8', '192.168.0.0/16', '::/0']))),
                     ('dec', gen.vstr(r.choice(['1.5', '2.25', '-1.0', 'x']))), ('dec2', gen.vstr(r.choice(['1.5', '3.0']))),
                     ('dt', gen.vstr(r.choice(['2024-01-01', '1999-12-31T23:59:59Z', '2024-01-01T01:00:00Z']))), ('dt2', gen.vstr(r.choice(['2024-01-01', '2000-01-01']))),
                     ('dur', gen.vstr(r.choice(['1h', '2h', '30m', '-1d']))), ('set', gen.vset([gen.vlong(z) for z in r.sample([1, 2, 3, 4], 2)])),
                     ('n', gen.vlong(r.choice([1, 2, 3]))), ('ents', gen.vset([gen.vent('User', x) for x in r.sample(['a', 'b', 'c'], 2)]))])


def run(ctx):
    b = lib.standard_build(ctx, need_model=False, theorems=False)
    okr, rlog = lib.build_harness(race=True)
    ctx.oblige('go: harness builds with the race detector (-race -tags verif)', 'build', okr, '' if okr else rlog[-2000:])
    if not (b.get('harness') and okr):
        ctx.violation('build failed: ' + '; '.join(o['name'] for o in ctx.broken_obligations()),
                      dict(kind='build', obligations=ctx.broken_obligations()), found_input=False)
        return
    r = ctx.rng
    quick = ctx.tier == 'quick'
    g = gen.Gen(r, wf_calls=True)
    cases = []
    for i in range(60 if quick else 2500):
        if i % 2 == 0:
            store, req = g.store(), g.request()
            pols = [g.policy('p%d' % k, depth=r.choice([1, 2, 3])) for k in range(r.randrange(1, 6))]
            tmpl = ['req', c06.var('p'), req[2], req[3], req[4]]
            # value lists in no particular order (never pre-sorted): the batch authorizer must leave the caller's slices as they are
            vars_ = ['vars', [S('p')] + r.sample([gen.vent('User', 'zz'), req[1], gen.vent('User', 'b'), gen.vent('User', 'a'), gen.vent('Doc', 'm')], r.randrange(2, 6))]
        else:
            store = c06.STORE
            p, a, res, cx, ignored = c06.gen_template(r)
            names = set()
            for part in (p, a, res, cx):
                c06.vars_of(part, names)
            vars_ = ['vars'] + [[S(nm)] + ([gen.vrec([('flag', gen.vbool(True)), ('n', gen.vlong(1))])] if nm == 'c' else list(reversed(c06.VALUES[nm][:3])) if r.random() < 0.5 else c06.VALUES[nm][:2]) for nm in sorted(names)]
            tmpl = ['req', p, a, res, cx]
            req = ['req', c06.UA, c06.ACT, c06.DOC, gen.vrec([('flag', gen.vbool(True)), ('n', gen.vlong(1)), ('l', gen.vset([gen.vlong(1)]))])]
            pols = [['policy', S('p%d' % k), r.choice(['permit', 'forbid']), c06.scope_for(r, 'principal'), c06.scope_for(r, 'action'),
                     c06.scope_for(r, 'resource'), ['conds'] + [[r.choice(['when', 'unless']), c06.bool_expr(r, 2)] for _ in range(r.randrange(0, 3))]]
                    for k in range(r.randrange(1, 5))]
        reqs = ['reqs']
        if i % 2 == 0:
            reqs += [g.request() for _ in range(5)]
            if i % 4 == 0:
                # evaluators of constructors and operators over NON-constant operands (these survive constant folding), fed different strings
                pols = pols + stateful_policies()
                reqs = ['reqs'] + [['req', req[1], req[2], req[3], stateful_context(r)] for _ in range(6)]
        cases.append(case('c%d' % i, 'concurrent', store, req, ['policies'] + pols, tmpl, vars_, str(r.choice([4, 8, 16])), reqs))
    # validation is a read-only operation too: shared validators, policies parsed from text, schemas with action groups
    import schemagen
    vcases = []
    for i in range(40 if quick else 1500):
        sch = schemagen.Schema(r)
        pols = [sch.policy(r.choice([1, 2])) for _ in range(3)] + [sch.hazard_policy() for _ in range(2)]
        # action scopes `in [..]` with 1-7 listed actions (the parser leaves spare capacity for 3, 5, 6, 7), groups included
        acts = sorted(sch.actions) + (['grp'] if sch.group else [])
        for k in (1, 2, 3, 5, 6, 7):
            lst = ', '.join('Action::"%s"' % r.choice(acts) for _ in range(k))
            pols.append(S('permit(principal, action in [%s], resource);' % lst))
            pols.append(S('forbid(principal, action in [%s], resource) when { principal == resource };' % lst))
        vcases.append(case('v%d' % i, 'concurrent-validate', S(sch.text()), ['policies'] + pols, sch.store(), sch.request(), str(r.choice([4, 8, 16]))))
    cases += vcases
    # containers that hold nothing yet (zero values, the set returned beside a parse error, nil maps): a fresh batch per round
    zcases = [case('z%d' % i, 'concurrent-zero', str(w), str(30 if quick else 300)) for i, w in enumerate([2, 4, 8, 16])]
    cases += zcases
    ctx.rule = ('shared policy set (1-5 random or partial-evaluation-heavy policies), entity map, request, batch template with variables and '
                'value lists; 4-16 goroutines each doing 6 rounds of authorize / batch authorize / MarshalCedar / MarshalJSON / entity-map and value '
                'accessors / policy inspection on the shared objects under the race detector; results compared with the sequential run, inputs '
                'snapshotted before and after (text, JSON, raw AST, and structurally with every slice extended to its capacity). Plus %d validation scenarios: '
                'shared strict and permissive validators over generated schemas (action groups), policies parsed from text incl. action-in-list scopes of '
                '1-7 entries, entity store and request; verdicts compared with the sequential ones. Plus zero-value containers (zero PolicySet, the set returned beside a parse error, nil EntityMap, zero Record / Set / Request) used read-only by 2-16 goroutines, fresh objects every round, compared with copies taken before. non-trivial = at least two policies' % len(vcases))
    go = lib.run_go(cases, 'concurrent', ctx.workdir, timeout_ms=120000, shards=4, binary=lib.HARNESS_RACE)
    bad = 0
    for c in cases:
        res = go.get(lib.case_id(c), '(missing)')
        ctx.count(c[:3000], c.count('(policy ') >= 2)
        if res == '(ok)':
            continue
        bad += 1
        if bad <= 5:
            ctx.violation('concurrent read-only use is not safe: ' + res[:1500], dict(kind='case', case=c, go=res[:4000]))
    ctx.oblige('runtime oracle: no data race, every concurrent result = sequential result, inputs unchanged (%d scenarios)' % len(cases), 'oracle', bad == 0)
    ctx.level = 'exploration'
    for c in cases[:2]:
        ctx.sample(dict(case=c[:400], go=go.get(lib.case_id(c))))
    lib.epilogue(ctx)
