"""C05 — batch authorization equals brute-force authorization of every substitution.
Theorems: Properties/C05.v.  Correspondence: batch.Authorize's callback results vs the model of doBatch; direct oracle
(Go vs Go): the same results as cedar.Authorize on every element of the Cartesian product, once each; stop-on-failure and
cancellation at every position."""
import lib
import gen
import sx
from gen import S, case, lit
import props.c06 as c06

IGN = c06.IGN_T.encode().hex()
UAv = c06.UA


def gen_case(r, cid, mode_kind):
    p, a, res, ctx, ignored = c06.gen_template(r)
    names = set()
    for part in (p, a, res, ctx):
        c06.vars_of(part, names)
    names = sorted(names)
    vars_ = []
    for nm in names:
        if nm == 'c':
            pool = [gen.vrec([('flag', gen.vbool(True)), ('n', gen.vlong(1))]),
                    gen.vrec([('flag', gen.vbool(False)), ('n', gen.vlong(2)), ('l', gen.vset([gen.vlong(1)])),
                              ('r', gen.vrec([('x', gen.vlong(1)), ('y', gen.vlong(5))])), ('who', c06.UA)])]
        else:
            pool = list(c06.VALUES[nm])
        k = r.choice([1, 2, 2, 3])
        vals = [r.choice(pool) for _ in range(k)]      # duplicates allowed on purpose
        if nm in ('p', 'r', 'a', 'c') and mode_kind == 'none' and r.random() < 0.06:     # (with a failing callback / cancellation the first of two errors depends on the enumeration order)
            vals[r.randrange(len(vals))] = r.choice([gen.vlong(1), gen.vstr('s'), gen.vset([]), gen.vrec([]), UAv])      # a value of the wrong kind for that request part: `invalid part`
        if r.random() < 0.04:
            vals = []
        vars_.append([S(nm)] + vals)
    if r.random() < 0.03:
        vars_.append([S('unused'), gen.vlong(1)])
    if r.random() < 0.03 and vars_:
        vars_.pop()
    npol = r.choice([1, 2, 3, 4])
    pols = []
    for i in range(npol):
        conds = [[r.choice(['when', 'when', 'unless']), c06.bool_expr(r, r.choice([0, 1, 2]))] for _ in range(r.choice([0, 1, 1, 2]))]
        pols.append(['policy', S('p%d' % i), r.choice(['permit', 'permit', 'forbid']), c06.scope_for(r, 'principal'),
                     c06.scope_for(r, 'action'), c06.scope_for(r, 'resource'), ['conds'] + conds])
    total = 1
    for v in vars_:
        total *= max(0, len(v) - 1)
    if mode_kind == 'none' or total == 0:
        mode = ['mode', 'none']
    else:
        mode = ['mode', mode_kind, str(r.randrange(0, total + 1))]
    tmpl = ['req', p, a, res, ctx]
    has_ign = bool(ignored) or (IGN in sx.dump(ctx))
    return case('b%d' % cid, 'batch', c06.STORE, tmpl, ['vars'] + vars_, ['policies'] + pols, mode), dict(ignore=has_ign, total=total, mode=mode)


def project_common(res):
    """status, calls and (for mode none) the result set; drops the brute-force part that only Go produces"""
    try:
        t = sx.canon(sx.parse(res))
    except Exception:
        return res
    if not isinstance(t, list) or not t or not isinstance(t[0], list):
        return res
    d = {x[0]: x for x in t if isinstance(x, list) and x}
    for k in ('results', 'brute'):
        if k in d:
            d[k] = [k] + sorted(d[k][1:], key=sx.dump)
    return d


def run(ctx):
    b = lib.standard_build(ctx)
    if not lib.require_builds(ctx, b):
        return
    r = ctx.rng
    n = 2500 if ctx.tier == 'quick' else 60000
    cases, metas = [], {}
    for i in range(n):
        kind = 'none' if i % 5 < 3 else ('failat' if i % 5 == 3 else ('cancelat' if i % 10 == 4 else 'expireat'))
        c, meta = gen_case(r, i, kind)
        cases.append(c)
        metas[lib.case_id(c)] = meta
    # presence tests on request parts that become known one binding at a time - the zero uid among the values (a legal part in the Go API) - while
    # another variable keeps the policy residual
    Z = gen.vent('', '')
    Pv, Rv, Cn = ['var', 'principal'], ['var', 'resource'], ['access', ['var', 'context'], S('n')]
    one = lit(gen.vlong(1))
    tcond = [['has', Pv, S('n')], ['has', Pv, S('name')], ['has', Rv, S('owner')], ['has', lit(Z), S('n')], ['hasTag', Pv, lit(gen.vstr('k'))]]
    ti = 0
    for h in tcond:
        for body in (['and', h, ['eq', Cn, one]], ['or', h, ['eq', Cn, one]], ['and', ['not', h], ['eq', Cn, one]], ['if', h, ['eq', Cn, one], ['ne', Cn, one]]):
            for kind in ('when', 'unless'):
                for eff in ('permit', 'forbid'):
                    ti += 1
                    pols = [['policy', S('p0'), eff, ['all'], ['all'], ['all'], ['conds', [kind, body]]],
                            ['policy', S('p1'), 'permit', ['all'], ['all'], ['all'], ['conds']]]
                    tmpl = ['req', c06.var('p'), c06.ACT, c06.var('r'), gen.vrec([('n', c06.var('n'))])]
                    vars_ = [[S('p'), Z, c06.UA, c06.UB][:r.choice([3, 4])], [S('r'), c06.DOC, Z], [S('n'), gen.vlong(1), gen.vlong(2), gen.vlong(3)]]
                    c = case('bz%d' % ti, 'batch', c06.STORE, tmpl, ['vars'] + vars_, ['policies'] + pols, ['mode', 'none'])
                    cases.append(c)
                    metas[lib.case_id(c)] = dict(ignore=False, total=1, mode=['mode', 'none'])
    ctx.rule = ('random policy sets (1-4 policies over the C06 atom language) x request templates with variables in principal / resource / '
                'whole context / nested in context records, sets and sub-records, the same variable several times, ignored parts x value '
                'lists of length 0-3 with duplicates, unused and unbound variables; 60%% plain runs, 20%% callback failure (a plain error, or one that wraps the end of another context) at a random '
                'position, 20%% context cancellation (half by cancel(), half by an expiring deadline) at a random position. Compared: (a) status, number of callbacks and the multiset of '
                '(request, values, decision, reason ids) Go = model; (b) Go batch results = cedar.Authorize on every substitution (brute force '
                'inside the harness); (c) failure/cancellation stops after exactly k+1 / k callbacks with that error. '
                'non-trivial = at least two callbacks')
    go = lib.run_go(cases, 'batch', ctx.workdir)
    mo = lib.run_model(cases, 'batch', ctx.workdir)
    mism = 0
    bad = 0
    for c in cases:
        cid = lib.case_id(c)
        meta = metas[cid]
        g = project_common(go.get(cid, '(missing)'))
        m = project_common(mo.get(cid, '(missing)'))
        if not isinstance(g, dict) or not isinstance(m, dict):
            mism += 1
            if mism <= 5:
                ctx.violation('batch: unexpected result go=%s model=%s' % (str(go.get(cid))[:200], str(mo.get(cid))[:200]),
                              dict(kind='case', case=c, go=go.get(cid), model=mo.get(cid)))
            continue
        ncalls = int(g['calls'][1])
        ctx.count(c.split(' ', 2)[2], ncalls >= 2)
        plain = meta['mode'][1] == 'none'
        # (a) model vs code
        same = sx.dump(g['status']) == sx.dump(m['status']) and sx.dump(g['calls']) == sx.dump(m['calls'])
        invalid = g['status'][1] == 'invalid' and m['status'][1] == 'invalid'
        if invalid:
            # how many callbacks precede the invalid substitution depends on the enumeration order of the variables, which Go takes from a
            # map (ties between value lists of equal length): only the verdict is compared
            same = True
        if plain and same and not invalid:
            same = sx.dump(g['results']) == sx.dump(m['results'])
        if not same:
            mism += 1
            if mism <= 5:
                ctx.violation('batch.Authorize disagrees with the model of doBatch: go=%s model=%s' % (sx.dump([g['status'], g['calls']]), sx.dump([m['status'], m['calls']])),
                              dict(kind='case', case=c, go=go.get(cid), model=mo.get(cid)))
        # (b), (c) direct oracle on the Go side
        status = g['status'][1]
        msg = None
        if plain and status == 'ok' and not meta['ignore'] and g['brute-status'][1] == 'ok':
            if sx.dump(g['results'][1:]) != sx.dump(g['brute'][1:]):
                msg = 'batch results differ from brute-force authorization'
        if plain and status == 'ok' and g['brute-status'][1] == 'ok' and ncalls != len(g['brute']) - 1:
            msg = 'callback invoked %d times for %d substitutions' % (ncalls, len(g['brute']) - 1)
        if meta['mode'][1] == 'failat' and status not in ('unbound', 'unused', 'invalid'):
            k = int(meta['mode'][2])
            if k < meta['total'] and (status != 'callback' or ncalls != k + 1):
                msg = 'callback failed at position %d but status=%s after %d callbacks' % (k, status, ncalls)
        if meta['mode'][1] in ('cancelat', 'expireat') and status not in ('unbound', 'unused', 'invalid'):
            k = int(meta['mode'][2])
            if status != 'cancelled' or ncalls != k:
                msg = 'context cancelled after %d callbacks but status=%s after %d callbacks' % (k, status, ncalls)
        if msg:
            bad += 1
            if bad <= 5:
                ctx.violation(msg, dict(kind='case', case=c, go=go.get(cid)))
    ctx.oblige('direct oracle: batch = brute force over the Cartesian product; stop on failure/cancellation (%d runs)' % len(cases), 'oracle', bad == 0)
    ctx.oblige('correspondence: batch.Authorize = model do_batch on %d runs' % len(cases), 'correspondence', mism == 0)
    for c in cases[:3]:
        ctx.sample(dict(case=c[:700], go=(go.get(lib.case_id(c)) or '')[:400]))
    lib.epilogue(ctx)
