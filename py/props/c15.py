"""C15 — validated policies cannot fail with type errors.
Direct oracle: random schemas x policies typed against them (plus targeted shapes) -> validator verdict in strict and permissive
mode -> for every accepted policy, evaluation on schema-conforming stores and requests (conformance decided by the validator's own
Entities/Request checks) must not fail with a type error, unknown function, wrong arity, or missing attribute / tag."""
import lib
import gen
import sx
import schemagen
from gen import S, lit, case

FORBIDDEN = ('type', 'attr', 'tag', 'arity', 'unknownfn', 'unspecified')


def targeted(sch, r):
    """shapes that historically slipped through: mixed comparable types, colliding capability keys, tag/attr confusion, permissive LUB"""
    out = []
    P, C = ['var', 'principal'], ['var', 'context']
    acc = lambda e, k: ['access', e, S(k)]
    out.append(['lt', lit(gen.vlong(1)), ['call', S('datetime'), lit(gen.vstr('2024-01-01'))]])
    out.append(['and', ['has', acc(C, 'a.b'), S('c')], ['eq', acc(acc(acc(C, 'a'), 'b'), 'c'), lit(gen.vlong(1))]])
    out.append(['and', ['has', P, S('__tag:k')], ['eq', ['getTag', P, lit(gen.vstr('k'))], lit(gen.vstr('x'))]])
    out.append(['and', ['has', ['if', acc(C, 'flag'), ['mkrec', [S('k'), lit(gen.vlong(1))]], ['mkrec', [S('k'), lit(gen.vstr('s'))]]], S('k')],
                ['eq', ['add', lit(gen.vlong(1)), lit(gen.vstr('a'))], lit(gen.vlong(2))]])
    out.append(['and', ['hasTag', P, lit(gen.vstr('k'))], ['eq', ['getTag', P, lit(gen.vstr('t'))], lit(gen.vstr('x'))]])
    out.append(['or', ['has', P, S('age')], ['gt', acc(P, 'age'), lit(gen.vlong(1))]])
    out.append(['and', ['not', ['has', P, S('age')]], ['gt', acc(P, 'age'), lit(gen.vlong(1))]])
    out.append(['eq', acc(['if', ['has', P, S('age')], P, P], 'age'), lit(gen.vlong(1))])
    # least upper bound of records of different width, the wider one in either branch, accessed without a guard
    narrow = ['mkrec', [S('a'), lit(gen.vlong(1))]]
    wide = ['mkrec', [S('a'), lit(gen.vlong(1))], [S('b'), lit(gen.vlong(2))]]
    for c in (acc(C, 'flag'), ['not', acc(C, 'flag')]):
        out.append(['eq', acc(['if', c, narrow, wide], 'b'), lit(gen.vlong(2))])
        out.append(['eq', acc(['if', c, wide, narrow], 'b'), lit(gen.vlong(2))])
        out.append(['eq', acc(['if', c, acc(C, 'a'), ['mkrec', [S('b'), narrow], [S('z'), lit(gen.vlong(1))]]], 'z'), lit(gen.vlong(1))])
        out.append(['eq', acc(['if', c, ['mkrec', [S('b'), narrow], [S('z'), lit(gen.vlong(1))]], acc(C, 'a')], 'z'), lit(gen.vlong(1))])
        out.append(['contains', ['mkset', narrow, wide], ['if', c, narrow, wide]])
        out.append(['eq', acc(acc(['if', c, ['mkrec', [S('r'), narrow]], ['mkrec', [S('r'), wide]]], 'r'), 'b'), lit(gen.vlong(2))])
    return out


def run(ctx):
    b = lib.standard_build(ctx, theorems=False)   # no Coq theorem for this property yet: see MANIFEST level
    if not lib.require_builds(ctx, b):
        return
    r = ctx.rng
    quick = ctx.tier == 'quick'
    cases = []
    n = 0
    nschemas = 60 if quick else 1500
    for si in range(nschemas):
        sch = schemagen.Schema(r)
        text = sch.text()
        envs = ['envs'] + [['env', sch.store(), sch.request()] for _ in range(6)]
        pols = [sch.policy(r.choice([1, 2, 3])) for _ in range(25 if quick else 40)] + [sch.hazard_policy() for _ in range(25 if quick else 60)]
        for e in targeted(sch, r):
            a = r.choice(sorted(sch.actions))
            pols.append(['policy', S('p'), 'permit', ['all'], ['all'], ['all'], ['conds', ['when', e]], ['annots']])
        for p in pols:
            for mode in ('strict', 'permissive'):
                n += 1
                cases.append('(case v%d validate %s %s %s %s)' % (n, S(text), mode, sx.dump(p), sx.dump(envs)))
    # targeted historical shapes against a fixed schema that declares what they mention
    fixed = '''entity Group;
entity User in [Group] { name: String, age?: Long, born: datetime, "__tag:k"?: String } tags String;
action view appliesTo { principal: [User], resource: [User], context: { flag: Bool, "a.b": { c?: Long }, a: { b: { c?: Long } } } };
'''
    U = lambda i: gen.vent('User', i)
    def fstore(tags, age):
        attrs = [[S('name'), gen.vstr('n')], [S('born'), gen.vdt(0)]] + ([[S('age'), gen.vlong(3)]] if age else [])
        return ['store', ['ent', U('a'), ['parents'], ['attrs'] + attrs, ['tags'] + [[S(k), gen.vstr('v')] for k in tags]],
                ['ent', U('b'), ['parents'], ['attrs'] + attrs + [[S('__tag:k'), gen.vstr('x')]], ['tags']]]
    def freq(p, flag, ab, abc):
        return ['req', U(p), gen.vent('Action', 'view'), U('a'),
                gen.vrec([('flag', gen.vbool(flag)), ('a.b', gen.vrec([('c', gen.vlong(1))] if ab else [])), ('a', gen.vrec([('b', gen.vrec([('c', gen.vlong(1))] if abc else []))]))])]
    fenvs = ['envs'] + [['env', fstore(tags, age), freq(p, flag, ab, abc)] for tags in ([], ['t'], ['k'], ['k', 't']) for age in (True, False)
                        for (p, flag, ab, abc) in (('a', True, True, False), ('b', False, False, True), ('a', False, True, True))]
    for e in targeted(None, r):
        for mode in ('strict', 'permissive'):
            n += 1
            p = ['policy', S('p'), 'permit', ['all'], ['all'], ['all'], ['conds', ['when', e]], ['annots']]
            cases.append('(case v%d validate %s %s %s %s)' % (n, S(fixed), mode, sx.dump(p), sx.dump(fenvs)))
    ctx.rule = ('random schemas (2-4 entity types with parents, required/optional attributes of every type incl. nested records, sets, entity '
                'references and the four extension types, tags; 1-3 actions with applies-to lists and context records) x policies typed against '
                'them (access paths through required attributes, has-guarded optional attributes, arithmetic, comparisons, sets, extension calls, '
                'if/and/or) + hazard policies (a failing expression behind a membership / is / == / has guard over entity unions, sets and literals) + targeted historical shapes, in strict and permissive mode; every accepted policy is evaluated on 6 generated '
                'stores/requests and the runs the validator itself declares conforming must not fail with a forbidden error class. '
                'non-trivial = accepted and evaluated on at least one conforming environment')
    go = lib.run_go(cases, 'validate', ctx.workdir, timeout_ms=30000)
    bad = 0
    accepted = rejected = conforming = 0
    hist = {}
    for c in cases:
        res = go.get(lib.case_id(c), '(missing)')
        nontriv = False
        msg = None
        try:
            t = sx.parse(res)
            if t and isinstance(t[0], list) and t[0][0] == 'verdict':
                if t[0][1] == 'accept':
                    accepted += 1
                    for run_ in t[1][1:]:
                        if run_[0] == '1':
                            conforming += 1
                            nontriv = True
                            o = run_[1]
                            k = o if isinstance(o, str) else 'e-' + o[1]
                            hist[k] = hist.get(k, 0) + 1
                            if isinstance(o, list) and o[1] in FORBIDDEN:
                                msg = 'accepted policy fails with a %s error on a conforming store and request' % o[1]
                else:
                    rejected += 1
            elif t and t[0] in ('schema-error', 'schema-resolve-error'):
                msg = 'generated schema rejected: ' + sx.unS(t[1]).decode('utf-8', 'replace')[:200]
            else:
                msg = 'unexpected result ' + res[:200]
        except Exception:
            msg = 'unexpected result ' + res[:200]
        ctx.count(c[:3000], nontriv)
        if msg:
            if 'accepted policy fails' in msg and '(if ' in c and ' permissive ' in c[:4000] and '(has (if' in c:
                ctx.known('F29', 'permissive mode: record LUB drops an attribute with incompatible types, `has` is then typed False and hides an ill-typed operand')
                continue
            bad += 1
            if bad <= 6:
                ctx.violation(msg, dict(kind='case', case=c[:20000], go=res[:2000]))
    ctx.extra.update(accepted=accepted, rejected=rejected, conforming_runs=conforming, outcome_histogram=hist)
    ctx.oblige('direct oracle: %d accepted policies x conforming environments never fail with a forbidden error class (%d conforming runs)'
               % (accepted, conforming), 'oracle', bad == 0)
    for c in cases[:2]:
        ctx.sample(dict(case=c[:500], go=(go.get(lib.case_id(c)) or '')[:200]))
    lib.epilogue(ctx)
