"""C15 — validated policies cannot fail with type errors.
Direct oracle: random schemas x policies typed against them (plus targeted shapes) -> validator verdict in strict and permissive
mode -> for every accepted policy, evaluation on schema-conforming stores and requests (conformance decided by the validator's own
Entities/Request checks) must not fail with a type error, unknown function, wrong arity, or missing attribute / tag."""
import lib
import gen
import sx
import schemagen
from gen import S, lit, case

FORBIDDEN = ('type', 'attr', 'tag', 'arity', 'unknownfn', 'unspecified')


def targeted(sch, r):
    """shapes that historically slipped through: mixed comparable types, colliding capability keys, tag/attr confusion, permissive LUB"""
    out = []
    P, C = ['var', 'principal'], ['var', 'context']
    acc = lambda e, k: ['access', e, S(k)]
    out.append(['lt', lit(gen.vlong(1)), ['call', S('datetime'), lit(gen.vstr('2024-01-01'))]])
    out.append(['and', ['has', acc(C, 'a.b'), S('c')], ['eq', acc(acc(acc(C, 'a'), 'b'), 'c'), lit(gen.vlong(1))]])
    out.append(['and', ['has', P, S('__tag:k')], ['eq', ['getTag', P, lit(gen.vstr('k'))], lit(gen.vstr('x'))]])
    out.append(['and', ['has', ['if', acc(C, 'flag'), ['mkrec', [S('k'), lit(gen.vlong(1))]], ['mkrec', [S('k'), lit(gen.vstr('s'))]]], S('k')],
                ['eq', ['add', lit(gen.vlong(1)), lit(gen.vstr('a'))], lit(gen.vlong(2))]])
    out.append(['and', ['hasTag', P, lit(gen.vstr('k'))], ['eq', ['getTag', P, lit(gen.vstr('t'))], lit(gen.vstr('x'))]])
    out.append(['or', ['has', P, S('age')], ['gt', acc(P, 'age'), lit(gen.vlong(1))]])
    out.append(['and', ['not', ['has', P, S('age')]], ['gt', acc(P, 'age'), lit(gen.vlong(1))]])
    out.append(['eq', acc(['if', ['has', P, S('age')], P, P], 'age'), lit(gen.vlong(1))])
    # a presence test that does NOT dominate the access: the capability must not leak out of !, ||, ==, an if-condition into its else
    # branch, a set literal, ...
    F, T = lit(gen.vbool(False)), lit(gen.vbool(True))
    for g, A in ((['hasTag', P, lit(gen.vstr('k'))], ['eq', ['getTag', P, lit(gen.vstr('k'))], lit(gen.vstr('x'))]),
                 (['has', P, S('age')], ['gt', acc(P, 'age'), lit(gen.vlong(1))]),
                 (['has', acc(C, 'a.b'), S('c')], ['eq', acc(acc(C, 'a.b'), 'c'), lit(gen.vlong(1))])):
        out += [['and', ['not', g], A], ['if', g, F, A], ['and', ['or', g, ['eq', P, P]], A], ['and', ['eq', g, F], A], ['or', g, A],
                ['and', ['if', g, F, T], A], ['and', ['contains', ['mkset', g], F], A], ['and', ['or', ['and', g, F], T], A],
                ['and', ['not', ['not', ['not', g]]], A], ['if', ['not', g], A, F], ['and', ['ne', g, T], A],
                # and the positive forms, which must keep validating
                ['and', g, A], ['if', g, A, F], ['and', ['and', g, T], A], ['and', ['not', ['not', g]], A]]
    # two DIFFERENT presence tests joined by || or by the branches of an if: only what BOTH establish survives (capability intersection);
    # the same number of capabilities on either side, different contents
    flagc = acc(C, 'flag')
    tests = [(['has', P, S('age')], ['gt', acc(P, 'age'), lit(gen.vlong(1))]),
             (['has', P, S('__tag:k')], ['eq', acc(P, '__tag:k'), lit(gen.vstr('x'))]),
             (['hasTag', P, lit(gen.vstr('k'))], ['eq', ['getTag', P, lit(gen.vstr('k'))], lit(gen.vstr('x'))]),
             (['hasTag', P, lit(gen.vstr('t'))], ['eq', ['getTag', P, lit(gen.vstr('t'))], lit(gen.vstr('x'))]),
             (['has', acc(C, 'a.b'), S('c')], ['eq', acc(acc(C, 'a.b'), 'c'), lit(gen.vlong(1))]),
             (['has', acc(acc(C, 'a'), 'b'), S('c')], ['eq', acc(acc(acc(C, 'a'), 'b'), 'c'), lit(gen.vlong(1))])]
    for i, (g1, a1) in enumerate(tests):
        for j, (g2, a2) in enumerate(tests):
            if i != j and sch is None:          # (the fixed schema declares what they mention)
                out += [['and', ['or', g1, g2], a1], ['and', ['or', g1, g2], a2], ['and', ['if', flagc, g1, g2], a1], ['and', ['if', flagc, g1, g2], a2],
                        ['and', ['or', ['and', g1, g2], g2], a1], ['and', ['or', ['and', g1, g2], g2], a2], ['and', ['and', g1, g2], ['and', a1, a2]],
                        ['and', ['or', ['and', g1, g2], ['and', g2, g1]], ['and', a1, a2]]]
    # least upper bound of records of different width, the wider one in either branch, accessed without a guard
    narrow = ['mkrec', [S('a'), lit(gen.vlong(1))]]
    wide = ['mkrec', [S('a'), lit(gen.vlong(1))], [S('b'), lit(gen.vlong(2))]]
    for c in (acc(C, 'flag'), ['not', acc(C, 'flag')]):
        out.append(['eq', acc(['if', c, narrow, wide], 'b'), lit(gen.vlong(2))])
        out.append(['eq', acc(['if', c, wide, narrow], 'b'), lit(gen.vlong(2))])
        out.append(['eq', acc(['if', c, acc(C, 'a'), ['mkrec', [S('b'), narrow], [S('z'), lit(gen.vlong(1))]]], 'z'), lit(gen.vlong(1))])
        out.append(['eq', acc(['if', c, ['mkrec', [S('b'), narrow], [S('z'), lit(gen.vlong(1))]], acc(C, 'a')], 'z'), lit(gen.vlong(1))])
        out.append(['contains', ['mkset', narrow, wide], ['if', c, narrow, wide]])
        out.append(['eq', acc(acc(['if', c, ['mkrec', [S('r'), narrow]], ['mkrec', [S('r'), wide]]], 'r'), 'b'), lit(gen.vlong(2))])
    return out


def conform_part(ctx):
    """Validator.Entity / Entities / Request verdicts = Impl/Conform.v"""
    r = ctx.rng
    quick = ctx.tier == 'quick'
    g = gen.Gen(r)
    raw = []
    for si in range(60 if quick else 1500):
        sch = schemagen.Schema(r)
        text = sch.text()
        evs = ['enumvals'] + [[S(n)] + [S(i) for i in ids] for n, ids in sorted(sch.enums.items())]
        acts = sorted(sch.actions)
        for _ in range(8 if quick else 16):
            st = sch.store()
            extra = []
            # action entities: absent, with the closure of their declared groups as parents (conforming), or with other parents / data
            for a in acts + (['grp'] if sch.group else []) + ['nosuch']:
                k = r.random()
                if k < 0.5:
                    continue
                member = a in sch.actions and sch.actions[a]['member']
                parents = [gen.vent('Action', 'grp')] if member else []
                if k > 0.85:
                    parents = r.choice([parents + [gen.vent('Action', r.choice(acts))], [], [gen.vent('Action', 'grp')], [gen.vent('Action', 'nosuch')], parents + parents,
                                        [gen.vent(r.choice(sorted(sch.entities)), 'a')]])
                attrs = [[S('a'), gen.vlong(1)]] if k > 0.97 else []
                tags = [[S('k'), gen.vstr('v')]] if 0.94 < k <= 0.97 else []
                extra.append(['ent', gen.vent('Action', a), ['parents'] + parents, ['attrs'] + attrs, ['tags'] + tags])
            if r.random() < 0.15:
                extra.append(['ent', gen.vent(r.choice(['Nope', 'NS::Action', 'Actions', 'action']), 'a'), ['parents'], ['attrs'], ['tags']])
            # more kinds of non-conforming values than store() produces: a random value in place of a random attribute / tag / parent
            st = list(st)
            for _ in range(r.choice([0, 0, 0, 1, 2])):
                if len(st) > 1:
                    i_ = r.randrange(1, len(st))
                    e = [list(x) if isinstance(x, list) else x for x in st[i_]]
                    which = r.choice([3, 3, 4, 2])
                    if which == 2:
                        e[2] = e[2] + [gen.vent(r.choice(sorted(sch.entities) + sorted(sch.enums) + ['Action']), 'a')]
                    elif len(e[which]) > 1:
                        j_ = r.randrange(1, len(e[which]))
                        e[which][j_] = [e[which][j_][0], g.value(2)]
                    else:
                        e[which] = e[which] + [[S(r.choice(['a', 'k', 'zz'])), g.value(1)]]
                    st[i_] = e
            rq = sch.request()
            if r.random() < 0.15:
                rq = ['req', r.choice([rq[1], gen.vent('Action', 'view'), gen.vent(sorted(sch.enums)[0], 'a') if sch.enums else rq[1], gen.vent('Nope', 'a')]),
                      r.choice([rq[2], gen.vent('Action', 'grp'), gen.vent('NS::Action', 'view'), gen.vent('User', 'view')]), rq[3], r.choice([rq[4], gen.vrec([]), g.value(2) if False else rq[4]])]
            raw.append((text, evs, st + extra, rq))
    texts = sorted({t[0] for t in raw})
    info = lib.run_go(['(case i%d schemainfo %s)' % (i, S(t)) for i, t in enumerate(texts)], 'schemainfo', ctx.workdir)
    info_of = {t: info.get('i%d' % i, '(missing)') for i, t in enumerate(texts)}
    cases = []
    for i, (text, evs, st, rq) in enumerate(raw):
        inf = info_of[text]
        if inf.startswith('(info '):
            cases.append('(case cf%d conform %s %s %s %s %s)' % (i, S(text), inf, sx.dump(evs), sx.dump(st), sx.dump(rq)))
    go_c = lib.run_go(cases, 'conform', ctx.workdir, timeout_ms=30000)
    mo_c = lib.run_model(cases, 'conform', ctx.workdir)
    mism = 0
    ne = nok = nreq = nall = 0
    for c in cases:
        cid = lib.case_id(c)
        g_, m_ = lib.canon_str(go_c.get(cid, '(missing)')), lib.canon_str(mo_c.get(cid, '(missing)'))
        if g_.startswith('(conform '):
            t = sx.parse(g_)
            ne += len(t[1]) - 1
            nok += sum(1 for x in t[1][1:] if x[1] == '1')
            nall += t[2][1] == '1'
            nreq += t[3][1] == '1'
        if g_ != m_:
            mism += 1
            if mism <= 6:
                ctx.violation('conformance checkers (Validator.Entity / Entities / Request): Go and the Coq model (Impl/Conform.v) disagree: go=%s model=%s' % (g_[:500], m_[:500]),
                              dict(kind='case', case=c, go=g_, model=m_))
    ctx.extra['conform_correspondence'] = dict(cases=len(cases), entities=ne, conforming_entities=nok, conforming_stores=nall, conforming_requests=nreq)
    ctx.oblige('correspondence: Validator.Entity (per entity), Validator.Entities, Validator.Request = Impl/Conform.check_entity / check_entities / check_request on %d '
               '(schema, store, request) triples: %d entities (%d conforming), %d conforming stores, %d conforming requests; strict and permissive validators agree'
               % (len(cases), ne, nok, nall, nreq), 'correspondence', mism == 0)


def run(ctx):
    b = lib.standard_build(ctx)
    if not lib.require_builds(ctx, b):
        return
    r = ctx.rng
    quick = ctx.tier == 'quick'
    cases = []
    n = 0
    nschemas = 60 if quick else 1500
    tcases_raw = []          # (schema text, mode, principal type, action, resource type, expr)
    for si in range(nschemas):
        sch = schemagen.Schema(r)
        text = sch.text()
        envs = ['envs'] + [['env', sch.store(), sch.request()] for _ in range(6)]
        pols = [sch.policy(r.choice([1, 2, 3])) for _ in range(25 if quick else 40)] + [sch.hazard_policy() for _ in range(25 if quick else 60)]
        for e in targeted(sch, r):
            a = r.choice(sorted(sch.actions))
            pols.append(['policy', S('p'), 'permit', ['all'], ['all'], ['all'], ['conds', ['when', e]], ['annots']])
        for p in pols:
            for mode in ('strict', 'permissive'):
                n += 1
                cases.append('(case v%d validate %s %s %s %s)' % (n, S(text), mode, sx.dump(p), sx.dump(envs)))
        # the same condition bodies, type checked one request environment at a time (correspondence with Impl/TypeCheck.v)
        for p in r.sample(pols, min(len(pols), 12 if quick else 30)):
            for c in p[6][1:]:
                a = r.choice(sorted(sch.actions))
                d = sch.actions[a]
                env3 = (r.choice(d['principals']), a, r.choice(d['resources']))
                tcases_raw.append((text, r.choice(['strict', 'permissive']), env3[0], a, env3[2], c[1]))
                # and its sub-expressions (inferred types other than Bool: records, sets, entities, unions, Long, extension types)
                subs = []

                def walk(e_):
                    if isinstance(e_, list) and e_ and isinstance(e_[0], str) and e_[0] not in ('lit', 'var', 'pat'):
                        for x in e_[1:]:
                            if isinstance(x, list) and x and isinstance(x[0], str) and x[0] in gen.EXPR_HEADS:
                                subs.append(x)
                                walk(x)
                            elif isinstance(x, list) and x and isinstance(x[0], list):
                                for y in x:
                                    if isinstance(y, list) and len(y) == 2 and isinstance(y[1], list):
                                        subs.append(y[1]); walk(y[1])
                walk(c[1])
                for sub in r.sample(subs, min(len(subs), 6)):
                    tcases_raw.append((text, r.choice(['strict', 'permissive']), env3[0], a, env3[2], sub))
    # targeted historical shapes against a fixed schema that declares what they mention
    fixed = '''entity Group;
entity User in [Group] { name: String, age?: Long, born: datetime, "__tag:k"?: String } tags String;
action view appliesTo { principal: [User], resource: [User], context: { flag: Bool, "a.b": { c?: Long }, a: { b: { c?: Long } } } };
'''
    U = lambda i: gen.vent('User', i)
    def fstore(tags, age):
        attrs = [[S('name'), gen.vstr('n')], [S('born'), gen.vdt(0)]] + ([[S('age'), gen.vlong(3)]] if age else [])
        return ['store', ['ent', U('a'), ['parents'], ['attrs'] + attrs, ['tags'] + [[S(k), gen.vstr('v')] for k in tags]],
                ['ent', U('b'), ['parents'], ['attrs'] + attrs + [[S('__tag:k'), gen.vstr('x')]], ['tags']]]
    def freq(p, flag, ab, abc):
        return ['req', U(p), gen.vent('Action', 'view'), U('a'),
                gen.vrec([('flag', gen.vbool(flag)), ('a.b', gen.vrec([('c', gen.vlong(1))] if ab else [])), ('a', gen.vrec([('b', gen.vrec([('c', gen.vlong(1))] if abc else []))]))])]
    fenvs = ['envs'] + [['env', fstore(tags, age), freq(p, flag, ab, abc)] for tags in ([], ['t'], ['k'], ['k', 't']) for age in (True, False)
                        for (p, flag, ab, abc) in (('a', True, True, False), ('b', False, False, True), ('a', False, True, True))]
    for e in targeted(None, r):
        for mode in ('strict', 'permissive'):
            n += 1
            p = ['policy', S('p'), 'permit', ['all'], ['all'], ['all'], ['conds', ['when', e]], ['annots']]
            cases.append('(case v%d validate %s %s %s %s)' % (n, S(fixed), mode, sx.dump(p), sx.dump(fenvs)))
            tcases_raw.append((fixed, mode, 'User', 'view', 'User', e))
    # action groups in another namespace: the group's entity type differs from the member's (F43)
    fixed2 = '''namespace NS2 { action b; action c in [b]; }
namespace NS1 { entity U; action a in [NS2::Action::"c"] appliesTo { principal: [U], resource: [U], context: { flag: Bool } };
                action z appliesTo { principal: [U], resource: [U], context: { flag: Bool } }; }
'''
    A_ = ['var', 'action']
    BAD_ = ['gt', ['add', lit(gen.vstr('a')), lit(gen.vlong(1))], lit(gen.vlong(0))]
    flag = ['access', ['var', 'context'], S('flag')]
    u1 = gen.vent('NS1::U', 'u')
    envs2 = ['envs'] + [['env', ['store', ['ent', u1, ['parents'], ['attrs'], ['tags']]], ['req', u1, gen.vent('NS1::Action', an), u1, gen.vrec([('flag', gen.vbool(fl))])]]
                        for an in ('a', 'z') for fl in (True, False)]
    for grp in (gen.vent('NS2::Action', 'b'), gen.vent('NS2::Action', 'c'), gen.vent('NS1::Action', 'z'), gen.vent('NS1::Action', 'a')):
        for lhs in (A_, ['if', flag, A_, A_], ['access', ['mkrec', [S('k'), A_]], S('k')], lit(gen.vent('NS1::Action', 'a')),
                    ['if', flag, lit(gen.vent('NS1::Action', 'a')), lit(gen.vent('NS1::Action', 'z'))]):
            for g in (['in', lhs, lit(grp)], ['in', lhs, ['mkset', lit(grp)]], ['not', ['in', lhs, lit(grp)]], ['isIn', lhs, S('NS1::Action'), lit(grp)]):
                for body in (['and', g, BAD_], ['if', g, BAD_, lit(gen.vbool(False))], ['or', ['not', g], BAD_]):
                    for mode in ('strict', 'permissive'):
                        n += 1
                        p = ['policy', S('p'), 'permit', ['all'], ['all'], ['all'], ['conds', ['when', body]], ['annots']]
                        cases.append('(case v%d validate %s %s %s %s)' % (n, S(fixed2), mode, sx.dump(p), sx.dump(envs2)))
                for an in ('a', 'z'):
                    tcases_raw.append((fixed2, r.choice(['strict', 'permissive']), 'NS1::U', ('NS1::Action', an), 'NS1::U', g))
    ctx.rule = ('random schemas (2-4 entity types with parents, required/optional attributes of every type incl. nested records, sets, entity '
                'references and the four extension types, tags; 1-3 actions with applies-to lists and context records) x policies typed against '
                'them (access paths through required attributes, has-guarded optional attributes, arithmetic, comparisons, sets, extension calls, '
                'if/and/or) + hazard policies (a failing expression behind a membership / is / == / has guard over entity unions, sets and literals) + targeted historical shapes, in strict and permissive mode; every accepted policy is evaluated on 6 generated '
                'stores/requests and the runs the validator itself declares conforming must not fail with a forbidden error class. '
                'non-trivial = accepted and evaluated on at least one conforming environment')
    # correspondence: expression type checker (hook VerifTypeOf) = Impl/TypeCheck.typeof: verdict and inferred type
    texts = sorted({t[0] for t in tcases_raw})
    info = lib.run_go(['(case i%d schemainfo %s)' % (i, S(t)) for i, t in enumerate(texts)], 'schemainfo', ctx.workdir)
    info_of = {t: info.get('i%d' % i, '(missing)') for i, t in enumerate(texts)}
    tcases = []
    for i, (text, mode, pt, a, rt, e) in enumerate(tcases_raw):
        inf = info_of[text]
        if not inf.startswith('(info '):
            continue
        tcases.append('(case y%d typeof %s %s %s %s %s %s %s)' % (i, S(text), inf, mode, S(pt), sx.dump(gen.vent(*a) if isinstance(a, tuple) else gen.vent('Action', a)), S(rt), sx.dump(e)))
    go_t = lib.run_go(tcases, 'typeof', ctx.workdir, timeout_ms=30000)
    mo_t = lib.run_model(tcases, 'typeof', ctx.workdir)
    tm = unk = okc = 0
    for c in tcases:
        cid = lib.case_id(c)
        g_, m_ = go_t.get(cid, '(missing)'), mo_t.get(cid, '(missing)')
        if m_ == '(unmodelled)':
            unk += 1
            continue
        okc += g_.startswith('(ok')
        if g_ != m_:
            tm += 1
            if tm <= 6:
                def nm(x):
                    try:
                        return sx.unS(sx.parse(x)[1]).decode()
                    except Exception:
                        return x
                ctx.violation('expression type checker: Go and the Coq model (Impl/TypeCheck.v) disagree: go=%s model=%s expr=%s' % (nm(g_), nm(m_), c.split(' ', 9)[-1][:400]),
                              dict(kind='case', case=c, go=g_, model=m_))
    ctx.extra['typeof_correspondence'] = dict(cases=len(tcases), accepted=okc, unmodelled=unk)
    ctx.oblige('correspondence: typeOfExpr (verdict and inferred type, one request environment, both modes) = Impl/TypeCheck.typeof on %d expressions (%d accepted, %d outside the model)'
               % (len(tcases), okc, unk), 'correspondence', tm == 0)
    # correspondence: Validator.Policy (scopes, action application, request environments, conditions) = Impl/ValidatePolicy.validate_policy
    vtexts = sorted({c.split(' ')[3] for c in cases})
    vinfo = lib.run_go(['(case i%d schemainfo %s)' % (i, t) for i, t in enumerate(vtexts)], 'schemainfo', ctx.workdir)
    vinfo_of = {t: vinfo.get('i%d' % i, '(missing)') for i, t in enumerate(vtexts)}
    vcases = []
    for c in cases:
        parts = c.split(' ', 5)            # (case id validate text mode rest
        text, mode = parts[3], parts[4]
        inf = vinfo_of[text]
        if not inf.startswith('(info '):
            continue
        # the policy is the first S-expression of the rest
        rest = parts[5]
        depth = 0
        for k, ch in enumerate(rest):
            if ch == '(':
                depth += 1
            elif ch == ')':
                depth -= 1
                if depth == 0:
                    break
        vcases.append('(case w%s vverdict %s %s %s %s)' % (parts[1], text, inf, mode, rest[:k + 1]))
    # scope forms the random policies do not use: ==, in, is .. in on principal / resource, action in / in [..] incl. unknown names
    fixed3 = '''entity Group; entity Team in [Group]; entity User in [Team] { age?: Long } tags String; entity Color enum ["red"];
action grp; action top; action view in [grp] appliesTo { principal: [User], resource: [User, Group], context: { flag: Bool } };
action edit in [view, top] appliesTo { principal: [Group], resource: [Group], context: { flag: Bool, n: Long } };
action noapply in [grp];
'''
    inf3 = lib.run_go(['(case i0 schemainfo %s)' % S(fixed3)], 'schemainfo', ctx.workdir).get('i0', '(missing)')
    E = gen.vent
    pscopes = [['all'], ['eq', E('User', 'a')], ['eq', E('Nope', 'x')], ['eq', E('Action', 'view')], ['in', E('Group', 'g')], ['in', E('User', 'a')], ['in', E('Team', 't')],
               ['in', E('Nope', 'x')], ['in', E('Color', 'red')], ['is', S('User')], ['is', S('Group')], ['is', S('Nope')], ['is', S('Color')],
               ['isin', S('User'), E('Group', 'g')], ['isin', S('Group'), E('User', 'a')], ['isin', S('Nope'), E('Group', 'g')], ['isin', S('User'), E('Nope', 'g')],
               ['isin', S('Group'), E('Group', 'g')]]
    ascopes = [['all'], ['eq', E('Action', 'view')], ['eq', E('Action', 'nope')], ['eq', E('Action', 'noapply')], ['eq', E('Action', 'grp')], ['in', E('Action', 'view')],
               ['in', E('Action', 'grp')], ['in', E('Action', 'top')], ['in', E('Action', 'nope')], ['inset'], ['inset', E('Action', 'grp')], ['inset', E('Action', 'view'), E('Action', 'nope')],
               ['inset', E('Action', 'top'), E('Action', 'noapply')], ['inset', E('User', 'a')]]
    cnds = [['conds'], ['conds', ['when', lit(gen.vbool(True))]], ['conds', ['when', ['eq', ['add', lit(gen.vlong(1)), lit(gen.vstr('x'))], lit(gen.vlong(2))]]],
            ['conds', ['unless', ['access', ['var', 'context'], S('flag')]]], ['conds', ['when', ['gt', ['access', ['var', 'context'], S('n')], lit(gen.vlong(0))]]],
            ['conds', ['when', ['gt', ['access', ['var', 'principal'], S('age')], lit(gen.vlong(0))]]], ['conds', ['when', lit(gen.vlong(1))]],
            ['conds', ['when', ['and', ['has', ['var', 'principal'], S('age')], ['gt', ['access', ['var', 'principal'], S('age')], lit(gen.vlong(0))]]], ['when', ['in', ['var', 'action'], lit(E('Action', 'grp'))]]]]
    # the same scope matrix through the soundness oracle: accepted policies evaluated on conforming data
    st3 = ['store', ['ent', E('Group', 'g'), ['parents'], ['attrs'], ['tags']], ['ent', E('Team', 't'), ['parents', E('Group', 'g')], ['attrs'], ['tags']],
           ['ent', E('User', 'a'), ['parents', E('Team', 't')], ['attrs', [S('age'), gen.vlong(3)]], ['tags', [S('k'), gen.vstr('v')]]],
           ['ent', E('User', 'b'), ['parents'], ['attrs'], ['tags']]]
    envs3 = ['envs', ['env', st3, ['req', E('User', 'a'), E('Action', 'view'), E('User', 'b'), gen.vrec([('flag', gen.vbool(True))])]],
             ['env', st3, ['req', E('User', 'b'), E('Action', 'view'), E('Group', 'g'), gen.vrec([('flag', gen.vbool(False))])]],
             ['env', st3, ['req', E('Group', 'g'), E('Action', 'edit'), E('Group', 'g'), gen.vrec([('flag', gen.vbool(True)), ('n', gen.vlong(1))])]],
             ['env', ['store'], ['req', E('User', 'zz'), E('Action', 'view'), E('User', 'zz'), gen.vrec([('flag', gen.vbool(True))])]]]
    combos3 = [(ps_, as_, rs_, cn) for ps_ in pscopes for as_ in ascopes for rs_ in pscopes for cn in cnds]
    for (ps_, as_, rs_, cn) in r.sample(combos3, 500 if quick else 8000):
        for mode in ('strict', 'permissive'):
            n += 1
            pol = ['policy', S('p'), 'permit', ps_, as_, rs_, cn, ['annots']]
            cases.append('(case v%d validate %s %s %s %s)' % (n, S(fixed3), mode, sx.dump(pol), sx.dump(envs3)))
    # deep entity-type hierarchies: `in` scopes must reach descendants at every depth
    fixed4 = 'entity L0;\n' + ''.join('entity L%d in [L%d]%s;\n' % (i, i - 1, ' { deep: Long }' if i == 5 else '') for i in range(1, 6)) + \
             'action view appliesTo { principal: [L5, L1, L3], resource: [L5, L0, L2], context: {} };\n'
    inf4 = lib.run_go(['(case i0 schemainfo %s)' % S(fixed4)], 'schemainfo', ctx.workdir).get('i0', '(missing)')
    st4 = ['store'] + [['ent', E('L%d' % i, 'x'), ['parents'] + ([E('L%d' % (i - 1), 'x')] if i else []), ['attrs'] + ([[S('deep'), gen.vlong(1)]] if i == 5 else []), ['tags']] for i in range(6)]
    envs4 = ['envs'] + [['env', st4, ['req', E(pt, 'x'), E('Action', 'view'), E(rt, 'x'), gen.vrec([])]] for pt in ('L5', 'L1', 'L3') for rt in ('L5', 'L0', 'L2')]
    deepc = [['conds', ['when', ['gt', ['access', ['var', 'principal'], S('deep')], lit(gen.vlong(0))]]],
             ['conds', ['when', ['gt', ['access', ['var', 'resource'], S('deep')], lit(gen.vlong(0))]]], ['conds']]
    w4 = 0
    for k in range(6):
        for ps_ in (['in', E('L%d' % k, 'x')], ['isin', S('L5'), E('L%d' % k, 'x')], ['isin', S('L3'), E('L%d' % k, 'x')], ['is', S('L5')], ['all']):
            for rs_ in (['in', E('L%d' % k, 'x')], ['isin', S('L5'), E('L%d' % k, 'x')], ['all'], ['eq', E('L5', 'x')]):
                for cn in deepc:
                    for mode in ('strict', 'permissive'):
                        pol = ['policy', S('p'), 'permit', ps_, ['all'], rs_, cn, ['annots']]
                        w4 += 1
                        if inf4.startswith('(info '):
                            vcases.append('(case wd%d vverdict %s %s %s %s)' % (w4, S(fixed4), inf4, mode, sx.dump(pol)))
                        if w4 % 3 == 0 or not quick:
                            n += 1
                            cases.append('(case v%d validate %s %s %s %s)' % (n, S(fixed4), mode, sx.dump(pol), sx.dump(envs4)))
    wi = 0
    if inf3.startswith('(info '):
        combos = [(ps_, as_, rs_, cn) for ps_ in pscopes for as_ in ascopes for rs_ in pscopes for cn in cnds]
        for (ps_, as_, rs_, cn) in (r.sample(combos, 1500) if quick else combos):
            for mode in ('strict', 'permissive'):
                wi += 1
                pol = ['policy', S('p'), r.choice(['permit', 'forbid']), ps_, as_, rs_, cn, ['annots']]
                vcases.append('(case ws%d vverdict %s %s %s %s)' % (wi, S(fixed3), inf3, mode, sx.dump(pol)))
    go_v = lib.run_go(vcases, 'vverdict', ctx.workdir, timeout_ms=30000)
    mo_v = lib.run_model(vcases, 'vverdict', ctx.workdir)
    vm = vacc = 0
    for c in vcases:
        cid = lib.case_id(c)
        g_, m_ = go_v.get(cid, '(missing)'), mo_v.get(cid, '(missing)')
        vacc += g_ == '(accept)'
        if g_ != m_:
            vm += 1
            if vm <= 6:
                ctx.violation('Validator.Policy: Go and the Coq model (Impl/ValidatePolicy.v) disagree: go=%s model=%s policy=%s' % (g_, m_, c.split(' ')[-1][:10] and c[-600:]),
                              dict(kind='case', case=c, go=g_, model=m_))
    ctx.extra['vverdict_correspondence'] = dict(cases=len(vcases), accepted=vacc)
    ctx.oblige('correspondence: Validator.Policy verdict = ValidatePolicy.validate_policy on %d policies (%d accepted)' % (len(vcases), vacc), 'correspondence', vm == 0)
    go = lib.run_go(cases, 'validate', ctx.workdir, timeout_ms=30000)
    bad = 0
    accepted = rejected = conforming = 0
    hist = {}
    for c in cases:
        res = go.get(lib.case_id(c), '(missing)')
        nontriv = False
        msg = None
        try:
            t = sx.parse(res)
            if t and isinstance(t[0], list) and t[0][0] == 'verdict':
                if t[0][1] == 'accept':
                    accepted += 1
                    for run_ in t[1][1:]:
                        if run_[0] == '1':
                            conforming += 1
                            nontriv = True
                            o = run_[1]
                            k = o if isinstance(o, str) else 'e-' + o[1]
                            hist[k] = hist.get(k, 0) + 1
                            if isinstance(o, list) and o[1] in FORBIDDEN:
                                msg = 'accepted policy fails with a %s error on a conforming store and request' % o[1]
                else:
                    rejected += 1
            elif t and t[0] in ('schema-error', 'schema-resolve-error'):
                msg = 'generated schema rejected: ' + sx.unS(t[1]).decode('utf-8', 'replace')[:200]
            else:
                msg = 'unexpected result ' + res[:200]
        except Exception:
            msg = 'unexpected result ' + res[:200]
        ctx.count(c[:3000], nontriv)
        if msg:
            if 'accepted policy fails' in msg and '(if ' in c and ' permissive ' in c[:4000] and '(has (if' in c:
                ctx.known('F29', 'permissive mode: record LUB drops an attribute with incompatible types, `has` is then typed False and hides an ill-typed operand')
                continue
            bad += 1
            if bad <= 6:
                ctx.violation(msg, dict(kind='case', case=c[:20000], go=res[:2000]))
    ctx.extra.update(accepted=accepted, rejected=rejected, conforming_runs=conforming, outcome_histogram=hist)
    ctx.oblige('direct oracle: %d accepted policies x conforming environments never fail with a forbidden error class (%d conforming runs)'
               % (accepted, conforming), 'oracle', bad == 0)
    for c in cases[:2]:
        ctx.sample(dict(case=c[:500], go=(go.get(lib.case_id(c)) or '')[:200]))
    conform_part(ctx)
    lib.epilogue(ctx)
