"""C03 — `in` is reflexive-transitive reachability; scope forms agree; evaluation terminates on every graph.
Theorems: Properties/C03.v.  Correspondence: exhaustive small parent graphs x presence subsets x (a, b) / (a, target set),
through the `in` operator, `is .. in`, and the policy scope forms; random larger graphs.  A hang is caught by the
per-case timeout and reported with the graph as replay."""
import itertools

import lib
import sx
import gen
from gen import S, lit, case


def node(i):
    return gen.vent('N%d' % (i % 2), 'n%d' % i)


def store_of(n, parents, present):
    ents = []
    for i in range(n):
        if not present[i]:
            continue
        ents.append(['ent', node(i), ['parents'] + [node(j) for j in parents[i]], ['attrs'], ['tags']])
    return ['store'] + ents


def reach(n, parents, present, a):
    """reference computed in python: nodes reachable from a (reflexive), following parents of present nodes"""
    seen = {a}
    todo = [a]
    while todo:
        x = todo.pop()
        if x < n and present[x]:
            for y in parents[x]:
                if y not in seen:
                    seen.add(y)
                    todo.append(y)
    return seen


BATCH = None


def cases_for_graph(cid, n, parents, present, cases, expect, pairs=None, sets=True, scopes=True):
    st = store_of(n, parents, present)
    req = ['req', node(0), gen.vent('Action', 'view'), node(1), ['rec']]
    k = 0
    for a in range(n + 1):          # node n is never present and never a parent: an entity outside the store
        ra = reach(n, parents, present, a)
        for b in range(n + 1):
            if pairs is not None and (a, b) not in pairs:
                continue
            k += 1
            c = case('%s_%d' % (cid, k), 'eval', st, req, ['in', lit(node(a)), lit(node(b))])
            cases.append(c)
            expect[lib.case_id(c)] = '(ok (b %d))' % (1 if b in ra else 0)
        if sets:
            for tgt in ([], [0], [1, 2], [2, n], list(range(n))):
                k += 1
                c = case('%s_%d' % (cid, k), 'eval', st, req, ['in', lit(node(a)), lit(gen.vset([node(t) for t in tgt]))])
                cases.append(c)
                expect[lib.case_id(c)] = '(ok (b %d))' % (1 if any(t in ra for t in tgt) else 0)
            k += 1
            c = case('%s_%d' % (cid, k), 'eval', st, req, ['isIn', lit(node(a)), S('N%d' % (a % 2)), lit(node(n - 1))])
            cases.append(c)
            expect[lib.case_id(c)] = '(ok (b %d))' % (1 if (n - 1) in ra else 0)
    if scopes:
        # scope forms with principal = node 0, resource = node 1
        r0 = reach(n, parents, present, 0)
        r1 = reach(n, parents, present, 1)
        for b in range(n):
            pols = [['policy', S('pin'), 'permit', ['in', node(b)], ['all'], ['all'], ['conds']],
                    ['policy', S('pisin'), 'permit', ['isin', S('N0'), node(b)], ['all'], ['all'], ['conds']],
                    ['policy', S('rin'), 'permit', ['all'], ['all'], ['in', node(b)], ['conds']],
                    ['policy', S('rwrong'), 'permit', ['all'], ['all'], ['isin', S('N0'), node(b)], ['conds']],
                    # the same questions asked in condition bodies over literals only (these go through the compiled / constant-folded form)
                    ['policy', S('cin'), 'permit', ['all'], ['all'], ['all'], ['conds', ['when', ['in', lit(node(0)), lit(node(b))]]]],
                    ['policy', S('cinset'), 'permit', ['all'], ['all'], ['all'], ['conds', ['when', ['in', lit(node(0)), ['mkset', lit(node(n)), lit(node(b))]]]]],
                    ['policy', S('cisin'), 'permit', ['all'], ['all'], ['all'], ['conds', ['unless', ['not', ['isIn', lit(node(0)), S('N0'), lit(node(b))]]]]]]
            pols = pols[4:] + pols[:4]            # ids in ascending order
            k += 1
            c = case('%s_%d' % (cid, k), 'authz', st, req, ['policies'] + pols)
            cases.append(c)
            rs = []
            if b in r0:
                rs += [S('pin'), S('pisin'), S('cin'), S('cisin')]
            if b in r0 or n in r0:
                rs += [S('cinset')]
            if b in r1:
                rs += [S('rin')]
            rs.sort()
            expect[lib.case_id(c)] = '((dec %s) (reasons (%s)) (errors ()))' % ('allow' if rs else 'deny', ' '.join(rs))
            # the same scope forms decided by the batch authorizer (partial evaluation resolves the scope once the variable is bound): principal
            # ranges over every node (and the entity outside the store), resource over two nodes
            if BATCH is not None:
                import props.c06 as c06
                bp = [['policy', S('pin'), 'permit', ['in', node(b)], ['all'], ['all'], ['conds']],
                      ['policy', S('pisin'), 'permit', ['isin', S('N0'), node(b)], ['all'], ['all'], ['conds']],
                      ['policy', S('pisin1'), 'permit', ['isin', S('N1'), node(b)], ['all'], ['all'], ['conds']],
                      ['policy', S('rin'), 'permit', ['all'], ['all'], ['in', node(b)], ['conds']],
                      ['policy', S('risin'), 'permit', ['all'], ['all'], ['isin', S('N1'), node(b)], ['conds']]]
                BATCH.append(case('%s_b%d' % (cid, k), 'batch', st, ['req', c06.var('p'), gen.vent('Action', 'view'), c06.var('r'), ['rec']],
                                  ['vars', [S('p')] + [node(x) for x in range(n + 1)], [S('r'), node(0), node(1)]], ['policies'] + bp, ['mode', 'none']))


def run(ctx):
    b = lib.standard_build(ctx)
    if not lib.require_builds(ctx, b):
        return
    r = ctx.rng
    cases = []
    expect = {}
    global BATCH
    BATCH = []
    n = 3
    subsets = [list(s) for k in range(n + 1) for s in itertools.combinations(range(n), k)]
    gid = 0
    if ctx.tier == 'quick':
        # all graphs on 3 nodes (each node: any subset of the 3 nodes as parents) x all presence subsets
        for ps in itertools.product(subsets, repeat=n):
            for present in itertools.product([True, False], repeat=n):
                gid += 1
                cases_for_graph('g%d' % gid, n, ps, present, cases, expect, sets=(gid % 4 == 0), scopes=(gid % 8 == 0))
        exhaustive_n = 3
    else:
        n4 = 4
        subsets4 = [list(s) for k in range(n4 + 1) for s in itertools.combinations(range(n4), k)]
        for ps in itertools.product(subsets, repeat=n):
            for present in itertools.product([True, False], repeat=n):
                gid += 1
                cases_for_graph('g%d' % gid, n, ps, present, cases, expect)
        # all graphs on 4 nodes, all present or one absent, pairs only (16^4 * 5 graphs)
        for ps in itertools.product(subsets4, repeat=n4):
            for absent in [None, 3]:
                present = [i != absent for i in range(n4)]
                gid += 1
                cases_for_graph('h%d' % gid, n4, ps, present, cases, expect, sets=False, scopes=False)
        exhaustive_n = 4
    nrand = 400 if ctx.tier == 'quick' else 5000
    for i in range(nrand):
        m = r.randrange(5, 13)
        ps = [[r.randrange(m + 1) for _ in range(r.choice([0, 1, 1, 2, 3]))] for _ in range(m)]
        present = [r.random() < 0.8 for _ in range(m)]
        pairs = {(r.randrange(m + 1), r.randrange(m + 1)) for _ in range(12)}
        cases_for_graph('r%d' % i, m, ps, present, cases, expect, pairs=pairs, sets=True, scopes=(i % 3 == 0))
    # long chains and a big cycle: termination and depth
    for m in (200, 2000):
        ps = [[(i + 1) % m] for i in range(m)]
        present = [True] * m
        cases_for_graph('chain%d' % m, m, ps, present, cases, expect, pairs={(0, m - 1), (0, m), (5, 3), (m - 1, 0)}, sets=False, scopes=False)
    ctx.rule = ('every parent graph on %d nodes (each node any subset of the nodes as parents: self parents, cycles, diamonds) x every '
                'subset of nodes present in the store, every ordered pair incl. an entity outside the store, target sets, `is T in`, and the '
                'scope forms principal/resource in / is-in through cedar.Authorize; random graphs on 5-12 nodes; chains/cycles of 200 and '
                '2000 nodes.  Each case has THREE answers that must agree: Go, the Coq model, and a reference closure computed by the '
                'generator. non-trivial = the graph has at least one edge' % exhaustive_n)
    # the zero EntityUID (empty type and id) is a legal uid in the Go API - a store key, a parent, a request part: `in` treats it like any other
    Z, GA, GB, GC = gen.vent('', ''), gen.vent('G', 'a'), gen.vent('G', 'b'), gen.vent('G', 'c')
    zst = ['store', ['ent', Z, ['parents', GA], ['attrs'], ['tags']], ['ent', GA, ['parents', GB, Z], ['attrs'], ['tags']], ['ent', GB, ['parents'], ['attrs'], ['tags']],
           ['ent', GC, ['parents', Z], ['attrs'], ['tags']]]
    zreq = ['req', Z, gen.vent('Action', 'view'), GC, ['rec']]
    zreach = {'z': {'z', 'a', 'b'}, 'a': {'a', 'b', 'z'}, 'b': {'b'}, 'c': {'c', 'z', 'a', 'b'}}
    zname = {'z': Z, 'a': GA, 'b': GB, 'c': GC}
    zi = 0
    for x in 'zabc':
        for y in 'zabc':
            zi += 1
            c = case('z_%d' % zi, 'eval', zst, zreq, ['in', lit(zname[x]), lit(zname[y])])
            cases.append(c); expect[lib.case_id(c)] = '(ok (b %d))' % (1 if y in zreach[x] else 0)
            zi += 1
            c = case('z_%d' % zi, 'eval', zst, zreq, ['in', lit(zname[x]), lit(gen.vset([gen.vent('G', 'nobody'), zname[y]]))])
            cases.append(c); expect[lib.case_id(c)] = '(ok (b %d))' % (1 if y in zreach[x] else 0)
        zi += 1
        c = case('z_%d' % zi, 'eval', zst, zreq, ['in', ['var', 'principal'], lit(zname[x])])
        cases.append(c); expect[lib.case_id(c)] = '(ok (b %d))' % (1 if x in zreach['z'] else 0)
        zi += 1
        c = case('z_%d' % zi, 'eval', zst, zreq, ['isIn', ['var', 'principal'], S(''), lit(zname[x])])
        cases.append(c); expect[lib.case_id(c)] = '(ok (b %d))' % (1 if x in zreach['z'] else 0)
        pols = [['policy', S('pin'), 'permit', ['in', zname[x]], ['all'], ['all'], ['conds']],
                ['policy', S('pisin'), 'permit', ['isin', S(''), zname[x]], ['all'], ['all'], ['conds']],
                ['policy', S('rin'), 'permit', ['all'], ['all'], ['in', zname[x]], ['conds']]]
        zi += 1
        c = case('z_%d' % zi, 'authz', zst, zreq, ['policies'] + pols)
        cases.append(c)
        rs = ([S('pin'), S('pisin')] if x in zreach['z'] else []) + ([S('rin')] if x in zreach['c'] else [])
        expect[lib.case_id(c)] = '((dec %s) (reasons (%s)) (errors ()))' % ('allow' if rs else 'deny', ' '.join(sorted(rs)))
    ctx.exhaustive = True

    def nontrivial(c, g):
        return '(parents (e' in c

    go, mo, mism = lib.differential(ctx, cases, 'in', nontrivial=nontrivial, timeout_ms=20000,
                                    describe='`in` in Go disagrees with the model search')
    bad = 0
    for c in cases:
        cid = lib.case_id(c)
        g = lib.canon_str(go.get(cid, '(missing)'))
        if g != expect[cid]:
            bad += 1
            if bad <= 5:
                ctx.violation('`in` disagrees with reflexive-transitive reachability: go=%s expected=%s' % (g, expect[cid]),
                              dict(kind='case', case=c, go=g, expected=expect[cid]))
    ctx.oblige('direct oracle: Go result = reachability closure computed independently (%d cases)' % len(cases), 'oracle', bad == 0)
    for c in cases[100:102] + cases[-2:]:
        ctx.sample(dict(case=c[:400], go=go.get(lib.case_id(c))))
    ctx.oblige('correspondence: Go `in` / scopes = model on %d cases' % len(cases), 'correspondence', not mism)
    # scope forms through the batch authorizer: Go batch = brute force with the ordinary authorizer (inside the harness) = the model of doBatch
    import props.c05 as c05
    bgo = lib.run_go(BATCH, 'inbatch', ctx.workdir)
    bmo = lib.run_model(BATCH, 'inbatch', ctx.workdir)
    bbad = 0
    for c in BATCH:
        cid = lib.case_id(c)
        g, m = c05.project_common(bgo.get(cid, '(missing)')), c05.project_common(bmo.get(cid, '(missing)'))
        ok = isinstance(g, dict) and isinstance(m, dict) and sx.dump(g['results'][1:]) == sx.dump(g['brute'][1:]) and sx.dump(g['results']) == sx.dump(m['results']) \
            and g['status'][1] == 'ok'
        if not ok:
            bbad += 1
            if bbad <= 3:
                ctx.violation('scope forms `in` / `is..in` decided by the batch authorizer disagree with the ordinary authorizer / the model: %s' % str(bgo.get(cid))[:600],
                              dict(kind='case', case=c, go=bgo.get(cid), model=bmo.get(cid)))
    ctx.oblige('direct oracle + correspondence: scope forms through batch.Authorize = brute force = model (%d graphs x targets, principal over every node)' % len(BATCH), 'oracle', bbad == 0)
    lib.epilogue(ctx)
