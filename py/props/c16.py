"""C16 — schema resolution and validation terminate without crashing on every input.
Runtime oracle: exhaustive small hierarchy graphs (entity parent types, action groups, common-type references over <=3 names incl.
self loops, cycles, undefined references, shadowing) + random schemas, each resolved and then used to validate policies (from text
and from JSON-style ASTs with set / record / extension literals), entities and requests in both modes, inside a guarded child
process with a timeout."""
import itertools

import lib
import gen
import sx
import schematext
import schemagen
from gen import S, lit

POLICY_TEXTS = [
    'permit(principal, action, resource);',
    'permit(principal in A::"x", action, resource in B::"y");',
    'permit(principal is A in B::"y", action in [Action::"a", Action::"b"], resource is C);',
    'permit(principal, action == Action::"a", resource) when { principal in resource || resource in A::"x" || principal in [A::"x", B::"y", C::"z"] };',
    'permit(principal, action, resource) when { principal.p.p.p in C::"z" && principal has p && context.t == 1 };',
    'forbid(principal, action in Action::"c", resource) unless { A::"x" in B::"y" && B::"y" in C::"z" && C::"z" in A::"x" };',
]


def literal_policies():
    vals = [gen.vset([gen.vlong(1), gen.vstr('a')]), gen.vrec([('k', gen.vlong(1))]), gen.vdec(15000), gen.vip(gen.IPS[0]), gen.vdt(0), gen.vdur(1000),
            gen.vset([gen.vent('A', 'x')]), gen.vrec([]), gen.vset([])]
    out = []
    for v in vals:
        out.append(['policy', S('p'), 'permit', ['all'], ['all'], ['all'], ['conds', ['when', ['eq', lit(v), lit(v)]]], ['annots']])
        out.append(['policy', S('p'), 'permit', ['all'], ['all'], ['all'], ['conds', ['when', ['in', ['var', 'principal'], lit(v)]]], ['annots']])
    return out


def run(ctx):
    b = lib.standard_build(ctx)
    if not lib.require_builds(ctx, b):
        return
    r = ctx.rng
    quick = ctx.tier == 'quick'
    names = ['A', 'B', 'C']
    subsets = [list(s) for k in range(4) for s in itertools.combinations(names, k)]
    pols = ['policies'] + [S(t) for t in POLICY_TEXTS] + literal_policies()
    store = ['store'] + [['ent', gen.vent(n, i), ['parents', gen.vent(m, 'x')], ['attrs'], ['tags']] for n in names for m in names for i in ('x',)]
    req = ['req', gen.vent('A', 'x'), gen.vent('Action', 'a'), gen.vent('B', 'y'), ['rec']]
    cases = []
    n = 0
    # every entity-type parent graph on 3 names (each type: any subset as memberOfTypes) x every action-group graph on 3 actions (sampled)
    agraphs = list(itertools.product(subsets, repeat=3))
    for egraph in itertools.product(subsets, repeat=3):
        for ag in ([agraphs[0]] + r.sample(agraphs, 2 if quick else 12)):
            text = ''
            for nm, ps in zip(names, egraph):
                text += 'entity %s%s { p?: %s };\n' % (nm, (' in [' + ', '.join(ps) + ']') if ps else '', r.choice(names))
            for an, ps in zip(['a', 'b', 'c'], ag):
                acts = {'A': 'a', 'B': 'b', 'C': 'c'}
                text += 'action %s%s appliesTo { principal: [A, B], resource: [B, C], context: { t?: Long } };\n' % (
                    an, (' in [' + ', '.join(acts[p] for p in ps) + ']') if ps else '')
            n += 1
            cases.append('(case g%d schemarun text %s %s %s %s)' % (n, S(text), sx.dump(pols), sx.dump(store), sx.dump(req)))
    # common-type reference graphs incl. cycles and shadowing
    tnames = ['T', 'U', 'V']
    for tg in itertools.product(subsets, repeat=3):
        tmap = {'A': 'T', 'B': 'U', 'C': 'V'}
        text = 'entity A { p: T }; entity B; entity C;\n'
        for tn, refs in zip(tnames, tg):
            fields = ', '.join('f%d: %s' % (i, r.choice([tmap[x], 'Set<' + tmap[x] + '>', '{ g: ' + tmap[x] + ' }'])) for i, x in enumerate(refs))
            text += 'type %s = { %s };\n' % (tn, fields)
        text += 'action a appliesTo { principal: [A], resource: [B], context: T };\n'
        n += 1
        cases.append('(case t%d schemarun text %s %s %s %s)' % (n, S(text), sx.dump(pols), sx.dump(store), sx.dump(req)))
    # the same reference graphs with the common types spread over the empty namespace and a namespace NS, referenced by unqualified
    # name (own namespace first, then the empty namespace) or by qualified name; every type is used by an entity of each namespace
    placements = list(itertools.product(['', 'NS'], repeat=3))
    for tg in itertools.product(subsets, repeat=3):
        for place in (placements if not quick else r.sample(placements, 2)):
            ns_of = dict(zip(tnames, place))
            tmap = {'A': 'T', 'B': 'U', 'C': 'V'}

            def ref(x, frm):
                if ns_of[x] == 'NS':
                    if frm != 'NS':
                        # from outside, a type of NS needs its qualified name; the bare name is then undefined THERE (whoever expands the body)
                        return 'NS::' + x if r.random() < 0.8 else x
                    return 'NS::' + x if r.random() < 0.5 else x
                return x
            decl = {'': '', 'NS': ''}
            for tn, refs in zip(tnames, tg):
                fields = ', '.join('f%d: %s' % (i, r.choice(['%s', 'Set<%s>', '{ g: %s }']) % ref(tmap[x], ns_of[tn])) for i, x in enumerate(refs))
                decl[ns_of[tn]] += 'type %s = { %s };\n' % (tn, fields)
            if r.random() < 0.5:
                text = decl[''] + 'entity A { p: %s, q?: %s }; entity B; entity C;\n' % (ref('T', ''), ref('V', ''))
                text += 'action a appliesTo { principal: [A], resource: [B], context: %s };\n' % ref('U', '')
            else:
                # the bare declarations use no common type: every use comes from inside NS (a bare type's body is then reached only from there)
                text = decl[''] + 'entity A; entity B; entity C;\naction a appliesTo { principal: [A], resource: [B], context: {} };\n'
            text += 'namespace NS {\n' + decl['NS'] + 'entity N { p: %s, q?: %s } tags %s;\n' % (ref('T', 'NS'), ref('U', 'NS'), ref('V', 'NS'))
            text += 'action n appliesTo { principal: [N], resource: [N], context: { c: %s } };\n}\n' % ref('T', 'NS')
            n += 1
            cases.append('(case x%d schemarun text %s %s %s %s)' % (n, S(text), sx.dump(pols), sx.dump(store), sx.dump(req)))
    # deep diamond-shaped hierarchies: a node reachable along 2^depth paths must still be searched once (entity types, action groups)
    for depth in ((12, 40, 80) if quick else (12, 24, 40, 80, 200)):
        text = 'entity Other; entity A%d;\n' % depth        # (Other: a declared type the ladder never reaches - a search for it must exhaust the ladder, once)
        for i in range(depth - 1, -1, -1):
            text += 'entity L%d in [A%d]; entity R%d in [A%d]; entity A%d in [L%d, R%d];\n' % (i, i + 1, i, i + 1, i, i, i)
        text += 'action a%d;\n' % depth
        for i in range(depth - 1, -1, -1):
            text += 'action l%d in [a%d]; action r%d in [a%d]; action a%d in [l%d, r%d] appliesTo { principal: [A0], resource: [A0, A%d] };\n' % (i, i + 1, i, i + 1, i, i, i, depth)
        dp = ['policies'] + [S(t) for t in (
            'permit(principal, action in Action::"zz", resource);', 'permit(principal, action in Action::"a%d", resource);' % depth,
            'permit(principal, action in [Action::"a%d", Action::"l0"], resource);' % depth, 'permit(principal in Zed::"z", action, resource);',
            'permit(principal, action == Action::"a0", resource) when { principal in A%d::"x" && action in Action::"a%d" && principal in Nope::"y" };' % (depth, depth),
            'permit(principal, action, resource) when { principal in resource || action in [Action::"a%d", Action::"nope"] };' % depth,
            'permit(principal is A0 in A%d::"x", action, resource is A%d);' % (depth, depth),
            'permit(principal, action == Action::"a0", resource) when { principal in Other::"o" || resource in Other::"o" };',
            'permit(principal, action == Action::"a0", resource) when { [principal, resource].contains(Other::"o") || principal in [Other::"o", Other::"p"] };')]
        dstore = ['store', ['ent', gen.vent('A0', 'x'), ['parents', gen.vent('L0', 'x'), gen.vent('R0', 'x')], ['attrs'], ['tags']],
                  ['ent', gen.vent('Action', 'a0'), ['parents'] + [gen.vent('Action', '%s%d' % (k, i)) for i in range(depth) for k in 'lr'] +
                   [gen.vent('Action', 'a%d' % i) for i in range(1, depth + 1)], ['attrs'], ['tags']]]
        n += 1
        cases.append('(case d%d schemarun text %s %s %s %s)' % (n, S(text), sx.dump(dp), sx.dump(dstore),
                                                              sx.dump(['req', gen.vent('A0', 'x'), gen.vent('Action', 'a0'), gen.vent('A0', 'y'), ['rec']])))
    for i in range(600 if quick else 30000):
        n += 1
        cases.append('(case r%d schemarun text %s %s %s %s)' % (n, S(schematext.schema_text(r)), sx.dump(pols), sx.dump(store), sx.dump(req)))
    # tags of every kind of type - scalars, entities, records, sets of those (the last three are not comparable with == in Go) - read through unions
    # of two entity types, in both modes
    tagkinds = {'S': 'String', 'L': 'Long', 'E': 'Team', 'R': '{ x: Long, t?: Team }', 'Q': 'Set<Team>', 'W': 'Set<{ x: Long }>', 'D': 'decimal'}
    ttext = 'entity Team;\n' + ''.join('entity %s1 tags %s; entity %s2 tags %s;\n' % (k_, v_, k_, v_) for k_, v_ in sorted(tagkinds.items()))
    allt = ', '.join('%s%d' % (k_, i_) for k_ in sorted(tagkinds) for i_ in (1, 2))
    ttext += 'action a appliesTo { principal: [%s], resource: [%s], context: { flag: Bool } };\n' % (allt, allt)
    tp = ['policies']
    for k1 in sorted(tagkinds):
        for k2 in sorted(tagkinds):
            u_ = '(if context.flag then principal else resource)'
            scope = 'permit(principal is %s1, action, resource is %s2)' % (k1, k2)
            tp += [S(scope + ' when { %s.hasTag("k") && %s.getTag("k") == %s.getTag("k") };' % (u_, u_, u_)),
                   S(scope + ' when { %s.getTag("k") == principal.getTag("k") };' % u_),
                   S(scope + ' when { principal.hasTag("k") && resource.hasTag("k") && principal.getTag("k") == resource.getTag("k") };')]
    tstore = ['store'] + [['ent', gen.vent('%s%d' % (k_, i_), 'x'), ['parents'], ['attrs'], ['tags']] for k_ in sorted(tagkinds) for i_ in (1, 2)]
    n += 1
    cases.append('(case tg%d schemarun text %s %s %s %s)' % (n, S(ttext), sx.dump(tp), sx.dump(tstore),
                                                           sx.dump(['req', gen.vent('E1', 'x'), gen.vent('Action', 'a'), gen.vent('E2', 'x'), gen.vrec([('flag', gen.vbool(True))])])))
    for i in range(150 if quick else 3000):
        sch = schemagen.Schema(r)
        ps = ['policies'] + [sch.policy(r.choice([1, 2, 3])) for _ in range(4)] + [sch.hazard_policy() for _ in range(3)] + literal_policies()
        n += 1
        cases.append('(case w%d schemarun text %s %s %s %s)' % (n, S(sch.text()), sx.dump(ps), sx.dump(sch.store()), sx.dump(sch.request())))
    ctx.rule = ('all 512 entity-type parent graphs on 3 names (self loops, cycles, diamonds) x sampled action-group graphs, all 512 common-type '
                'reference graphs on 3 names (direct, through Set<>, through nested records), the same graphs with the types spread over two namespaces and referenced by qualified / unqualified names, random full-featured schemas (undefined references, '
                'shadowing, namespaces, enums), well-formed schemas with typed policies, diamond-shaped entity-type and action-group hierarchies 12-80 levels deep (2^depth paths); each resolved and used to validate 6 text policies with '
                '`in` / `is..in` / attribute chains + 18 policies with set / record / extension literals, a store and a request, in both modes. '
                'non-trivial = the schema resolved and the validator ran')
    ctx.exhaustive = True
    go = lib.run_go(cases, 'schemarun', ctx.workdir, timeout_ms=20000)
    bad = 0
    hist = {}
    for c in cases:
        res = go.get(lib.case_id(c), '(missing)')
        k = res.split(' ')[0].rstrip(')')
        hist[k] = hist.get(k, 0) + 1
        ctx.count(c[:2500], res.startswith('(ok'))
        if res.startswith('(ok') or res in ('(parse-error)', '(resolve-error)'):
            continue
        bad += 1
        if bad <= 6:
            text = sx.unS(c.split(' ')[4]).decode('utf-8', 'replace')
            ctx.violation('schema resolution / validation did not return a verdict: %s\nSCHEMA:\n%s' % (res[:300], text[:600]), dict(kind='case', case=c, go=res))
    ctx.extra['result_histogram'] = hist
    # correspondence: Resolve (registration, shadowing, Kahn cycle check, reference resolution, action membership) = Impl/SchemaResolve.v
    texts = sorted({c.split(' ')[4] for c in cases})
    rcases = ['(case s%d schemaresolve %s)' % (i, t) for i, t in enumerate(texts)]
    # JSON-born schemas: names are not validated there, so namespaces, common types and references may contain ':' and '::'
    import json as _json
    NAMES = ['T', ':T', 'T:', 'a:b', '::T', 'U', 'a', ':']
    NSS = ['', 'a', 'a:', 'a::b', ':', 'NS']
    for i in range(400 if quick else 8000):
        doc = {}
        for nsn in r.sample(NSS, r.randrange(1, 3)):
            cts = {}
            for cn in r.sample(NAMES, r.randrange(0, 4)):
                k = r.random()
                ref = r.choice(NAMES + [nsn + '::' + x for x in NAMES[:3]] + ['a:::T', 'a::T', 'String'])
                cts[cn] = {"type": ref} if k < 0.6 else ({"type": "Set", "element": {"type": ref}} if k < 0.8 else
                                                           {"type": "Record", "attributes": {"f": {"type": ref}, "g": {"type": "Long"}}})
            ents = {en: {"shape": {"type": "Record", "attributes": {"f": {"type": r.choice(NAMES + ['Long'])}}}} if r.random() < 0.8 else {}
                    for en in r.sample(['E', 'T', 'F'], r.randrange(1, 3))}
            doc[nsn] = {"commonTypes": cts, "entityTypes": ents, "actions": {}}
        rcases.append('(case j%d schemaresolve %s (json))' % (i, S(_json.dumps(doc))))
    gor = lib.run_go(rcases, 'schemaresolve', ctx.workdir, timeout_ms=20000)
    mcases, gverdict = [], {}
    ambiguous = 0

    def joined_names_collide(ast):
        # names that contain ':' (only a JSON schema can carry them; no Cedar identifier does) can make two declarations of different namespaces
        # share one qualified name - a::  + :T  and  a + :::T - which the resolver's string-keyed maps conflate and the model's pairs do not:
        # such schemas are outside the modelled domain (counted in the evidence)
        seen = {}
        for ns in ast[1:]:
            nsn = sx.unS(ns[1])
            for sect in ns[2:]:
                if sect[0] in ('entities', 'enums', 'commons'):
                    for d in sect[1:]:
                        nm = sx.unS(d[1] if sect[0] != 'commons' else d[0])
                        q = nm if nsn == b'' else nsn + b'::' + nm
                        if q in seen and seen[q] != (nsn, nm):
                            return True
                        seen[q] = (nsn, nm)
        return False
    for c in rcases:
        res = gor.get(lib.case_id(c), '(missing)')
        if res.startswith('((ast '):
            t = sx.parse(res)
            if joined_names_collide(t[0][1]):
                ambiguous += 1
                continue
            mcases.append('(case %s schemaresolve %s)' % (lib.case_id(c), sx.dump(t[0][1])))
            gverdict[lib.case_id(c)] = lib.canon_str(sx.dump(t[1][1]))
    mor = lib.run_model(mcases, 'schemaresolve', ctx.workdir)
    mism = nok = 0
    for c in mcases:
        cid = lib.case_id(c)
        m_ = lib.canon_str(mor.get(cid, '(missing)'))
        nok += gverdict[cid].startswith('(ok')
        if m_ != gverdict[cid]:
            mism += 1
            if mism <= 5:
                ctx.violation('schema resolution: Go and the Coq model (Impl/SchemaResolve.v) disagree: go=%s model=%s\nAST: %s' % (gverdict[cid][:300], m_[:300], c[:800]),
                              dict(kind='case', case=c, go=gverdict[cid], model=m_))
    ctx.extra['resolve_correspondence'] = dict(schemas=len(mcases), resolved=nok, outside_domain_colliding_colon_names=ambiguous)
    ctx.oblige('correspondence: resolved.Resolve verdict and resolved types = Impl/SchemaResolve.resolve_schema on %d parsed schemas (%d resolve)' % (len(mcases), nok),
               'correspondence', mism == 0)
    ctx.oblige('runtime oracle: resolution and validation return a verdict on %d schemas (no panic, crash, hang)' % len(cases), 'oracle', bad == 0)
    for c in cases[:2]:
        ctx.sample(dict(schema=sx.unS(c.split(' ')[4]).decode('utf-8', 'replace')[:300], go=go.get(lib.case_id(c))))
    # probe for the known finding F48 (the error text of an unguarded tag access doubles with every nested constant conditional in the key): the
    # signature is the growth between two small depths, so the line disappears when the printer is repaired and nothing expensive is ever run
    pr = lib.run_go(['(case g10 gettag-message 10)', '(case g14 gettag-message 14)'], 'f48', ctx.workdir)
    try:
        l10, l14 = int(sx.parse(pr['g10'])[1]), int(sx.parse(pr['g14'])[1])
    except Exception:
        l10 = l14 = None
        ctx.violation('the probe for F48 did not run: %s' % str(pr)[:300], dict(kind='probe', go=str(pr)), found_input=False)
    if l10 and l14 and l14 > 12 * l10:
        ctx.known('F48', 'Validator.Policy: the error text for getTag(<k nested constant conditionals>) doubles with k (%d bytes at k=10, %d at k=14): no verdict for k around 30' % (l10, l14))
    ctx.extra['f48_probe'] = dict(len10=l10, len14=l14)
    lib.epilogue(ctx)
