"""C14 — results are deterministic functions of their inputs.
Theorems: Properties/C14.v (order-irrelevance of the authorizer loop, of the store / parent-set / record-field schedules for the
evaluator, of set construction).  Direct oracle: every operation is repeated 40 times in one process (Go re-randomises map
iteration per loop) with shuffled insertion orders of policies and entities; decisions, reason/error sets WITH messages and
encoder output bytes must be identical."""
import re

import lib
import gen
import sx
from gen import S, lit, case
import props.c01 as c01

NONENT_IN = re.compile(r'\(in ')


def f23_shape(c):
    """`in` whose right operand is a set (literal or built) with at least two non-entity members: the type-error message names one of them"""
    return '(in ' in c or '(isIn ' in c or '(inset' in c


def run(ctx):
    b = lib.standard_build(ctx)
    if not lib.require_builds(ctx, b, ):
        return
    r = ctx.rng
    g = gen.Gen(r)
    quick = ctx.tier == 'quick'
    cases = []
    store, req = c01.fixed_env()
    # targeted: several failing sub-expressions whose evaluation order could depend on a map
    bad1 = ['add', lit(gen.vlong(1)), lit(gen.vstr('a'))]
    bad2 = ['add', lit(gen.vlong(gen.MAX64)), lit(gen.vlong(1))]
    bad3 = ['access', ['var', 'context'], S('nosuch')]
    targeted = [
        ['mkrec', [S('a'), bad1], [S('b'), bad2], [S('c'), bad3]],
        ['mkrec', [S('z'), bad3], [S('y'), bad2], [S('x'), bad1], [S('w'), lit(gen.vlong(1))]],
        ['mkset', bad1, bad2, bad3],
        ['eq', ['mkrec', [S('b'), bad2], [S('a'), bad1]], ['mkrec']],
        ['containsAll', lit(gen.vset([gen.vlong(1), gen.vlong(2), gen.vlong(3)])), lit(gen.vset([gen.vlong(3), gen.vlong(1)]))],
        ['in', lit(gen.vent('User', 'a')), lit(gen.vset([gen.vent('Group', 'a'), gen.vent('Group', 'b'), gen.vent('User', 'zz')]))],
        ['in', lit(gen.vent('User', 'a')), lit(gen.vset([gen.vlong(7), gen.vstr('a'), gen.vbool(True)]))],
        ['call', S('decimal'), lit(gen.vstr('1.23456'))],
    ]
    # `in` / `is..in` / containsAny... over sets that mix the left operand itself, other entities, ancestors and ONE non-entity value:
    # every answer must be the same whichever member the map iteration meets first
    ua, ga = gen.vent('User', 'a'), gen.vent('Group', 'a')
    for lhs in (lit(ua), ['var', 'principal']):
        for extra in ([gen.vlong(1)], [gen.vstr('x')], [gen.vlong(1), gen.vent('Group', 'b')], [gen.vset([])], []):
            for members in ([ua], [ua, ga], [ga], [gen.vent('User', 'zz')], [ua, gen.vent('User', 'zz'), gen.vent('Doc', 'zz')]):
                vals = members + extra
                targeted.append(['in', lhs, lit(gen.vset(vals))])
                targeted.append(['in', lhs, ['mkset'] + [lit(v) for v in vals]])
                targeted.append(['isIn', lhs, S('User'), lit(gen.vset(vals))])
                targeted.append(['in', lhs, ['access', ['mkrec', [S('s'), lit(gen.vset(vals))]], S('s')]])
    n = 0
    for e in targeted:
        n += 1
        cases.append(case('t%d' % n, 'determ-eval', store, req, e))
    # `in` over hierarchies with cycles through the entity the search starts from and several parents per entity: which parent the map yields
    # first must not matter (every small graph shape below, every target)
    def cyc_store(edges, names):
        return ['store'] + [['ent', gen.vent('N', x), ['parents'] + [gen.vent('N', y) for (a_, y) in edges if a_ == x], ['attrs'], ['tags']] for x in names]
    shapes = [[('a', 'b'), ('b', 'a'), ('b', 'c'), ('c', 'd')],                       # back to the start, then onwards
              [('a', 'b'), ('b', 'a'), ('b', 'c'), ('b', 'e'), ('c', 'd'), ('e', 'd')],
              [('a', 'a'), ('a', 'b'), ('a', 'c'), ('c', 'd')],                       # self parent beside real parents
              [('a', 'b'), ('a', 'c'), ('b', 'a'), ('c', 'a'), ('c', 'd'), ('b', 'e'), ('e', 'd')],
              [('a', 'b'), ('b', 'c'), ('c', 'a'), ('c', 'd'), ('c', 'e'), ('c', 'f'), ('f', 'g')]]
    for sh in shapes:
        names = sorted({x for e_ in sh for x in e_})
        st = cyc_store(sh, names)
        rq = ['req', gen.vent('N', 'a'), gen.vent('Action', 'view'), gen.vent('N', names[-1]), ['rec']]
        for tgt in names + ['zz']:
            n += 1
            cases.append(case('t%d' % n, 'determ-eval', st, rq, ['in', ['var', 'principal'], lit(gen.vent('N', tgt))]))
            n += 1
            cases.append(case('t%d' % n, 'determ-eval', st, rq, ['in', lit(gen.vent('N', 'a')), lit(gen.vset([gen.vent('N', tgt), gen.vent('N', 'nobody')]))]))
            n += 1
            cases.append(case('t%d' % n, 'determ-eval', st, rq, ['isIn', ['var', 'principal'], S('N'), lit(gen.vent('N', tgt))]))
            pol = [['policy', S('p0'), 'permit', ['in', gen.vent('N', tgt)], ['all'], ['all'], ['conds']],
                   ['policy', S('p1'), 'forbid', ['all'], ['all'], ['isin', S('N'), gen.vent('N', tgt)], ['conds', ['unless', ['in', ['var', 'principal'], lit(gen.vent('N', tgt))]]]]]
            n += 1
            cases.append(case('ta%d' % n, 'determ-authz', st, rq, ['policies'] + pol))
    for i in range(250 if quick else 8000):
        cases.append(case('e%d' % i, 'determ-eval', g.store(), g.request(), g.expr(r.choice([2, 3, 4]), r.choice([None, 'bool', 'set', 'rec']))))
    for i in range(150 if quick else 5000):
        # ids of every flavour in one set: the loader's policy<n> (numeric and string order disagree from policy10 on), hand-made names that fall
        # lexically between them, ids that need escapes: the order of the encoded set is one total order, the same on every call
        idpool = ['policy%d' % k for k in (0, 1, 2, 5, 9, 10, 11, 20, 100)] + ['policy1_admin', 'policy5x', 'policy', 'policy01', 'a', 'B', '', 'é', 'p q', 'p0', 'p1', 'p2']
        ids = r.sample(idpool, r.randrange(1, 8))
        pols = [g.policy(pid, depth=r.choice([1, 2, 3])) for pid in ids]
        cases.append(case('a%d' % i, 'determ-authz', g.store(), g.request(), ['policies'] + pols))
    for i in range(250 if quick else 8000):
        pol = g.policy('p', depth=r.choice([1, 2, 3]))
        ann = ['annots'] + [[S(k), S(r.choice(['', 'v', 'x y']))] for k in r.sample(['a', 'b', 'c', 'id', 'zz', 'k9'], r.randrange(0, 5))]
        cases.append(case('p%d' % i, 'determ-policy', pol + [ann]))
    for i in range(120 if quick else 4000):
        cases.append(case('m%d' % i, 'determ-entities', g.store(), g.value(3)))
    # entity uids that coincide under naive sort keys: Type + "::" + id, unquoted ids, ids with quotes and separators
    tricky = [gen.vent('Doc', 'Team::alice'), gen.vent('Doc::Team', 'alice'), gen.vent('Doc', 'a"b'), gen.vent('Doc', 'a\\"b'), gen.vent('A::B', 'c'), gen.vent('A', 'B::c'),
              gen.vent('A', 'B::"c'), gen.vent('A::B', '"c'), gen.vent('A', ''), gen.vent('A', '::'), gen.vent('A::', 'x')]
    for i in range(30 if quick else 600):
        ents = r.sample(tricky, r.randrange(2, len(tricky) + 1))
        cases.append(case('k%d' % i, 'determ-entities', ['store'] + [['ent', e, ['parents'] + r.sample(ents, r.randrange(0, 3)), ['attrs'], ['tags']] for e in ents], gen.vset(ents)))
    # batch authorization: the same template, variables and policies give the same multiset of results on every repetition
    import props.c05 as c05
    import props.c06 as c06
    nb = 0
    for i in range(150 if quick else 4000):
        c, meta = c05.gen_case(r, i, 'none')
        cases.append(c.replace(' batch ', ' determ-batch ', 1).replace('(case b', '(case d', 1))
        nb += 1
    # a composite request part that holds an ignored entry AND a variable, consumed whole by ==, contains, in, or projected
    C = ['var', 'context']
    for fields in ([('debug', c06.ign()), ('tier', c06.var('n'))], [('a', c06.ign()), ('b', c06.var('n')), ('c', c06.var('m'))],
                   [('s', gen.vset([c06.ign(), c06.var('n'), gen.vlong(7)]))], [('r', gen.vrec([('x', c06.ign()), ('y', c06.var('n'))])), ('z', c06.var('m'))]):
        for cond in (['eq', C, lit(gen.vrec([(k, gen.vlong(1)) for k, _ in fields]))], ['has', C, S(fields[0][0])],
                     ['eq', ['access', C, S(fields[-1][0])], lit(gen.vlong(1))], ['contains', ['mkset', C], C],
                     ['eq', ['mkrec', [S('k'), C]], ['mkrec', [S('k'), lit(gen.vlong(1))]]], ['in', lit(c06.UA), ['mkset', lit(c06.UA), C]]):
            for eff in ('permit', 'forbid'):
                nb += 1
                pols = [['policy', S('p0'), eff, ['all'], ['all'], ['all'], ['conds', ['when', cond]]],
                        ['policy', S('p1'), 'permit', ['all'], ['all'], ['all'], ['conds']]]
                cases.append(case('dt%d' % nb, 'determ-batch', c06.STORE, ['req', c06.UA, c06.ACT, c06.DOC, gen.vrec(fields)],
                                  ['vars', [S('n'), gen.vlong(1), gen.vlong(2)], [S('m'), gen.vlong(1), gen.vlong(3)]], ['policies'] + pols, ['mode', 'none']))
    # schemas born as ASTs (entity types with several parents in any order, action groups, annotations, namespaces): both encoders, in
    # both call orders, on the same object and on fresh copies; decode the same bytes twice and re-encode
    import schemaast
    for i in range(300 if quick else 8000):
        a = schemaast.schema_ast(r) if i % 3 else schemaast.wild_ast(r, tame=True)
        cases.append(case('s%d' % i, 'determ-schema', a))
    ctx.rule = ('each case is run 40 times in one process with entity maps and policy sets rebuilt in shuffled insertion order: expression '
                'evaluation (value or error MESSAGE), authorization (decision, set of reasons, set of errors incl. messages), policy-set / policy / '
                'entity-map / value encoders (bytes), decode-then-encode from JSON and from text (bytes), batch authorization (status, callbacks, multiset of results; templates that mix ignored entries and variables inside one composite), schemas (text and JSON encoders interleaved on one object and on fresh copies, the schema unchanged by encoding, decode-twice-and-re-encode). Includes record literals with several '
                'failing fields, sets, `in` over sets, 1-6 policy sets, annotated policies. non-trivial = the case contains a map-backed collection')
    go = lib.run_go(cases, 'determ', ctx.workdir, timeout_ms=60000)
    bad = 0
    for c in cases:
        res = go.get(lib.case_id(c), '(missing)')
        ctx.count(c.split(' ', 2)[2], '(mkrec' in c or '(set' in c or '(rec' in c or '(policies' in c or '(annots' in c or ' determ-schema ' in c)
        if res in ('(same)', '(unrenderable)'):
            continue
        if res.startswith('(differs eval') or res.startswith('(differs authorize'):
            t = sx.parse(res)
            a, b2 = sx.unS(t[2]).decode('utf-8', 'replace'), sx.unS(t[3]).decode('utf-8', 'replace')
            if 'expected (entity of type `any_entity_type`), got' in a and 'expected (entity of type `any_entity_type`), got' in b2 and f23_shape(c):
                ctx.known('F23', '`in` over a set with several non-entity members: the type-error message names whichever member map iteration meets first')
                continue
        bad += 1
        if bad <= 5:
            ctx.violation('non-deterministic result: ' + res[:400], dict(kind='case', case=c, go=res))
    ctx.oblige('direct oracle: 40 repetitions with shuffled insertion orders give identical results/bytes (%d cases)' % len(cases), 'oracle', bad == 0)
    for c in cases[:2] + cases[-2:]:
        ctx.sample(dict(case=c[:300], go=(go.get(lib.case_id(c)) or '')[:200]))
    lib.epilogue(ctx)
