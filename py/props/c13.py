"""C13 — entity, value and request JSON round-trip without loss.
Theorems: Properties/C13.v (JSON-tree codec of values).  Direct oracles on the Go code: decode(encode x) equals x and a second
encoding is byte-identical, for values, entities, entity maps, requests, decisions and diagnostics; every accepted spelling
of a datum (explicit __entity/__extn, implicit forms in typed positions, schema-guided coercion) decodes to an equal value."""
import re

import lib
import gen
import sx
from gen import S, case

WRAP = re.compile(r'\((?:l|dec|dur|dt) -1\)')


def two_wrapping_members(text):
    """the signature of F16: a set value in which linear probing pushes a member past slot 2^64-1 (computed, see py/vhash.py)"""
    import vhash
    return vhash.any_wrapping_set(text)


def extn_shaped_record(text):
    return S('__extn') in text or S('__entity') in text


def sort_arrs(t):
    if isinstance(t, str) or not t:
        return t
    items = [sort_arrs(x) for x in t]
    if items[0] == 'arr':
        return ['arr'] + sorted(items[1:], key=sx.dump)
    return items


def proj_tree(res):
    """JSON tree results: a set is encoded as an array in slot order (C11 decides that order); compare arrays as multisets"""
    try:
        return sx.dump(sort_arrs(sx.canon(sx.parse(res))))
    except Exception:
        return res


def json_of_value(v, r, alt):
    """the JSON tree of a value s-expression, as the encoder writes it (alt=False) or in another accepted / nearly accepted spelling"""
    h = v[0]
    st = lambda s: ['str', s]
    if h == 'b': return ['bool', v[1]]
    if h == 'l': return ['num', v[1]] if not (alt and r.random() < 0.1) else ['numother']
    if h == 's': return st(v[1])
    if h == 'e':
        inner = ['obj', [S('type'), st(v[1])], [S('id'), st(v[2])]]
        if alt:
            k = r.randrange(7)
            if k == 0: return inner                                   # implicit form: a record in a value position
            if k == 1: return ['obj', [S('__entity'), ['obj', [S('type'), st(v[1])]]]]      # id absent
            if k == 2: return ['obj', [S('__entity'), ['obj', [S('id'), st(v[2])], [S('type'), ['null']]]]]
            if k == 3: return ['obj', [S('__entity'), inner], [S('extra'), ['num', '1']]]
            if k == 4: return ['obj', [S('__entity'), ['obj', [S('type'), ['num', '1']], [S('id'), st(v[2])]]]]
            if k == 5: return ['obj', [S('__entity'), inner], [S('type'), ['num', '7']]]
            if k == 6: return ['obj', [S('__entity'), ['obj', [S('type'), st(v[1])], [S('id'), st(v[2])], [S('id'), st(S('second'))]]]]
        return ['obj', [S('__entity'), inner]]
    if h == 'set': return ['arr'] + [json_of_value(x, r, alt) for x in v[1:]]
    if h == 'rec':
        members = [[kv[0], json_of_value(kv[1], r, alt)] for kv in v[1:]]
        if alt and members and r.random() < 0.2:
            members.append([members[0][0], ['null'] if r.random() < 0.5 else ['num', '3']])       # duplicate key: the last one wins
        return ['obj'] + members
    return None


def proj_entities(res):
    """entity-map trees: the order of entities and of parents is part of the encoding (sorted); arrays INSIDE attrs / tags are set values"""
    try:
        t = sx.canon(sx.parse(res))
    except Exception:
        return res
    def ent(e):
        if isinstance(e, list) and e and e[0] == 'obj':
            return ['obj'] + [[kv[0], sort_arrs(kv[1]) if sx.unS(kv[0]) in (b'attrs', b'tags') else kv[1]] for kv in e[1:]]
        return e
    if isinstance(t, list) and len(t) == 2 and t[0] == 'tree' and isinstance(t[1], list) and t[1] and t[1][0] == 'arr':
        t = ['tree', ['arr'] + [ent(e) for e in t[1][1:]]]
    return sx.dump(t)


def entity_part(ctx, g):
    """EntityMap.MarshalJSON / UnmarshalJSON = Impl/EntityJson.v on JSON trees"""
    r = ctx.rng
    quick = ctx.tier == 'quick'
    tricky = [gen.vent('Doc', 'Team::alice'), gen.vent('Doc::Team', 'alice'), gen.vent('Doc', 'a"b'), gen.vent('Doc', 'a\\"b'), gen.vent('A::B', 'c'), gen.vent('A', 'B::c'),
              gen.vent('A', ''), gen.vent('A', '::'), gen.vent('', 'x'), gen.vent('A', 'é'), gen.vent('A', '\n'), gen.vent('a', 'b'), gen.vent('B', 'a')]
    stores = []
    for i in range(500 if quick else 20000):
        st = g.store()
        if i % 3 == 0:
            ents = r.sample(tricky, r.randrange(1, 7))
            st = ['store'] + [['ent', e, ['parents'] + r.sample(tricky, r.randrange(0, 4)), ['attrs'] + ([[S('k'), g.value(2)]] if r.random() < 0.5 else []),
                               ['tags'] + ([[S('t'), g.value(1)]] if r.random() < 0.3 else [])] for e in ents]
        if not lib.has_4in6(sx.dump(st)):
            stores.append(st)
    # the sort key of the entity map (EntityUID.String()) is read off the code
    uids = set()
    for st in stores:
        for e in st[1:]:
            uids.add(sx.dump(e[1]))
    keys = lib.run_go(['(case k0 ukeys (uids %s))' % ' '.join(sorted(uids))], 'ukeys', ctx.workdir).get('k0', '(keys)')
    enc = [case('ee%d' % i, 'ejsonenc', st, sx.parse(keys)) for i, st in enumerate(stores)]
    go_e, mo_e, m1 = lib.differential(ctx, enc, 'ejsonenc', project=proj_entities,
                                      describe='JSON encoding of an entity map: Go and the Coq model (Impl/EntityJson.v) disagree')
    ctx.oblige('correspondence: EntityMap.MarshalJSON = EntityJson.enc_entity_map as JSON trees (%d entity maps; order of entities and parents exact)' % len(enc),
               'correspondence', not m1)
    trees = []
    for c in enc:
        res_ = go_e.get(lib.case_id(c), '')
        if res_.startswith('(tree '):
            trees.append(sx.parse(res_)[1])
    JUNK = [['null'], ['num', '1'], ['str', S('x')], ['arr'], ['obj'], ['bool', '1'], ['obj', [S('type'), ['str', S('T')]]], ['obj', [S('type'), ['str', S('T')]], [S('id'), ['str', S('i')]]],
            ['obj', [S('__entity'), ['obj', [S('type'), ['str', S('T')]], [S('id'), ['str', S('i')]]]]], ['obj', [S('__entity'), ['obj', [S('type'), ['num', '1']]]]],
            ['obj', [S('__entity'), ['null']], [S('type'), ['str', S('T')]], [S('id'), ['str', S('i')]]], ['obj', [S('type'), ['null']], [S('id'), ['str', S('i')]]],
            ['arr', ['obj', [S('type'), ['str', S('T')]], [S('id'), ['str', S('i')]]], ['obj', [S('type'), ['str', S('T')]], [S('id'), ['str', S('i')]]]]]
    KEYS = ['uid', 'parents', 'attrs', 'tags', 'type', 'id', '__entity', '__extn', 'zz', 'UID', 'Type']

    def nodes(t, path=()):
        yield path, t
        if not isinstance(t, str) and t and t[0] == 'arr':
            for i, x in enumerate(t[1:]):
                yield from nodes(x, path + (i + 1,))
        elif not isinstance(t, str) and t and t[0] == 'obj':
            for i, kv in enumerate(t[1:]):
                yield from nodes(kv[1], path + (i + 1, 1))

    def replace(t, path, f):
        if not path:
            return f(t)
        t = list(t)
        t[path[0]] = replace(t[path[0]], path[1:], f)
        return t

    def mutate(t):
        ns = list(nodes(t))
        path, sub = r.choice(ns)
        k = r.randrange(8)
        if k == 0: return replace(t, path, lambda x: r.choice(JUNK))
        objs = [(p_, x) for p_, x in ns if not isinstance(x, str) and x and x[0] == 'obj' and len(x) > 1]
        if not objs: return replace(t, path, lambda x: ['null'])
        p_, o = r.choice(objs)
        i = r.randrange(1, len(o))
        if k == 1: return replace(t, p_, lambda x: x[:i] + x[i + 1:])
        if k == 2: return replace(t, p_, lambda x: x[:i] + [[x[i][0], ['null']]] + x[i + 1:])
        if k == 3: return replace(t, p_, lambda x: x + [[x[i][0], r.choice(JUNK)]])
        if k == 4: return replace(t, p_, lambda x: [x[0]] + r.sample(x[1:], len(x) - 1))
        if k == 5: return replace(t, p_, lambda x: x + [[S(r.choice(KEYS)), r.choice(JUNK)]])
        if k == 6: return replace(t, p_, lambda x: x[:i] + [[S(r.choice(KEYS)), x[i][1]]] + x[i + 1:])
        return replace(t, path, lambda x: ['arr', x, x])          # e.g. an entity listed twice, a parent listed twice
    dec_trees = list(trees)
    for t in trees:
        for _ in range(3 if quick else 8):
            dec_trees.append(mutate(t))
    dec = [case('ed%d' % i, 'ejsondec', t) for i, t in enumerate(dec_trees)]
    go_d = lib.run_go(dec, 'ejsondec', ctx.workdir)
    mo_d = lib.run_model(dec, 'ejsondec', ctx.workdir)
    mism, unk, acc = 0, 0, 0
    for c in dec:
        cid = lib.case_id(c)
        g_, m_ = lib.canon_str(go_d.get(cid, '(missing)')), lib.canon_str(mo_d.get(cid, '(missing)'))
        if m_ == '(unmodelled)':
            unk += 1
            continue
        acc += g_.startswith('(ok')
        if g_ != m_:
            if two_wrapping_members(c) and sorted(g_) == sorted(m_):
                continue
            mism += 1
            if mism <= 6:
                ctx.violation('EntityMap.UnmarshalJSON: Go and the Coq model (Impl/EntityJson.v dec_entity_map) disagree: go=%s model=%s' % (g_[:400], m_[:400]),
                              dict(kind='case', case=c, go=g_, model=m_))
    ctx.extra['ejsondec'] = dict(cases=len(dec), accepted=acc, unmodelled=unk)
    ctx.oblige('correspondence: EntityMap.UnmarshalJSON = EntityJson.dec_entity_map on %d JSON trees (encoder outputs and structural mutants; %d outside the modelled domain)'
               % (len(dec), unk), 'correspondence', mism == 0)


def tree_mutator(r, JUNK, KEYS):
    """structural mutation of a JSON tree (S-expression form)"""
    def nodes(t, path=()):
        yield path, t
        if not isinstance(t, str) and t and t[0] == 'arr':
            for i, x in enumerate(t[1:]):
                yield from nodes(x, path + (i + 1,))
        elif not isinstance(t, str) and t and t[0] == 'obj':
            for i, kv in enumerate(t[1:]):
                yield from nodes(kv[1], path + (i + 1, 1))

    def replace(t, path, f):
        if not path:
            return f(t)
        t = list(t)
        t[path[0]] = replace(t[path[0]], path[1:], f)
        return t

    def mutate(t):
        ns = list(nodes(t))
        path, sub = r.choice(ns)
        k = r.randrange(8)
        if k == 0: return replace(t, path, lambda x: r.choice(JUNK))
        objs = [(p_, x) for p_, x in ns if not isinstance(x, str) and x and x[0] == 'obj' and len(x) > 1]
        if not objs: return replace(t, path, lambda x: ['null'])
        p_, o = r.choice(objs)
        i = r.randrange(1, len(o))
        if k == 1: return replace(t, p_, lambda x: x[:i] + x[i + 1:])
        if k == 2: return replace(t, p_, lambda x: x[:i] + [[x[i][0], ['null']]] + x[i + 1:])
        if k == 3: return replace(t, p_, lambda x: x + [[x[i][0], r.choice(JUNK)]])
        if k == 4: return replace(t, p_, lambda x: [x[0]] + r.sample(x[1:], len(x) - 1))
        if k == 5: return replace(t, p_, lambda x: x + [[S(r.choice(KEYS)), r.choice(JUNK)]])
        if k == 6: return replace(t, p_, lambda x: x[:i] + [[S(r.choice(KEYS)), x[i][1]]] + x[i + 1:])
        return replace(t, path, lambda x: ['arr', x, x])
    return mutate


def codec_pair(ctx, what, go_name, model_name, objs, enc_kind, dec_kind, mutate, nmut, project=None):
    """encoder correspondence on objs, decoder correspondence on the encoder outputs and their mutants"""
    enc = [case('%se%d' % (enc_kind[0], i), enc_kind, o) for i, o in enumerate(objs)]
    go_e, mo_e, m1 = lib.differential(ctx, enc, enc_kind, project=project,
                                      describe='JSON encoding of a %s: Go and the Coq model (Impl/RequestJson.v) disagree' % what)
    ctx.oblige('correspondence: %s = RequestJson.%s as JSON trees (%d objects)' % (go_name[0], model_name[0], len(enc)), 'correspondence', not m1)
    trees = [sx.parse(go_e[lib.case_id(c)])[1] for c in enc if go_e.get(lib.case_id(c), '').startswith('(tree ')]
    dec_trees = list(trees)
    for t in trees:
        for _ in range(nmut):
            dec_trees.append(mutate(t))
    dec = [case('%sd%d' % (dec_kind[0], i), dec_kind, t) for i, t in enumerate(dec_trees)]
    go_d = lib.run_go(dec, dec_kind, ctx.workdir)
    mo_d = lib.run_model(dec, dec_kind, ctx.workdir)
    mism, unk, acc = 0, 0, 0
    for c in dec:
        cid = lib.case_id(c)
        g_, m_ = lib.canon_str(go_d.get(cid, '(missing)')), lib.canon_str(mo_d.get(cid, '(missing)'))
        if m_ == '(unmodelled)':
            unk += 1
            continue
        acc += g_.startswith('(ok')
        if g_ != m_:
            if two_wrapping_members(c) and sorted(g_) == sorted(m_):
                continue
            mism += 1
            if mism <= 6:
                ctx.violation('%s: Go and the Coq model (Impl/RequestJson.v %s) disagree: go=%s model=%s' % (go_name[1], model_name[1], g_[:400], m_[:400]),
                              dict(kind='case', case=c, go=g_, model=m_))
    ctx.extra[dec_kind] = dict(cases=len(dec), accepted=acc, unmodelled=unk)
    ctx.oblige('correspondence: %s = RequestJson.%s on %d JSON trees (encoder outputs and structural mutants; %d outside the modelled domain)'
               % (go_name[1], model_name[1], len(dec), unk), 'correspondence', mism == 0)


def request_part(ctx, g):
    """json.Marshal / Unmarshal of Request, Diagnostic and Decision = Impl/RequestJson.v on JSON trees"""
    r = ctx.rng
    quick = ctx.tier == 'quick'
    uid_t = lambda t, i: ['obj', [S('type'), ['str', S(t)]], [S('id'), ['str', S(i)]]]
    JUNK = [['null'], ['num', '1'], ['num', '-7'], ['num', '9223372036854775807'], ['num', '9223372036854775808'], ['num', '-9223372036854775809'], ['numother'], ['str', S('x')], ['str', S('allow')],
            ['arr'], ['obj'], ['bool', '1'], uid_t('T', 'i'), ['obj', [S('__entity'), uid_t('T', 'i')]], ['obj', [S('__entity'), ['null']], [S('type'), ['str', S('T')]], [S('id'), ['str', S('i')]]],
            ['obj', [S('type'), ['null']], [S('id'), ['str', S('i')]]], ['arr', ['null'], ['obj']], ['obj', [S('__extn'), ['obj', [S('fn'), ['str', S('decimal')]], [S('arg'), ['str', S('1.5')]]]]]]
    KEYS = ['principal', 'action', 'resource', 'context', 'type', 'id', '__entity', '__extn', 'reasons', 'errors', 'policy', 'position', 'message', 'filename', 'offset', 'line', 'column',
            'zz', 'Principal', 'CONTEXT', 'Line', 'Reasons', 'Policy']
    mutate = tree_mutator(r, JUNK, KEYS)
    reqs = []
    for i in range(400 if quick else 15000):
        q = g.request()
        if i % 4 == 0:
            q = ['req', r.choice([gen.vent('Doc', 'a"b'), gen.vent('', ''), gen.vent('A::B', 'c\n'), gen.vent('A', '\u00e9')]), q[2], q[3], q[4]]
        if not lib.has_4in6(sx.dump(q)):
            reqs.append(q)
    codec_pair(ctx, 'request', ('json.Marshal(Request)', 'json.Unmarshal into Request'), ('enc_request', 'dec_request'), reqs, 'rjsonenc', 'rjsondec', mutate,
               3 if quick else 8, project=proj_tree)
    IDS = ['policy0', 'p', '', 'a"b', 'bell\x07', '\u00e9', 'x' * 40]
    FILES = ['', 'policies.cedar', 'dir/a b.cedar', '"']
    INTS = [0, 1, 2, 17, 4096, -1, 2**31, 2**63 - 1, -2**63]
    MSGS = ['', 'type error: expected bool, got long', 'attribute `a"b` does not exist', '\n']

    def pos():
        return [S(r.choice(FILES)), str(r.choice(INTS)), str(r.choice(INTS)), str(r.choice(INTS))]
    diags = []
    for i in range(400 if quick else 15000):
        rs = [['r', S(r.choice(IDS))] + pos() for _ in range(r.choice([0, 0, 1, 2, 3]))]
        es = [['e', S(r.choice(IDS))] + pos() + [S(r.choice(MSGS))] for _ in range(r.choice([0, 0, 1, 2]))]
        diags.append(['diag', ['reasons'] + rs, ['errors'] + es])
    codec_pair(ctx, 'diagnostic', ('json.Marshal(Diagnostic)', 'json.Unmarshal into Diagnostic'), ('enc_diagnostic', 'dec_diagnostic'), diags, 'djsonenc', 'djsondec', mutate,
               3 if quick else 8)
    dcs = [case('dc%d' % i, 'decjson', t) for i, t in enumerate(JUNK + [['str', S('deny')], ['str', S('Allow')], ['str', S('allow ')], ['str', S('')]])]
    lib.differential(ctx, dcs, 'decjson', describe='Decision.UnmarshalJSON: Go and the Coq model (Impl/RequestJson.v dec_decision) disagree')


def coerce_part(ctx, g):
    """x/exp/types/json.go coerceValue / coerceTagValues (hook VerifCoerceValue) = Impl/Coerce.v"""
    r = ctx.rng
    quick = ctx.tier == 'quick'
    EXT = {'decimal': (gen.DEC_STRS, lambda: gen.vdec(r.choice(gen.DECS))), 'duration': (gen.DUR_STRS, lambda: gen.vdur(r.choice(gen.DURS))),
           'datetime': (gen.DT_STRS, lambda: gen.vdt(r.choice(gen.DTS))), 'ipaddr': (gen.IP_STRS, lambda: gen.vip(r.choice(gen.IPS)))}
    ATTRS = ['a', 'b', 'type', 'id', 'k', 'x y', '']

    def typ(d):
        k = r.randrange(10 if d > 0 else 6)
        if d == 3 and k < 3:
            k = r.randrange(3, 10)
        if k == 0: return ['string']
        if k == 1: return ['long']
        if k == 2: return ['bool']
        if k in (3, 4): return ['ext', S(r.choice(['decimal', 'duration', 'datetime', 'ipaddr', 'ipaddr', 'decimal', 'nosuch']))]
        if k == 5: return ['ent', S(r.choice(gen.ETYPES))]
        if k in (6, 7): return ['set', typ(d - 1)]
        return ['rec'] + [[S(a), typ(d - 1), r.choice(['0', '1'])] for a in sorted(r.sample(ATTRS, r.randrange(0, 4)))]

    def val(t, d):
        if r.random() < 0.08:
            return g.value(2)
        h = t[0]
        if h == 'string': return gen.vstr(r.choice(gen.STRINGS + gen.DEC_STRS[:4] + gen.IP_STRS[:3]))
        if h == 'long': return gen.vlong(r.choice(gen.LONGS))
        if h == 'bool': return gen.vbool(r.random() < 0.5)
        if h == 'ext':
            name = sx.unS(t[1]).decode()
            strs, mk = EXT.get(name, EXT['decimal'])
            k = r.random()
            if k < 0.35: return mk()
            if k < 0.8: return gen.vstr(r.choice(strs))
            if k < 0.9: return gen.vstr(r.choice(EXT[r.choice(list(EXT))][0]))        # a literal of another extension type
            return EXT[r.choice(list(EXT))][1]()
        if h == 'ent':
            ty, i = r.choice(gen.ETYPES), r.choice(gen.EIDS)
            k = r.random()
            if k < 0.35: return gen.vent(ty, i)
            if k < 0.7: return gen.vrec([('type', gen.vstr(ty)), ('id', gen.vstr(i))])
            if k < 0.8: return gen.vrec([('type', gen.vstr(ty)), ('id', gen.vstr(i)), ('extra', gen.vlong(1))])
            if k < 0.85: return gen.vrec([('type', gen.vstr(ty))])
            if k < 0.9: return gen.vrec([('type', gen.vstr(ty)), ('id', gen.vlong(1))])
            if k < 0.95: return gen.vrec([('type', gen.vent(ty, i)), ('id', gen.vstr(i))])
            return gen.vrec([('Type', gen.vstr(ty)), ('id', gen.vstr(i))])
        if h == 'set':
            ms = [val(t[1], d - 1) for _ in range(r.choice([0, 1, 2, 2, 3, 4]))]
            if ms and r.random() < 0.3:
                ms.append(r.choice(ms))
            return gen.vset(ms)
        kvs = {}
        for f in t[1:]:
            if r.random() < 0.8:
                kvs[sx.unS(f[0]).decode()] = val(f[1], d - 1)
        if r.random() < 0.3:
            kvs[r.choice(['zz', 'type', 'id', 'a'])] = g.value(1)
        return gen.vrec(sorted(kvs.items()))
    cases, inputs = [], {}
    for i in range(3000 if quick else 60000):
        t = typ(3)
        v = val(t, 3)
        if lib.has_4in6(sx.dump(v)):
            continue
        if i % 7 == 0 and v[0] == 'rec':
            c = case('ct%d' % i, 'coercetags', t, v)
        else:
            c = case('cv%d' % i, 'coerce', t, v)
        cases.append(c)
        inputs[lib.case_id(c)] = sx.dump(sx.canon_value(v))

    def proj(s_):
        try:
            return sx.dump(sx.canon_value(sx.parse(s_)))
        except Exception:
            return s_
    go_c, mo_c, m = lib.differential(ctx, cases, 'coerce', project=proj, nontrivial=lambda c, g_: proj(g_) != inputs[lib.case_id(c)],
                                     describe='schema-guided coercion (x/exp/types coerceValue): Go and the Coq model (Impl/Coerce.v) disagree')
    changed = sum(1 for c in cases if proj(go_c.get(lib.case_id(c), '')) != inputs[lib.case_id(c)])
    ctx.extra['coerce'] = dict(cases=len(cases), changed_by_coercion=changed)
    ctx.oblige('correspondence: coerceValue / coerceTagValues = Coerce.coerce / coerce_tags on %d (declared type, decoded value) pairs: explicit and implicit spellings of '
               'entities and extension values at every depth, literals of the wrong extension type, records with extra / missing / mistyped members, '
               'undeclared attributes, values of the wrong kind; the input value is never modified (%d changed by coercion)' % (len(cases), changed), 'correspondence', not m)


def schema_entities_part(ctx):
    """EntityMap.UnmarshalJSONWithSchema (decode, coerce along the schema, validate) = the composition of Impl/EntityJson.v, Impl/Coerce.v and Impl/Conform.v"""
    import schemagen
    r = ctx.rng
    quick = ctx.tier == 'quick'
    raw = []
    for si in range(40 if quick else 1000):
        sch = schemagen.Schema(r)
        text = sch.text()
        evs = ['enumvals'] + [[S(n)] + [S(i) for i in ids] for n, ids in sorted(sch.enums.items())]
        for _ in range(6 if quick else 10):
            st = sch.store()
            if not lib.has_4in6(sx.dump(st)):
                raw.append((text, evs, st))
    enc = [case('x%d' % i, 'ejsonenc', st, ['keys']) for i, (_, _, st) in enumerate(raw)]
    go_e = lib.run_go(enc, 'ejsonenc-schema', ctx.workdir)
    texts = sorted({t[0] for t in raw})
    info = lib.run_go(['(case i%d schemainfo %s)' % (i, S(t)) for i, t in enumerate(texts)], 'schemainfo', ctx.workdir)
    info_of = {t: info.get('i%d' % i, '(missing)') for i, t in enumerate(texts)}

    def respell(t, top=True):
        """the explicit escapes of attribute and tag values, each kept or replaced by the implicit spelling the schema allows"""
        if isinstance(t, str) or not t:
            return t
        if t[0] == 'arr':
            return ['arr'] + [respell(x, top) for x in t[1:]]
        if t[0] == 'obj':
            if len(t) == 2 and sx.unS(t[1][0]) == b'__entity' and r.random() < 0.5:
                return t[1][1]
            if len(t) == 2 and sx.unS(t[1][0]) == b'__extn' and r.random() < 0.6:
                arg = [kv[1] for kv in t[1][1][1:] if sx.unS(kv[0]) == b'arg']
                if arg:
                    if r.random() < 0.06:
                        return ['str', S(r.choice(['x', '', '1.2.3', '1.5', '1h', '2024-01-01']))]       # a literal of another type, or of none
                    return arg[0]
            return ['obj'] + [[kv[0], respell(kv[1], False)] for kv in t[1:]]
        return t
    cases = []
    for i, (text, evs, st) in enumerate(raw):
        res_ = go_e.get('x%d' % i, '')
        inf = info_of[text]
        if not res_.startswith('(tree ') or not inf.startswith('(info '):
            continue
        tree = sx.parse(res_)[1]
        for k in range(2):
            cases.append('(case es%d_%d ejsonschema %s %s %s %s)' % (i, k, S(text), inf, sx.dump(evs), sx.dump(respell(tree) if k else tree)))
    go_c = lib.run_go(cases, 'ejsonschema', ctx.workdir, timeout_ms=30000)
    mo_c = lib.run_model(cases, 'ejsonschema', ctx.workdir)
    mism = unk = acc = 0
    for c in cases:
        cid = lib.case_id(c)
        g_, m_ = lib.canon_str(go_c.get(cid, '(missing)')), lib.canon_str(mo_c.get(cid, '(missing)'))
        if m_ == '(unmodelled)':
            unk += 1
            continue
        acc += g_.startswith('(ok')
        if g_ != m_:
            if two_wrapping_members(c) and sorted(g_) == sorted(m_):
                continue
            mism += 1
            if mism <= 6:
                ctx.violation('EntityMap.UnmarshalJSONWithSchema: Go and the composed Coq models (EntityJson.dec_entity_map, Coerce.coerce_entity, Conform.check_entities) disagree: go=%s model=%s'
                              % (g_[:400], m_[:400]), dict(kind='case', case=c, go=g_, model=m_))
    ctx.extra['ejsonschema'] = dict(cases=len(cases), accepted=acc, unmodelled=unk)
    ctx.oblige('correspondence: EntityMap.UnmarshalJSONWithSchema = decode ; coerce ; validate of the Coq models on %d entity-map documents over generated schemas, explicit and '
               'mixed implicit spellings (%d accepted, %d outside the modelled domain)' % (len(cases), acc, unk), 'correspondence', mism == 0)


def run(ctx):
    b = lib.standard_build(ctx)
    if not lib.require_builds(ctx, b):
        return
    r = ctx.rng
    g = gen.Gen(r)
    quick = ctx.tier == 'quick'
    vals = []
    vals += [gen.vlong(z) for z in gen.LONGS] + [gen.vdec(z) for z in gen.DECS] + [gen.vdur(z) for z in gen.DURS]
    vals += [gen.vdt(z) for z in gen.DTS] + [gen.vip(t) for t in gen.IPS]
    vals += [gen.vstr(s) for s in gen.STRINGS + ['"', '\\', '<>&', ' ', '\x7f', '\x00\x01', '\U0001f600', '�', '/', '\b\f']]
    vals += [gen.vent(t, i) for t in gen.ETYPES for i in gen.EIDS]
    vals += [gen.vrec([(k, gen.vlong(1))]) for k in gen.KEYS + ['"', '<', ' ', 'type', 'id', 'fn', 'arg', '__entity', '__extn', '__expr']]
    vals += [gen.vrec([('type', gen.vstr('User')), ('id', gen.vstr('a'))]), gen.vrec([('fn', gen.vstr('ip')), ('arg', gen.vstr('1.1.1.1'))]),
             gen.vrec([('__extn', gen.vrec([('fn', gen.vstr('ip')), ('arg', gen.vstr('1.1.1.1'))]))]),
             gen.vrec([('__entity', gen.vrec([('type', gen.vstr('User')), ('id', gen.vstr('a'))]))]),
             gen.vrec([('__extn', gen.vlong(1))]), gen.vset([gen.vlong(-1), gen.vdec(-1)]), gen.vset([gen.vdec(-1), gen.vlong(-1)]),
             gen.vset([gen.vlong(-1), gen.vdur(-1), gen.vlong(0), gen.vbool(False)])]
    # sizes around internal thresholds: long ids, strings, keys and extension arguments, alone and nested
    for n in (200, 990, 992, 993, 1000, 1023, 1024, 1025, 2048, 5000, 70000):
        big = 'k' * n
        vals += [gen.vent('T', big), gen.vent('N::' + big[:300], 'i'), gen.vstr(big), gen.vrec([(big, gen.vlong(1))]), gen.vset([gen.vent('T', big), gen.vlong(1)]),
                 gen.vrec([('a', gen.vent('T', big)), ('b', gen.vdec(15000))]), gen.vset([gen.vrec([('k', gen.vset([gen.vent('T', big)]))])])]
    for _ in range(3000 if quick else 150000):
        vals.append(g.value(3))
    cases = []
    for i, v in enumerate(vals):
        cases.append(case('v%d' % i, 'valuejson', v))
    ne = 400 if quick else 20000
    for i in range(ne):
        cases.append(case('e%d' % i, 'entityjson', g.store(), g.request()))
    for i in range(300 if quick else 10000):
        ip = r.choice([t for t in gen.IPS if not (t[0] == '6' and 0xffff00000000 <= t[1] <= 0xffffffffffff)])
        dt = r.choice([z for z in gen.DTS if z >= gen.MIN64 + gen.DAY])
        cases.append(case('s%d' % i, 'spellings', gen.vdec(r.choice(gen.DECS)), gen.vip(ip), gen.vdt(dt), gen.vdur(r.choice(gen.DURS)),
                          gen.vent('User', r.choice(['a', 'b', 'é', '"q"', '']))))
    ctx.rule = ('values: boundary scalars of every type, strings and record keys over JSON-escaped characters (quotes, <>&, U+2028, controls, '
                'astral), keys that look like the escape syntax (type/id/fn/arg/__entity/__extn), hash-wrapping sets, and random nested values to '
                'depth 3; random entity maps with parents/attrs/tags + requests + diagnostics; all spellings of decimal/ip/datetime/duration/entity '
                '(explicit, {fn,arg}, bare string, implicit entity; schema-guided coercion inside entities, sets, records and tags). '
                'non-trivial = a composite value or an extension value')
    # correspondence of the JSON-tree codec model (Impl/ValueJson.v): encoder output trees and decoder verdicts on trees
    enc_vals = [v for v in vals if not lib.has_4in6(sx.dump(v))][: (2500 if quick else 100000)]
    enc_cases = [case('j%d' % i, 'jsonenc', v) for i, v in enumerate(enc_vals)]
    _, _, m1 = lib.differential(ctx, enc_cases, 'jsonenc', project=proj_tree, describe='JSON encoding of a value: Go and the Coq model (Impl/ValueJson.v) disagree')
    ctx.oblige('correspondence: json.Marshal(value) = ValueJson.encode_value as JSON trees (%d values; arrays compared as multisets)' % len(enc_cases), 'correspondence', not m1)
    dec_trees = []
    extn = lambda fn, arg: ['obj', [S('__extn'), ['obj', [S('fn'), ['str', S(fn)]], [S('arg'), ['str', S(arg)]]]]]
    for fn, strs in (('decimal', gen.DEC_STRS), ('duration', gen.DUR_STRS), ('datetime', gen.DT_STRS), ('ip', [x for x in gen.IP_STRS if 'ffff' not in x.lower()])):
        for a in strs:
            try:
                a.encode('utf-8')
            except UnicodeEncodeError:
                continue
            dec_trees.append(extn(fn, a))
    dec_trees += [extn('nosuch', '1'), ['obj', [S('__extn'), ['obj', [S('fn'), ['str', S('decimal')]]]]], ['obj', [S('__extn'), ['num', '1']]],
                  ['obj', [S('__extn'), ['obj', [S('fn'), ['num', '1']], [S('arg'), ['str', S('1.0')]]]]], ['obj', [S('__extn'), ['null']]],
                  ['obj', [S('__extn'), ['obj', [S('fn'), ['str', S('decimal')]], [S('arg'), ['str', S('1.5')]]]], [S('other'), ['num', '1']]],
                  ['obj', [S('__extn'), ['obj', [S('fn'), ['str', S('decimal')]], [S('arg'), ['null']]]]], ['obj', [S('__entity'), ['null']]],
                  ['obj', [S('__entity'), ['arr']]], ['obj', [S('__entity'), ['obj']]], ['null'], ['numother'], ['num', '9223372036854775808'], ['num', '-9223372036854775808'],
                  ['arr', ['null']], ['obj', [S('a'), ['null']]], ['obj', [S('__extn'), ['obj', [S('fn'), ['str', S('ip')]], [S('arg'), ['str', S('1.2.3.4')]], [S('arg'), ['str', S('::1')]]]]]]
    for v in vals[:1500 if quick else 60000]:
        dv = sx.dump(v)
        if any(tag in dv for tag in ('(dec ', '(ip ', '(dt ', '(dur ')):
            continue                                  # extension values are covered by the literal tables above
        t = json_of_value(v, r, False)
        if t is not None:
            dec_trees.append(t)
        t = json_of_value(v, r, True)
        if t is not None:
            dec_trees.append(t)
    dec_cases = [case('d%d' % i, 'jsondec', t) for i, t in enumerate(dec_trees)]
    _, _, m2 = lib.differential(ctx, dec_cases, 'jsondec', describe='JSON decoding of a tree: Go and the Coq model (Impl/ValueJson.v) disagree')
    ctx.oblige('correspondence: types.UnmarshalJSON = ValueJson.decode_value on %d JSON trees (encoder outputs, alternative spellings, malformed escapes)' % len(dec_cases),
               'correspondence', not m2)
    entity_part(ctx, g)
    request_part(ctx, g)
    coerce_part(ctx, g)
    schema_entities_part(ctx)
    go = lib.run_go(cases, 'json', ctx.workdir)
    bad = 0
    for c in cases:
        res = go.get(lib.case_id(c), '(missing)')
        ctx.count(c.split(' ', 2)[2], '(set' in c or '(rec' in c or '(dec' in c or '(ip' in c or '(dt' in c or '(dur' in c)
        if res.startswith('(ok'):
            continue
        if lib.has_4in6(c) and ('does-not-decode' in res):
            ctx.known('F30', 'IPv4-mapped IPv6 ipaddr encodes to JSON that does not decode')
            continue
        if lib.has_first_day_datetime(c) and ('does-not-decode' in res):
            ctx.known('F27', 'datetime in the first day of the int64 range encodes to JSON that does not decode')
            continue
        if 'second-encoding-differs' in res and two_wrapping_members(c):
            # narrow signature: same multiset of bytes, only member order differs
            t = sx.parse(res)
            try:
                a, b2 = sx.unS(t[1]), sx.unS(t[2])
                if sorted(a) == sorted(b2):
                    ctx.known('F16', 'set encoding lists members in a different order on the second trip when member hashes wrap past 2^64')
                    continue
            except Exception:
                pass
        if extn_shaped_record(c) and ('decoded-value-differs' in res or 'does-not-decode' in res or 'entity-differs' in res or 'request-differs' in res):
            ctx.known('F17', 'a record keyed __extn/__entity with an escape-shaped value is read as the escape')
            continue
        bad += 1
        if bad <= 5:
            ctx.violation('JSON round trip fails: ' + res[:300], dict(kind='case', case=c, go=res))
    for f in ctx.known_findings():
        w = f['witness']['value']
        pr = lib.run_go([case('k', 'valuejson', sx.parse(w))], 'known', ctx.workdir)
        if not (pr.get('k') or '').startswith('(ok'):
            ctx.known(f['id'], f['what'][:160])
    ctx.oblige('direct oracle: JSON round trip / stability / spellings on %d cases' % len(cases), 'oracle', bad == 0)
    for c in cases[:2] + cases[-2:]:
        ctx.sample(dict(case=c[:300], go=(go.get(lib.case_id(c)) or '')[:200]))
    lib.epilogue(ctx)
