"""C13 — entity, value and request JSON round-trip without loss.
Theorems: Properties/C13.v (JSON-tree codec of values).  Direct oracles on the Go code: decode(encode x) equals x and a second
encoding is byte-identical, for values, entities, entity maps, requests, decisions and diagnostics; every accepted spelling
of a datum (explicit __entity/__extn, implicit forms in typed positions, schema-guided coercion) decodes to an equal value."""
import re

import lib
import gen
import sx
from gen import S, case

WRAP = re.compile(r'\((?:l|dec|dur|dt) -1\)')


def two_wrapping_members(text):
    return len(WRAP.findall(text)) >= 2 or ('(l -1)' in text and '(l -2)' in text)


def extn_shaped_record(text):
    return S('__extn') in text or S('__entity') in text


def run(ctx):
    b = lib.standard_build(ctx)
    if not lib.require_builds(ctx, b):
        return
    r = ctx.rng
    g = gen.Gen(r)
    quick = ctx.tier == 'quick'
    vals = []
    vals += [gen.vlong(z) for z in gen.LONGS] + [gen.vdec(z) for z in gen.DECS] + [gen.vdur(z) for z in gen.DURS]
    vals += [gen.vdt(z) for z in gen.DTS] + [gen.vip(t) for t in gen.IPS]
    vals += [gen.vstr(s) for s in gen.STRINGS + ['"', '\\', '<>&', ' ', '\x7f', '\x00\x01', '\U0001f600', '�', '/', '\b\f']]
    vals += [gen.vent(t, i) for t in gen.ETYPES for i in gen.EIDS]
    vals += [gen.vrec([(k, gen.vlong(1))]) for k in gen.KEYS + ['"', '<', ' ', 'type', 'id', 'fn', 'arg', '__entity', '__extn', '__expr']]
    vals += [gen.vrec([('type', gen.vstr('User')), ('id', gen.vstr('a'))]), gen.vrec([('fn', gen.vstr('ip')), ('arg', gen.vstr('1.1.1.1'))]),
             gen.vrec([('__extn', gen.vrec([('fn', gen.vstr('ip')), ('arg', gen.vstr('1.1.1.1'))]))]),
             gen.vrec([('__entity', gen.vrec([('type', gen.vstr('User')), ('id', gen.vstr('a'))]))]),
             gen.vrec([('__extn', gen.vlong(1))]), gen.vset([gen.vlong(-1), gen.vdec(-1)]), gen.vset([gen.vdec(-1), gen.vlong(-1)]),
             gen.vset([gen.vlong(-1), gen.vdur(-1), gen.vlong(0), gen.vbool(False)])]
    # sizes around internal thresholds: long ids, strings, keys and extension arguments, alone and nested
    for n in (200, 990, 992, 993, 1000, 1023, 1024, 1025, 2048, 5000, 70000):
        big = 'k' * n
        vals += [gen.vent('T', big), gen.vent('N::' + big[:300], 'i'), gen.vstr(big), gen.vrec([(big, gen.vlong(1))]), gen.vset([gen.vent('T', big), gen.vlong(1)]),
                 gen.vrec([('a', gen.vent('T', big)), ('b', gen.vdec(15000))]), gen.vset([gen.vrec([('k', gen.vset([gen.vent('T', big)]))])])]
    for _ in range(3000 if quick else 150000):
        vals.append(g.value(3))
    cases = []
    for i, v in enumerate(vals):
        cases.append(case('v%d' % i, 'valuejson', v))
    ne = 400 if quick else 20000
    for i in range(ne):
        cases.append(case('e%d' % i, 'entityjson', g.store(), g.request()))
    for i in range(300 if quick else 10000):
        ip = r.choice([t for t in gen.IPS if not (t[0] == '6' and 0xffff00000000 <= t[1] <= 0xffffffffffff)])
        dt = r.choice([z for z in gen.DTS if z >= gen.MIN64 + gen.DAY])
        cases.append(case('s%d' % i, 'spellings', gen.vdec(r.choice(gen.DECS)), gen.vip(ip), gen.vdt(dt), gen.vdur(r.choice(gen.DURS)),
                          gen.vent('User', r.choice(['a', 'b', 'é', '"q"', '']))))
    ctx.rule = ('values: boundary scalars of every type, strings and record keys over JSON-escaped characters (quotes, <>&, U+2028, controls, '
                'astral), keys that look like the escape syntax (type/id/fn/arg/__entity/__extn), hash-wrapping sets, and random nested values to '
                'depth 3; random entity maps with parents/attrs/tags + requests + diagnostics; all spellings of decimal/ip/datetime/duration/entity '
                '(explicit, {fn,arg}, bare string, implicit entity; schema-guided coercion inside entities, sets, records and tags). '
                'non-trivial = a composite value or an extension value')
    go = lib.run_go(cases, 'json', ctx.workdir)
    bad = 0
    for c in cases:
        res = go.get(lib.case_id(c), '(missing)')
        ctx.count(c.split(' ', 2)[2], '(set' in c or '(rec' in c or '(dec' in c or '(ip' in c or '(dt' in c or '(dur' in c)
        if res.startswith('(ok'):
            continue
        if lib.has_4in6(c) and ('does-not-decode' in res):
            ctx.known('F30', 'IPv4-mapped IPv6 ipaddr encodes to JSON that does not decode')
            continue
        if lib.has_first_day_datetime(c) and ('does-not-decode' in res):
            ctx.known('F27', 'datetime in the first day of the int64 range encodes to JSON that does not decode')
            continue
        if 'second-encoding-differs' in res and two_wrapping_members(c):
            # narrow signature: same multiset of bytes, only member order differs
            t = sx.parse(res)
            try:
                a, b2 = sx.unS(t[1]), sx.unS(t[2])
                if sorted(a) == sorted(b2):
                    ctx.known('F16', 'set encoding lists members in a different order on the second trip when member hashes wrap past 2^64')
                    continue
            except Exception:
                pass
        if extn_shaped_record(c) and ('decoded-value-differs' in res or 'does-not-decode' in res or 'entity-differs' in res or 'request-differs' in res):
            ctx.known('F17', 'a record keyed __extn/__entity with an escape-shaped value is read as the escape')
            continue
        bad += 1
        if bad <= 5:
            ctx.violation('JSON round trip fails: ' + res[:300], dict(kind='case', case=c, go=res))
    for f in ctx.known_findings():
        w = f['witness']['value']
        pr = lib.run_go([case('k', 'valuejson', sx.parse(w))], 'known', ctx.workdir)
        if not (pr.get('k') or '').startswith('(ok'):
            ctx.known(f['id'], f['what'][:160])
    ctx.oblige('direct oracle: JSON round trip / stability / spellings on %d cases' % len(cases), 'oracle', bad == 0)
    for c in cases[:2] + cases[-2:]:
        ctx.sample(dict(case=c[:300], go=(go.get(lib.case_id(c)) or '')[:200]))
    lib.epilogue(ctx)
