"""C07 — the Cedar text parser builds exactly the tree the grammar prescribes.
Oracle: an independent reference renderer (py/render.py: the grammar's own unparse, fully parenthesised or minimal, with random
layout and comments, random choice among equivalent spellings of escapes / attribute access / record keys) -> cedar-go's parser
-> the AST must be the one that was rendered.  Texts outside the grammar must be rejected."""
import lib
import gen
import sx
import render
from gen import S, lit, case


def norm_pattern(p):
    """what the parser builds for the TEXT of the pattern (ParsePattern + NewPattern's merging), as the harness reports it
    (through MarshalJSON): stars and literal runs alternate, an empty literal run contributes nothing"""
    elems = []                      # flattened: None = star, bytes = literal run
    for c in p[1:]:
        if isinstance(c, list):
            elems.append(None)
        else:
            b = sx.unS(c)
            if b:
                if elems and elems[-1] is not None:
                    elems[-1] += b
                else:
                    elems.append(b)
    comps = []                      # [wild, literal]
    for e in elems:
        if e is None:
            if not comps or not comps[-1][0] or comps[-1][1] != b'':
                comps.append([True, b''])
        else:
            if not comps:
                comps.append([False, b''])
            comps[-1][1] += e
    if not comps:
        comps = [[False, b'']]
    out = ['pat']
    for w, l in comps:
        if w:
            out.append(['w'])
        if not w or l != b'':
            out.append('x' + l.hex())
    return out


def norm(e):
    if isinstance(e, str):
        return e
    if e and e[0] == 'like':
        return ['like', norm(e[1]), norm_pattern(e[2])]
    return [norm(x) for x in e]


class PGen:
    """parse-expressible policies"""
    IDENTS = ['a', 'b', 'k', 'name', 'n', 'flag', '_x', 'A1', 'principal', 'permit', 'when', 'contains']
    KEYS = IDENTS + ['x y', '', 'é', 'if', 'true', 'in', 'has', 'like', 'is', '__cedar', '1a', 'a-b', '"', '\\', '\n', '日本', '*']
    STRS = gen.STRINGS + ['"', '\\', "'", '\n\r\t', '\x7f', '\x01', '*', '\\*', '\U0001f600', '﻿', 'á']
    TYPES = ['User', 'Group', 'NS::T', 'A::B::C', '_t', 'Action']

    def __init__(self, r):
        self.r = r

    def uid(self):
        return gen.vent(self.r.choice(self.TYPES), self.r.choice(self.STRS))

    def literal(self):
        r = self.r
        k = r.randrange(5)
        if k == 0: return lit(gen.vbool(r.random() < 0.5))
        if k == 1: return lit(gen.vlong(r.choice(gen.LONGS + [0, 1, 5, -5, 42])))
        if k == 2: return lit(gen.vstr(r.choice(self.STRS)))
        if k == 3: return lit(self.uid())
        return ['var', r.choice(['principal', 'action', 'resource', 'context'])]

    def pattern(self):
        r = self.r
        return ['pat'] + [(['w'] if r.random() < 0.4 else S(r.choice(['a', 'b*', '', 'é', '\\', '"', 'x y', '\n']))) for _ in range(r.randrange(0, 5))]

    def expr(self, d):
        r = self.r
        if d <= 0 or r.random() < 0.15:
            return self.literal()
        k = r.randrange(20)
        e = lambda: self.expr(d - 1)
        if k == 0: return [r.choice(['and', 'or']), e(), e()]
        if k == 1: return [r.choice(['add', 'sub', 'mul']), e(), e()]
        if k == 2: return [r.choice(['eq', 'ne', 'lt', 'le', 'gt', 'ge', 'in']), e(), e()]
        if k == 3: return [r.choice(['not', 'neg']), e()]
        if k == 4: return ['if', e(), e(), e()]
        if k == 5: return ['has', e(), S(r.choice(self.KEYS))]
        if k == 6: return ['like', e(), self.pattern()]
        if k == 7: return ['is', e(), S(r.choice(self.TYPES))]
        if k == 8: return ['isIn', e(), S(r.choice(self.TYPES)), e()]
        if k == 9: return ['access', e(), S(r.choice(self.KEYS))]
        if k == 10: return [r.choice(['contains', 'containsAll', 'containsAny', 'getTag', 'hasTag']), e(), e()]
        if k == 11: return ['isEmpty', e()]
        if k == 12: return ['call', S(r.choice(sorted(render.FUNCS)))] + [e() for _ in range(r.choice([0, 1, 1, 2]))]
        if k == 13: return ['call', S(r.choice(sorted(render.METHODS)))] + [e() for _ in range(r.choice([1, 1, 2, 3]))]
        if k == 14: return ['mkset'] + [e() for _ in range(r.randrange(0, 4))]
        if k == 15: return ['mkrec'] + [[S(key), e()] for key in r.sample(self.KEYS, r.randrange(0, 4))]
        if k == 16: return ['neg', lit(gen.vlong(r.choice([0, 1, 5, gen.MAX64])))]
        if k == 17: return ['sub', e(), ['neg', e()]]
        return self.literal()

    def scope(self, which):
        r = self.r
        k = r.randrange(6)
        if which == 'action':
            return [['all'], ['all'], ['eq', self.uid()], ['in', self.uid()], ['inset'], ['inset'] + [self.uid() for _ in range(r.randrange(1, 4))]][k]
        return [['all'], ['all'], ['eq', self.uid()], ['in', self.uid()], ['is', S(r.choice(self.TYPES))], ['isin', S(r.choice(self.TYPES)), self.uid()]][k]

    def policy(self, d):
        r = self.r
        conds = [[r.choice(['when', 'unless']), self.expr(d)] for _ in range(r.choice([0, 1, 1, 2, 3]))]
        ann = ['annots'] + [[S(k), S(r.choice(self.STRS))] for k in r.sample(['id', 'a', 'if', 'in', 'permit', '_b', 'when', '__cedar'], r.randrange(0, 4))]
        return ['policy', S('p'), r.choice(['permit', 'forbid']), self.scope('principal'), self.scope('action'), self.scope('resource'),
                ['conds'] + conds, ann]


REJECT = [
    'permit(principal, action, resource) when { 1 < 2 < 3 };', 'permit(principal, action, resource) when { 1 == 2 == 3 };',
    'permit(principal, action, resource) when { a in b in c };', 'permit(principal, action, resource) when { context has a has b };',
    'permit(principal, action, resource) when { context.if };', 'permit(principal, action, resource) when { context.true };',
    'permit(principal, action, resource) when { {if: 1} };', 'permit(principal, action, resource) when { context has in };',
    'permit(principal, action, resource) when { {a: 1, a: 2} };', 'permit(principal, action, resource) when { {a: 1, "a": 2} };',
    '@a("x") @a("y") permit(principal, action, resource);', 'permit(principal, action, resource) when { nosuch(1) };',
    'permit(principal, action, resource) when { 1.nosuch(1) };', 'permit(principal, action, resource) when { isIpv4(ip("1.1.1.1")) };',
    'permit(principal, action, resource) when { context.decimal("1.0") };', 'permit(principal, action, resource) when { "abc };',
    'permit(principal, action, resource) when { "abc\n" };', 'permit(principal, action, resource) when { /* open comment };',
    'permit(principal, action, resource) when { "\\q" };', 'permit(principal, action, resource) when { "\\u{110000}" };',
    'permit(principal, action, resource) when { "\\u{d800}" };', 'permit(principal, action, resource) when { "\\x80" };',
    'permit(principal, action, resource) when { "\\u{}" };', 'permit(principal, action, resource) when { 9223372036854775808 };',
    'permit(principal, action, resource) when { -9223372036854775809 };', 'permit(principal, action, resource) when { x };',
    'permit(principal, action, resource) when { principal.contains() };', 'permit(principal, action, resource) when { principal.contains(1, 2) };',
    'permit(principal, action, resource) when { principal.isEmpty(1) };', 'permit(principal, action, resource) when { 1 = 2 };',
    'permit(principal, action, resource) when { 1 & 2 };', 'permit(principal, action, resource) when { 1 | 2 };',
    'permit(principal, action, resource) when { };', 'permit(principal, action, resource) when { 1 2 };', 'permit(principal, action, resource)',
    'permit(principal, action);', 'permit(action, principal, resource);', 'allow(principal, action, resource);', 'permit(principal = User::"a", action, resource);',
    'permit(principal in [User::"a"], action, resource);', 'permit(principal, action is Action, resource);', 'permit(principal, action, resource) when { true } ;;',
    'permit(principal, action, resource) when { User:: };', 'permit(principal, action, resource) when { User::a };', 'permit(principal, action, resource) when { User::"a"::"b" };',
    'permit(principal, action, resource) when { if true then 1 };', 'permit(principal, action, resource) when { [1, 2 };', 'permit(principal, action, resource) when { context like pattern };',
    'permit(principal, action, resource) when { context is "User" };', 'permit(principal, action, resource) when { 1 ~ 2 };', 'permit(principal, action, resource) when { a.b.(c) };',
    'permit(principal, action, resource) when { context[a] };', 'permit(principal, action, resource) when { context["a" };', 'permit(principal, action, resource) when { \x00 };',
    'permit(principal, action, resource) when { "\xff" };', '@("x") permit(principal, action, resource);', '@a(x) permit(principal, action, resource);',
    'permit(principal, action, resource) when { true } unless;', 'permit(principal, action, resource) whenever { true };',
]

# every reserved word in every position where the grammar wants an identifier (IDENT excludes the reserved words)
RESERVED = ['true', 'false', 'if', 'then', 'else', 'in', 'like', 'has', 'is', '__cedar']
IDENT_POSITIONS = ['permit(principal, action, resource) when { context.%s };', 'permit(principal, action, resource) when { context has %s };',
                   'permit(principal, action, resource) when { {%s: 1} };', 'permit(principal, action, resource) when { principal is %s };',
                   'permit(principal, action, resource) when { principal is NS::%s };', 'permit(principal, action, resource) when { principal is %s::T };',
                   'permit(principal, action, resource) when { principal == %s::"x" };', 'permit(principal, action, resource) when { principal == A::%s::B::"x" };',
                   'permit(principal == %s::"x", action, resource);', 'permit(principal is %s, action, resource);', 'permit(principal, action in [A::%s::"x"], resource);',
                   'permit(principal, action, resource is T in %s::"x");', 'permit(principal, action, resource) when { %s(1) };',
                   'permit(principal, action, resource) when { context.%s(1) };', 'permit(principal, action, resource) when { %s::f(1) };',
                   'permit(principal, action, resource) when { context has a.%s };', 'permit(principal, action, resource) when { %s };']
# chained relations: the grammar allows ONE relational operator per level (Relation ::= Add [RELOP Add] | Add has .. | Add like .. | Add is ..)
_REL1 = ['== 1', '!= 1', '< 1', '<= 1', '> 1', '>= 1', 'in resource', 'has k', 'has "k"', 'like "a*"', 'is User', 'is User in resource', 'is NS::T in [resource]']
for _r1 in _REL1:
    for _r2 in _REL1:
        if _r1 in ('is User', 'is NS::T') and _r2.startswith('in '):
            continue                        # `e is T in x` is one relation
        REJECT.append('permit(principal, action, resource) when { principal %s %s };' % (_r1, _r2))
        REJECT.append('permit(principal, action, resource) when { true && principal %s %s || false };' % (_r1, _r2))
REJECT += ['permit(principal, action, resource) when { principal is User in resource == true };', 'permit(principal, action, resource) when { 1 + principal is User in resource in resource };',
           'permit(principal, action, resource) when { if principal is User in resource has k then 1 else 2 };']
# a malformed escape in EVERY position that takes a string, and the remaining "something is missing" shapes of each production
_T = 'permit(principal, action, resource) when { %s };'
for _bad in ('"\\q"', '"\\u{110000}"', '"\\x4"', '"\\u{}"', '"\\*"'):
    REJECT += ['@id(%s)\npermit(principal, action, resource);' % _bad, 'permit(principal == User::%s, action, resource);' % _bad,
               'permit(principal, action in [Action::%s], resource);' % _bad, 'permit(principal, action, resource is Doc in Folder::%s);' % _bad,
               _T % ('context has %s' % _bad), _T % ('context[%s]' % _bad), _T % ('{%s: 1}.a' % _bad), _T % ('User::%s == principal' % _bad),
               _T % ('principal in [User::"a", User::%s]' % _bad), _T % ('ip(%s).isIpv4()' % _bad), _T % ('%s == "x"' % _bad)]
REJECT.remove(_T % '"\\*" == "x"') if (_T % '"\\*" == "x"') in REJECT else None
REJECT += [_T % ('"a" like %s' % _bad) for _bad in ('"\\q"', '"\\u{110000}"', '"\\x4"', '"\\u{}"')]
REJECT += [_T % x for x in ('principal is', 'principal is 1', 'principal is User in', 'principal is User in 1 +', '1 *', '1 * *', '1 +', '- ', '!', '{a: 1 b: 2}.a', '{1: 2}.a', '{a 1}.a',
                            '{a: }.a', '{a: 1,, b: 2}.a', '[1 2]', '[1,,2]', '[,]', 'context.', 'context.1', 'context[1]', 'context["a"', 'context.f(', 'context.contains(1',
                            'context.contains(1 2)', 'ip("1.1.1.1"', 'if true then 1', 'if true 1 else 2', 'if then 1 else 2', 'User::', 'User::a::', '::User::"a"',
                            'principal has', 'principal has 1', 'principal has a.', 'principal has a."b"', 'principal like', 'principal like 1', 'principal like principal', '(1', '1)', '()')]
for _k in RESERVED:
    for _t in IDENT_POSITIONS:
        _text = _t % _k
        if _text in ('permit(principal, action, resource) when { true };', 'permit(principal, action, resource) when { false };'):
            continue
        if _text not in REJECT:
            REJECT.append(_text)


def run(ctx):
    b = lib.standard_build(ctx)
    if not lib.require_builds(ctx, b):
        return
    r = ctx.rng
    pg = PGen(r)
    quick = ctx.tier == 'quick'
    cases, expect = [], {}
    n = 0
    import props.codec_common as cc
    # targeted: every parent/child pairing (restricted to parse-expressible literals), both renderings, three layouts
    targeted = []
    for e in cc.targeted_exprs():
        try:
            render.R(r, 'min').expr(e)
            targeted.append(['policy', S('p'), 'permit', ['all'], ['all'], ['all'], ['conds', ['when', e]], ['annots']])
        except ValueError:
            pass
    pols = targeted + [pg.policy(r.choice([1, 2, 3, 4, 5])) for _ in range(1500 if quick else 60000)]
    for p in pols:
        for mode in ('full', 'min'):
            for style in ('tight', 'space', 'wild'):
                if quick and r.random() < 0.5 and p not in targeted[:50]:
                    continue
                n += 1
                text = render.render_policy(p, mode, r, style)
                c = '(case t%d parse %s)' % (n, S(text))
                cases.append(c)
                expect[lib.case_id(c)] = lib.canon_str(sx.dump(['ok', norm(p)]))
    # extended has: e has a.b.c == e has a && e.a has b && e.a.b has c
    ctxv = ['var', 'context']
    chain = ['and', ['and', ['has', ctxv, S('a')], ['has', ['access', ctxv, S('a')], S('b')]], ['has', ['access', ['access', ctxv, S('a')], S('b')], S('c')]]
    for text, e in [('permit(principal,action,resource) when { context has a.b.c };', chain),
                    ('permit(principal,action,resource) when { context has a . b };', ['and', ['has', ctxv, S('a')], ['has', ['access', ctxv, S('a')], S('b')]]),
                    ('permit(principal,action,resource) when { context["a"].b };', ['access', ['access', ctxv, S('a')], S('b')]),
                    ('permit(principal,action,resource) when { - - 1 };', ['neg', lit(gen.vlong(-1))]),
                    ('permit(principal,action,resource) when { !-!1 };', ['not', ['neg', ['not', lit(gen.vlong(1))]]]),
                    ('permit(principal,action,resource) when { -(1) };', ['neg', lit(gen.vlong(1))]),
                    ('permit(principal,action,resource) when { 1 - -1 };', ['sub', lit(gen.vlong(1)), lit(gen.vlong(-1))]),
                    ('permit(principal,action,resource) when { 1 --1 };', ['sub', lit(gen.vlong(1)), lit(gen.vlong(-1))]),
                    ('permit(principal,action,resource) when { 1 - 2 - 3 };', ['sub', ['sub', lit(gen.vlong(1)), lit(gen.vlong(2))], lit(gen.vlong(3))]),
                    ('permit(principal,action,resource) when { 1 + 2 * 3 };', ['add', lit(gen.vlong(1)), ['mul', lit(gen.vlong(2)), lit(gen.vlong(3))]]),
                    ('permit(principal,action,resource) when { true || false && true };', ['or', lit(gen.vbool(True)), ['and', lit(gen.vbool(False)), lit(gen.vbool(True))]]),
                    ('permit(principal,action,resource) when { if true then 1 else if false then 2 else 3 };',
                     ['if', lit(gen.vbool(True)), lit(gen.vlong(1)), ['if', lit(gen.vbool(False)), lit(gen.vlong(2)), lit(gen.vlong(3))]]),
                    ('permit(principal,action,resource) when { 1 < 2 && 3 == 4 };', ['and', ['lt', lit(gen.vlong(1)), lit(gen.vlong(2))], ['eq', lit(gen.vlong(3)), lit(gen.vlong(4))]]),
                    ('permit(principal,action,resource) when { principal is User in Group::"g" && true };',
                     ['and', ['isIn', ['var', 'principal'], S('User'), lit(gen.vent('Group', 'g'))], lit(gen.vbool(True))]),
                    ('permit(principal,action,resource) when { "\\u{1F600}\\x41\\0\\\'" == "a" };', ['eq', lit(gen.vstr('\U0001f600A\0\'')), lit(gen.vstr('a'))]),
                    # integer literals are DECIMAL digit strings: leading zeros are legal and mean nothing (no octal), with or without a sign, up to the int64 ends
                    ('permit(principal,action,resource) when { 010 == 10 };', ['eq', lit(gen.vlong(10)), lit(gen.vlong(10))]),
                    ('permit(principal,action,resource) when { 0777 + 08 + 09 + 00 == 0 };',
                     ['eq', ['add', ['add', ['add', lit(gen.vlong(777)), lit(gen.vlong(8))], lit(gen.vlong(9))], lit(gen.vlong(0))], lit(gen.vlong(0))]),
                    ('permit(principal,action,resource) when { -010 == 0 - 010 };', ['eq', lit(gen.vlong(-10)), ['sub', lit(gen.vlong(0)), lit(gen.vlong(10))]]),
                    ('permit(principal,action,resource) when { 00000000009223372036854775807 == -00009223372036854775808 };',
                     ['eq', lit(gen.vlong(gen.MAX64)), lit(gen.vlong(gen.MIN64))]),
                    ('permit(principal,action,resource) when { 0x10 };', None), ('permit(principal,action,resource) when { 1_000 == 1 };', None),
                    ('permit(principal,action,resource) when { 0b1 == 1 };', None), ('permit(principal,action,resource) when { 1e3 == 1 };', None),
                    ]:
        n += 1
        c = '(case t%d parse %s)' % (n, S(text))
        cases.append(c)
        if e is None:
            expect[lib.case_id(c)] = '(err)'
            continue
        p = ['policy', S('p'), 'permit', ['all'], ['all'], ['all'], ['conds', ['when', e]], ['annots']]
        expect[lib.case_id(c)] = lib.canon_str(sx.dump(['ok', p]))
    nrej0 = len(cases)
    for text in REJECT:
        n += 1
        c = '(case t%d parse %s)' % (n, S(text.encode('latin-1') if any(ord(ch) > 127 and ord(ch) < 256 for ch in text) and '\xff' in text else text))
        cases.append(c)
        expect[lib.case_id(c)] = '(err)'
    ctx.rule = ('policies over every node kind expressible in Cedar syntax (every parent/child operator pairing in both operand positions, negative '
                'literals and negation, keyword / non-identifier attribute names, escapes of every form, patterns, methods and functions, every scope '
                'form, annotations incl. keyword names), rendered by an independent reference renderer both fully parenthesised and minimally, in '
                'three layouts (tight, spaced, random blanks/newlines/line and block comments), with random equivalent spellings (\\n vs \\u{a} vs '
                '\\x0a, .k vs ["k"], k: vs "k":, trailing commas); %d texts outside the grammar that must be rejected. '
                'non-trivial = a policy with at least one condition' % len(REJECT))
    go = lib.run_go(cases, 'parse', ctx.workdir)
    bad = 0
    for c in cases:
        cid = lib.case_id(c)
        res = lib.canon_str(go.get(cid, '(missing)'))
        ctx.count(c, '(when' in expect[cid] or '(unless' in expect[cid] or expect[cid] == '(err)')
        if res != expect[cid]:
            bad += 1
            if bad <= 6:
                text = sx.unS(c.split(' ')[3].rstrip(')')).decode('utf-8', 'replace')
                ctx.violation('parser built a different tree (or accepted/rejected wrongly): text=%r got=%s want=%s' % (text[:300], res[:300], expect[cid][:300]),
                              dict(kind='case', case=c, go=res, expected=expect[cid], text=text))
    # correspondence: the Coq parser model (specification tokenizer + Impl/Parser.v) on the same texts
    mo = lib.run_model(cases, 'parse', ctx.workdir)
    mism = 0
    for c in cases:
        cid = lib.case_id(c)
        g, m = lib.canon_str(go.get(cid, '(missing)')), lib.canon_str(mo.get(cid, '(missing)'))
        if g != m:
            mism += 1
            if mism <= 6:
                text = sx.unS(c.split(' ')[3].rstrip(')')).decode('utf-8', 'replace')
                ctx.violation('Go parser and the Coq parser model disagree: text=%r go=%s model=%s' % (text[:300], g[:300], m[:300]),
                              dict(kind='case', case=c, go=g, model=m, text=text))
    ctx.oblige('correspondence: cedar-go parser = Impl/Tokenizer + Impl/Parser model on %d texts (trees and rejections)' % len(cases), 'correspondence', mism == 0)
    ctx.oblige('direct oracle: parse(reference rendering) = the rendered AST on %d texts, %d rejects' % (nrej0, len(REJECT)), 'oracle', bad == 0)
    for c in cases[:3]:
        ctx.sample(dict(text=sx.unS(c.split(' ')[3].rstrip(')')).decode('utf-8', 'replace')[:300], go=(go.get(lib.case_id(c)) or '')[:300]))
    lib.epilogue(ctx)
