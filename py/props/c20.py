"""C20 — policy containers behave as an id-keyed map over any history of operations.
Theorems: Properties/C20.v.  Correspondence: histories of container operations run on cedar.PolicySet and on the model."""
import itertools

import lib
from sx import S

IDS = ['p', 'q', 'policy0', 'policy1', 'policy10', 'policy2', '', 'bell\x07', 'us\x1f', 'del\x7f', 'q"\\', 'tag\U000e0001', '\u00e9\u2028', '<&>']      # ids are arbitrary strings: control characters, DEL, quotes, non-BMP / unprintable code points, what JSON escapes specially
NPOOL = 6


def rand_op(r):
    k = r.randrange(13)
    if k == 12:
        ids = r.sample(IDS, r.randrange(0, 4))
        return '(loadjson %s)' % ' '.join('(%s %d)' % (S(i), r.randrange(NPOOL)) for i in ids)
    if k <= 2: return '(add %s %d)' % (S(r.choice(IDS)), r.randrange(NPOOL))
    if k == 3: return '(remove %s)' % S(r.choice(IDS))
    if k == 4: return '(get %s)' % S(r.choice(IDS))
    if k == 5: return r.choice(['(all)', '(snap)', '(iterrm %s)' % S(r.choice(IDS))])
    if k == 6: return '(mapmut %s %d)' % (S(r.choice(IDS)), r.randrange(NPOOL))
    if k == 7: return '(cedar)'
    if k == 8: return '(json)'
    if k == 9: return '(cedarrt)' if r.random() < 0.5 else '(authz)'
    if k == 10: return '(fromdoc %s)' % ' '.join(str(r.randrange(NPOOL)) for _ in range(r.choice([0, 1, 2, 3, 11, 12])))
    return '(authz)'


def run(ctx):
    b = lib.standard_build(ctx)
    if not lib.require_builds(ctx, b):
        return
    r = ctx.rng
    cases = []
    n = 0
    # exhaustive short histories over a small alphabet, each followed by the observers
    alpha = ['(add %s 0)' % S('p'), '(add %s 1)' % S('p'), '(add %s 2)' % S('q'), '(remove %s)' % S('p'), '(remove %s)' % S('q'),
             '(json)', '(cedarrt)', '(fromdoc 3 0)', '(mapmut %s 4)' % S('p'), '(loadjson (%s 5))' % S('q'), '(loadjson)',
             '(add %s 0)' % S('q'), '(snap)', '(iterrm %s)' % S('q')]      # the SAME policy object under a second id; a copy of the set that must stay as it was
    obs = '(get %s) (get %s) (all) (cedar) (authz)' % (S('p'), S('q'))
    maxlen = 3 if ctx.tier == 'quick' else 4
    for ln in range(0, maxlen + 1):
        for combo in itertools.product(alpha, repeat=ln):
            n += 1
            cases.append('(case h%d pshist (ops %s %s))' % (n, ' '.join(combo), obs))
    for _ in range(2000 if ctx.tier == 'quick' else 60000):
        n += 1
        ops = [rand_op(r) for _ in range(r.randrange(1, 25))]
        cases.append('(case h%d pshist (ops %s))' % (n, ' '.join(ops)))
    ctx.rule = ('all histories of <=%d operations over {add/replace p,q; remove p,q; JSON round trip; Cedar text reload; load document; UnmarshalJSON into the live set; '
                'mutate a Map() copy; store one policy object under two ids; keep a copy of the set; remove not-yet-reached entries while ranging over All()}, each followed by get/all/marshal/authorize, plus random histories of 1-24 operations over 14 ids '
                '(incl. policy10 vs policy2, the empty id, ids with control characters, quotes and non-BMP code points) and a pool of 6 policies; documents are loaded under 11 file names (empty, relative with ./ // .., trailing slash, backslashes, non-ASCII) that every position must report verbatim; every operation result compared; '
                'non-trivial = the history contains at least one mutation' % maxlen)
    ctx.exhaustive = True

    def nontrivial(c, g):
        return '(add' in c or '(fromdoc' in c

    go, mo, mism = lib.differential(ctx, cases, 'pshist', nontrivial=nontrivial,
                                    describe='cedar.PolicySet disagrees with the id-keyed map model')
    for c in cases[200:202] + cases[-2:]:
        ctx.sample(dict(case=c, go=go.get(lib.case_id(c))))
    ctx.oblige('correspondence: PolicySet history outputs = model on %d histories' % len(cases), 'correspondence', not mism)
    lib.epilogue(ctx)
