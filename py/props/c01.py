"""C01 — expression evaluation follows the Cedar semantics.
Theorems: Properties/C01.v.  Correspondence: x/exp/eval.Eval (unfolded evaluator) vs the extracted model on
(1) the operator x boundary-operand table, (2) extension constructors x literal strings, (3) random trees."""
import lib
import gen
import sx
from gen import S, lit, case


def universe(g):
    vals = []
    vals += [gen.vbool(True), gen.vbool(False)]
    vals += [gen.vlong(z) for z in [0, 1, -1, 2, gen.MAX64, gen.MIN64, gen.MAX64 - 1, gen.MIN64 + 1, 3037000500, -3037000500, 4294967296, 86400000]]
    vals += [gen.vstr(s) for s in ['', 'a', 'k', 'alice', '1.5']]
    vals += [gen.vent('User', 'a'), gen.vent('User', 'b'), gen.vent('Group', 'a'), gen.vent('Doc', 'zz'), gen.vent('', '')]
    vals += [gen.vset([]), gen.vset([gen.vlong(1), gen.vbool(True), gen.vdec(1)]), gen.vset([gen.vent('User', 'a'), gen.vent('Group', 'a')]),
             gen.vset([gen.vlong(1)]), gen.vset([gen.vent('User', 'a'), gen.vlong(1)])]
    vals += [gen.vrec([]), gen.vrec([('k', gen.vlong(1))]), gen.vrec([('k', gen.vlong(1)), ('a', gen.vstr('x'))])]
    vals += [gen.vdec(z) for z in [0, 1, -1, gen.MAX64, gen.MIN64]]
    vals += [gen.vdt(z) for z in [0, 1, -1, -gen.DAY - 1, gen.MAX64, gen.MIN64, gen.MIN64 + gen.DAY - 1]]
    vals += [gen.vdur(z) for z in [0, 1, -1, gen.DAY, gen.MAX64, gen.MIN64]]
    vals += [gen.vip(t) for t in [gen.IPS[0], gen.IPS[1], gen.IPS[4], gen.IPS[5], gen.IPS[9], gen.IPS[11], gen.IPS[13], gen.IPS[14], gen.IPS[17], gen.IPS[18]]]
    return vals


def fixed_env():
    store = ['store',
             ['ent', gen.vent('User', 'a'), ['parents', gen.vent('Group', 'a')], ['attrs', [S('k'), gen.vlong(1)], [S('name'), gen.vstr('alice')]],
              ['tags', [S('k'), gen.vstr('t')], [S('a'), gen.vlong(2)]]],
             ['ent', gen.vent('Group', 'a'), ['parents', gen.vent('Group', 'b')], ['attrs'], ['tags']],
             ['ent', gen.vent('Group', 'b'), ['parents'], ['attrs', [S('k'), gen.vbool(True)]], ['tags']],
             ['ent', gen.vent('User', 'b'), ['parents'], ['attrs'], ['tags']]]
    req = ['req', gen.vent('User', 'a'), gen.vent('Action', 'view'), gen.vent('Doc', 'zz'),
           gen.vrec([('k', gen.vlong(1)), ('flag', gen.vbool(True)), ('n', gen.vlong(5))])]
    return store, req


def gen_table(ctx, g):
    store, req = fixed_env()
    vals = universe(g)
    cases = []
    n = 0
    rng = ctx.rng
    quick = ctx.tier == 'quick'

    def add(e):
        nonlocal n
        n += 1
        cases.append(case('t%d' % n, 'eval', store, req, e))

    for op in gen.Gen.BIN:
        for a in vals:
            for b in vals:
                if quick and rng.random() < 0.6 and a[0] != b[0]:
                    continue
                add([op, lit(a), lit(b)])
    for op in gen.Gen.UN:
        for a in vals:
            add([op, lit(a)])
    for a in vals:
        for k in ['k', 'a', 'zz', '']:
            add(['access', lit(a), S(k)])
            add(['has', lit(a), S(k)])
        for t in ['User', 'Group', '']:
            add(['is', lit(a), S(t)])
            add(['isIn', lit(a), S(t), lit(gen.vent('Group', 'b'))])
            add(['isIn', lit(a), S(t), lit(gen.vlong(1))])
        add(['like', lit(a), ['pat', S('a'), ['w']]])
        for b in vals[:6]:
            add(['if', lit(a), lit(b), lit(gen.vlong(7))])
    # sets whose members collide in the internal hash, built in different orders: equal whatever the order (==, contains on sets of sets,
    # containsAll / containsAny, records holding them)
    import itertools
    coll = [gen.vlong(1), gen.vbool(True), gen.vdec(1), gen.vdur(1), gen.vdt(1)]
    perms = [list(p_) for k_ in (2, 3) for p_ in itertools.permutations(coll[:4], k_)]
    for p1 in perms:
        for p2 in perms:
            if sorted(map(sx.dump, p1)) != sorted(map(sx.dump, p2)) and rng.random() < 0.9:
                continue
            if quick and rng.random() < 0.5:
                continue
            s1, s2 = gen.vset(p1), gen.vset(p2)
            add(['eq', lit(s1), lit(s2)])
            add(['eq', ['mkset'] + [lit(x) for x in p1], ['mkset'] + [lit(x) for x in p2]])
            add(['contains', lit(gen.vset([s1, gen.vlong(7)])), lit(s2)])
            add(['containsAll', lit(s1), lit(s2)])
            add(['eq', lit(gen.vrec([('s', s1)])), lit(gen.vrec([('s', s2)]))])
            add(['ne', ['mkrec', [S('s'), ['mkset'] + [lit(x) for x in p1]]], lit(gen.vrec([('s', s2)]))])
    # `&&` / `||` check that BOTH operands are Booleans even when the left one decides nothing: a literal true && x (false || x) with a
    # non-Boolean x is a type error wherever the result would be consumed (==, contains, a set or record literal, if)
    C_ = ['var', 'context']
    for X in (lit(gen.vlong(3)), ['access', C_, S('n')], lit(gen.vstr('yes')), ['var', 'principal'], lit(gen.vset([])), ['access', C_, S('flag')], ['access', C_, S('nosuch')]):
        for G_ in (['and', lit(gen.vbool(True)), X], ['or', lit(gen.vbool(False)), X], ['and', ['access', C_, S('flag')], X], ['and', lit(gen.vbool(False)), X], ['or', lit(gen.vbool(True)), X]):
            add(G_)
            add(['eq', G_, lit(gen.vlong(3))])
            add(['ne', G_, X])
            add(['contains', ['mkset', G_], lit(gen.vlong(3))])
            add(['mkrec', [S('k'), G_]])
            add(['if', lit(gen.vbool(True)), G_, lit(gen.vlong(0))])
            add(['eq', ['mkset', G_, G_], ['mkset']])
    # extension functions
    for f in gen.Gen.EXT1:
        for a in vals:
            add(['call', S(f), lit(a)])
        add(['call', S(f)])
        add(['call', S(f), lit(vals[0]), lit(vals[1])])
    for f in gen.Gen.EXT2:
        for a in vals:
            for b in vals:
                if a[0] != b[0] and rng.random() < (0.85 if quick else 0.5):
                    continue
                add(['call', S(f), lit(a), lit(b)])
        add(['call', S(f), lit(vals[0])])
    for f in ['nosuch', '', 'Decimal', 'ipaddr']:
        add(['call', S(f), lit(gen.vstr('x'))])
        add(['call', S(f)])
    # constructors x literal strings
    for f, strs in [('decimal', gen.DEC_STRS), ('duration', gen.DUR_STRS), ('datetime', gen.DT_STRS), ('ip', gen.IP_STRS)]:
        for s in strs:
            add(['call', S(f), lit(gen.vstr(s))])
    # datetime / duration arithmetic on boundary values
    for a in gen.DTS:
        add(['call', S('toDate'), lit(gen.vdt(a))])
        add(['call', S('toTime'), lit(gen.vdt(a))])
        for b in gen.DURS:
            add(['call', S('offset'), lit(gen.vdt(a)), lit(gen.vdur(b))])
        for b in gen.DTS:
            add(['call', S('durationSince'), lit(gen.vdt(a)), lit(gen.vdt(b))])
    for a in gen.DURS:
        for f in ['toDays', 'toHours', 'toMinutes', 'toSeconds', 'toMilliseconds']:
            add(['call', S(f), lit(gen.vdur(a))])
    for a in gen.LONGS:
        add(['neg', lit(gen.vlong(a))])
        for b in gen.LONGS:
            for op in ['add', 'sub', 'mul', 'lt', 'le', 'gt', 'ge']:
                add([op, lit(gen.vlong(a)), lit(gen.vlong(b))])
    for a in gen.IPS:
        for f in ['isIpv4', 'isIpv6', 'isLoopback', 'isMulticast']:
            add(['call', S(f), lit(gen.vip(a))])
        for b in gen.IPS:
            add(['call', S('isInRange'), lit(gen.vip(a)), lit(gen.vip(b))])
    # like: patterns x strings
    pats = [['pat'], ['pat', ['w']], ['pat', S('a')], ['pat', S('a'), ['w']], ['pat', ['w'], S('a')], ['pat', ['w'], S('a'), ['w']],
            ['pat', S('a'), ['w'], S('b')], ['pat', ['w'], S('ab'), ['w'], S('ab')], ['pat', S(''), ['w']], ['pat', ['w'], ['w'], S('b')],
            ['pat', S('a'), ['w'], S('a')], ['pat', ['w'], S('aa')], ['pat', S('é'), ['w']], ['pat', ['w'], S('é')], ['pat', S('a*b')],
            ['pat', ['w'], S('aab'), ['w']], ['pat', S('a'), ['w'], S('b'), ['w'], S('c')]]
    for p in pats:
        for s in gen.STRINGS + ['aa', 'aaa', 'ba', 'aba', 'abab', 'ababab', 'aaab', 'baab', 'acbdc', 'abc', 'abcabc']:
            add(['like', lit(gen.vstr(s)), p])
    return cases


def gen_random(ctx, g, count):
    cases = []
    for i in range(count):
        store = g.store()
        req = g.request()
        depth = ctx.rng.choice([1, 2, 2, 3, 3, 4, 5])
        e = g.expr(depth, ctx.rng.choice([None, 'bool', 'bool', 'long', 'set', 'dt', 'dur']))
        cases.append(case('r%d' % i, 'eval', store, req, e))
    return cases


def run(ctx):
    b = lib.standard_build(ctx)
    if not (b.get('harness') and b.get('model')):
        ctx.violation('build failed: ' + '; '.join(o['name'] for o in ctx.broken_obligations()),
                      dict(kind='build', obligations=ctx.broken_obligations()), found_input=False)
        return
    g = gen.Gen(ctx.rng)
    table = gen_table(ctx, g)
    rnd = gen_random(ctx, g, 6000 if ctx.tier == 'quick' else 300000)
    ctx.rule = ('(1) every binary/unary operator, access/has/is/like/if and every extension function applied to all pairs of a %d-value typed '
                'boundary universe (extreme longs, pre-1970 and extreme datetimes, negative durations, hash-colliding set members, absent and '
                'unspecified entities, IPv4-mapped IPv6); (2) decimal/duration/datetime/ip constructors on %d literal strings (valid, boundary, '
                'malformed); (3) random type-directed trees (15%% ill-typed hints) of depth 1-5 over random stores/requests. '
                'non-trivial = result is a value or an error other than a plain type error on literals' % (len(universe(g)),
                len(gen.DEC_STRS) + len(gen.DUR_STRS) + len(gen.DT_STRS) + len(gen.IP_STRS)))
    hist = {}

    def nontrivial(c, gres):
        k = gres.split(' ', 1)[0] + (' ' + gres.split(' ')[1].rstrip(')') if gres.startswith('(err') else '')
        hist[k] = hist.get(k, 0) + 1
        return not gres.startswith('(err type')

    go, mo, mism = lib.differential(ctx, table + rnd, 'eval', nontrivial=nontrivial, classify=lambda c, gr, m: classify(ctx, c, gr, m),
                                    describe='x/exp/eval.Eval disagrees with the model evaluator')
    ctx.extra['result_histogram'] = hist
    ctx.extra['table_cases'] = len(table)
    ctx.extra['random_cases'] = len(rnd)
    for c in table[:2] + rnd[:3]:
        ctx.sample(dict(case=c[:600], go=go.get(lib.case_id(c))))
    ctx.oblige('correspondence: eval.Eval = model eval on %d cases' % (len(table) + len(rnd)), 'correspondence', not mism)
    broken = [o for o in ctx.broken_obligations() if o['kind'] in ('theorem', 'build', 'hygiene', 'translator')]
    if broken and not ctx.violations:
        ctx.violation('proof obligations no longer check: ' + '; '.join(o['name'] for o in broken),
                      dict(kind='obligations', obligations=broken), found_input=False)


def classify(ctx, c, gr, m):
    return None
