"""shared by C08 (text) and C09 (JSON): policies of every shape through the policycodec / policysetcodec kinds"""
import lib
import gen
import sx
from gen import S, lit, case
import props.c01 as c01

TEXT_PROBLEMS = ('text-does-not-parse', 'text-changes-effect-annotations-or-scope', 'text-changes-meaning', 'second-rendering-differs',
                 'set-text-does-not-parse', 'set-text-changes-size', 'set-text-order-or-content', 'policy-text-does-not-parse',
                 'encoder-error', 'decoder-error', 'stream-changes-policy', 'text-changes-tree-no-witness')


def targeted_exprs():
    L = lambda z: lit(gen.vlong(z))
    P, C = ['var', 'principal'], ['var', 'context']
    a, b, c = L(1), L(2), ['access', C, S('n')]
    out = []
    binops = ['and', 'or', 'add', 'sub', 'mul', 'eq', 'ne', 'lt', 'le', 'gt', 'ge', 'in', 'contains', 'containsAll', 'containsAny', 'getTag', 'hasTag']
    # every parent/child operator pairing, child in both operand positions
    children = [['and', a, b], ['or', a, b], ['add', a, b], ['sub', a, b], ['mul', a, b], ['eq', a, b], ['lt', a, b], ['in', P, lit(gen.vent('G', 'g'))],
                ['not', a], ['neg', a], ['neg', c], ['if', a, b, c], ['has', C, S('k')], ['like', lit(gen.vstr('s')), ['pat', S('a'), ['w']]],
                ['is', P, S('User')], ['isIn', P, S('User'), lit(gen.vent('G', 'g'))], ['access', C, S('k')], ['access', C, S('x y')],
                ['contains', ['mkset', a], b], ['isEmpty', ['mkset']], ['call', S('isIpv4'), ['call', S('ip'), lit(gen.vstr('1.1.1.1'))]],
                ['call', S('decimal'), lit(gen.vstr('1.0'))], ['mkset', a, b], ['mkrec', [S('k'), a]], L(-5), L(0), lit(gen.vdec(15000)),
                lit(gen.vip(gen.IPS[0])), lit(gen.vdt(0)), lit(gen.vdur(1000)), lit(gen.vset([gen.vlong(1), gen.vdec(1)])),
                lit(gen.vrec([('k', gen.vdec(1))])), lit(gen.vent('User', 'a')), lit(gen.vstr('a"b\\c\n')), lit(gen.vbool(True)), P]
    for op in binops:
        for ch in children:
            out.append([op, ch, a])
            out.append([op, a, ch])
    for ch in children:
        out += [['not', ch], ['neg', ch], ['isEmpty', ch], ['access', ch, S('k')], ['access', ch, S('if')], ['has', ch, S('k')], ['has', ch, S('a b')],
                ['like', ch, ['pat', ['w'], S('*'), S('"')]], ['is', ch, S('NS::T')], ['isIn', ch, S('User'), a], ['isIn', P, S('User'), ch],
                ['if', ch, a, b], ['if', a, ch, b], ['if', a, b, ch], ['mkset', ch, ch], ['mkrec', [S('a'), ch], [S('if'), ch], [S(''), ch]],
                ['call', S('isInRange'), ch, a], ['call', S('isInRange'), a, ch], ['call', S('ip'), ch], ['call', S('toDate'), ch],
                ['call', S('offset'), ch, ch]]
    # unary minus in front of every kind of primary and postfix chain: function-style and method-style extension calls, sets, records, if, variables
    dec_ = ['call', S('decimal'), lit(gen.vstr('1.0'))]
    dur_ = ['call', S('duration'), lit(gen.vstr('1h'))]
    for opnd in (dec_, dur_, ['call', S('ip'), lit(gen.vstr('1.1.1.1'))], ['call', S('datetime'), lit(gen.vstr('2024-01-01'))], ['call', S('toHours'), dur_],
                 ['call', S('lessThan'), dec_, dec_], ['access', dec_, S('a')], ['call', S('toTime'), ['call', S('datetime'), lit(gen.vstr('2024-01-01'))]],
                 ['mkset', L(1)], ['mkrec', [S('a'), L(1)]], ['access', ['mkrec', [S('a'), L(1)]], S('a')], ['if', a, L(1), L(2)], ['call', S('decimal')]):
        out += [['neg', opnd], ['neg', ['neg', opnd]], ['not', ['neg', opnd]], ['sub', L(1), ['neg', opnd]]]
    out += [['neg', ['neg', L(5)]], ['neg', L(gen.MIN64)], ['neg', ['neg', ['neg', c]]], ['not', ['not', ['not', a]]], ['sub', a, ['neg', b]], ['sub', a, L(-2)],
            ['sub', ['sub', a, b], c], ['sub', a, ['sub', b, c]], ['mul', ['mul', a, b], c], ['mul', a, ['mul', b, c]],
            ['neg', ['access', L(1), S('a')]], ['neg', ['contains', L(1), a]], ['access', L(-5), S('a')], ['neg', ['call', S('toDate'), L(1)]],
            ['has', ['access', C, S('a')], S('b')], ['and', ['has', C, S('a')], ['has', ['access', C, S('a')], S('b')]]]
    # associativity and precedence over three independent operands (the grouping must survive the round trip)
    x, y, z = ['access', C, S('x')], ['access', C, S('y')], ['access', C, S('n')]
    for o1 in ['add', 'sub', 'mul', 'and', 'or']:
        for o2 in ['add', 'sub', 'mul', 'and', 'or', 'eq', 'lt', 'in']:
            out += [[o1, x, [o2, y, z]], [o1, [o2, x, y], z], [o2, x, [o1, y, z]], [o2, [o1, x, y], z]]
    out += [['neg', ['add', x, y]], ['neg', ['mul', x, y]], ['mul', ['neg', x], y], ['not', ['and', x, y]], ['not', ['eq', x, y]],
            ['access', ['add', x, y], S('k')], ['if', x, y, ['add', z, x]], ['add', ['if', x, y, z], x], ['add', x, ['if', x, y, z]]]
    for k in ['k', 'if', 'true', 'principal', 'in', 'like', 'x y', '', 'é', '1a', '_a', 'a_1', '__cedar', 'has', 'is', 'then', 'else', '"', '\\', '\n', '\x00', ' ', 'role ', ' flag', '\ta', 'a\n', 'a\r\n', 'role//x', 'a/*b*/', '/**/a', 'a // c', ' a ', 'a\u00a0', 'a.b', 'a::b', 'a(', 'a-b', 'A1_', '\uff41']:
        out += [['access', C, S(k)], ['has', C, S(k)], ['mkrec', [S(k), a]]]
    # record VALUES (a policy built through the API or decoded from JSON can hold one; text has only record literals): every key that needs an
    # escape - the C0 controls Go and Cedar spell differently (BEL, BS, VT, FF), DEL, code points that are not printable (NBSP, soft hyphen, ZWSP, BOM,
    # a tag character), quotes and backslashes
    for k in ['k', 'x y', '', '"', '\\', '\n', '\x00', '\x07', '\x08', '\x0b', '\x0c', '\x1b', '\x7f', 'a\u00a0', '\u00ad', '\u200b', '\ufeff', '\U000e0001', '\u2028', 'é', '\U0001f600', 'if', '__cedar']:
        out += [lit(gen.vrec([(k, gen.vlong(1))])), ['access', lit(gen.vrec([(k, gen.vlong(1)), ('z', gen.vstr(k))])), S(k)],
                ['eq', C, lit(gen.vrec([(k, gen.vset([gen.vrec([(k, gen.vbool(True))])]))]))]]
    for s_ in ['%', '100%d', '%s%%', 'at most 80% of', 'a%', '%!d(MISSING)', '{}', '$1', '\\n%v', '', 'a', '"', '\\', "'", '\n\r\t', '\x00', '\x1f', '\x7f', '\x80', 'é', ' ', '﻿', '�', '\U0001f600', '*', '\\*', 'a*b', '́', 'ﬁ']:
        out += [lit(gen.vstr(s_)), ['like', lit(gen.vstr('x')), ['pat', S(s_)]], ['like', lit(gen.vstr('x')), ['pat', ['w'], S(s_), ['w']]],
                lit(gen.vent('User', s_)), ['eq', P, lit(gen.vent('User', s_))]]
    return out


def gen_policies(ctx, nrand):
    r = ctx.rng
    g = gen.Gen(r, wf_calls=True)
    pols = []
    n = 0
    for e in targeted_exprs():
        n += 1
        pols.append(['policy', S('t%d' % n), 'permit', ['all'], ['all'], ['all'], ['conds', [r.choice(['when', 'unless']), e]], ['annots']])
    scopes_p = [['all'], ['eq', gen.vent('User', 'a')], ['in', gen.vent('NS::G', 'g"')], ['is', S('NS::T')], ['isin', S('User'), gen.vent('Group', 'a')]]
    scopes_a = [['all'], ['eq', gen.vent('Action', 'view')], ['in', gen.vent('Action', 'all')], ['inset'], ['inset', gen.vent('Action', 'a')],
                ['inset', gen.vent('Action', 'a'), gen.vent('NS::Action', 'b c')]]
    for sp in scopes_p:
        for sa in scopes_a:
            for sr in scopes_p:
                n += 1
                ann = ['annots'] + [[S(k), S(v)] for k, v in [('id', 'x'), ('a_b', ''), ('if', 'quote " and \\ and \n'), ('pct', 'at most 80% of the quota, %d %s %%')][:n % 5]]
                pols.append(['policy', S('s%d' % n), r.choice(['permit', 'forbid']), sp, sa, sr, ['conds'], ann])
    for i in range(nrand):
        p = g.policy('r%d' % i, depth=r.choice([1, 2, 3, 4]))
        ann = ['annots'] + [[S(k), S(r.choice(['', 'v', 'x "y"', 'é\n', '100%', '%d%%']))] for k in r.sample(['a', 'b', 'c', 'id', 'when', 'k9', '_x'], r.randrange(0, 4))]
        pols.append(p + [ann])
    return g, pols


def run_codec(ctx, want_text):
    b = lib.standard_build(ctx)
    if not lib.require_builds(ctx, b):
        return
    r = ctx.rng
    quick = ctx.tier == 'quick'
    g, pols = gen_policies(ctx, 2500 if quick else 120000)
    store, req = c01.fixed_env()
    envs = ['envs', ['env', store, req]] + [['env', g.store(), g.request()] for _ in range(3)]
    cases = [case('c%d' % i, 'policycodec', p, envs) for i, p in enumerate(pols)]
    for i in range(200 if quick else 5000):
        k = r.randrange(1, 6)
        chosen = [list(r.choice(pols)) for _ in range(k)]
        ids = r.sample(['policy0', 'policy1', 'policy10', 'policy2', 'a', 'B', '', 'é', 'x y', '"'], k)
        for p, pid in zip(chosen, ids):
            p[1] = S(pid)
        cases.append(case('s%d' % i, 'policysetcodec', ['policies'] + chosen))
    go = lib.run_go(cases, 'codec', ctx.workdir, timeout_ms=30000)
    bad = 0
    hist = {}
    pending = []
    for c in cases:
        res = go.get(lib.case_id(c), '(missing)')
        ctx.count(c.split(' ', 2)[2][:3000], res == '(ok)')
        if res in ('(ok)', '(unrenderable)'):
            hist[res] = hist.get(res, 0) + 1
            continue
        name = res.split(' ')[1].rstrip(')') if res.startswith('(problem') else res
        is_text = name in TEXT_PROBLEMS
        if res.startswith('(problem') and is_text != want_text:
            continue                      # the other property's business
        hist[name] = hist.get(name, 0) + 1
        fid = classify(c, name, res)
        if fid:
            ctx.known(*fid)
            continue
        bad += 1
        pending.append((name.endswith('-no-witness'), len(c), c, name, res))
    # report concrete failing inputs first, smallest first
    for nowit, _, c, name, res in sorted(pending)[:6]:
        try:
            t = sx.parse(res)
            details = [sx.unS(x).decode('utf-8', 'replace')[:300] for x in t[2:4]]
        except Exception:
            details = []
        ctx.violation('policy codec: %s %s' % (name, ' | '.join(details)), dict(kind='case', case=c, go=res[:4000]), found_input=not nowit)
    ctx.extra['result_histogram'] = hist
    for c in cases[:2] + cases[-2:]:
        ctx.sample(dict(case=c[:300], go=(go.get(lib.case_id(c)) or '')[:200]))
    return bad, len(cases)


def printer_correspondence(ctx, pols):
    """Go MarshalCedar bytes = the Coq printer model (Impl/Printer.v) bytes, with the escaper's Unicode tables observed from the code"""
    import re
    runes = set()
    for p in pols:
        for h in re.findall(r'x((?:[0-9a-f]{2})+)', sx.dump(p)):
            try:
                runes.update(ord(ch) for ch in bytes.fromhex(h).decode('utf-8') if ord(ch) >= 0x7f)
            except UnicodeDecodeError:
                pass
    info = lib.run_go(['(case ri runeinfo (runes %s))' % ' '.join(map(str, sorted(runes)))], 'runeinfo', ctx.workdir).get('ri', '()')
    table = '(runes %s)' % info.strip()[1:-1]
    cases = [case('q%d' % i, 'printpol', p, sx.parse(table)) for i, p in enumerate(pols)]
    go, mo, mism = lib.differential(ctx, cases, 'printpol', describe='MarshalCedar bytes differ from the Coq printer model',
                                    classify=lambda c, g, m: ('F30', 'IPv4-mapped IPv6 ipaddr literal renders in a notation the parser rejects') if False else None)
    return len(cases), mism


def classify(c, name, res):
    c = c.split(' (envs ')[0]          # the policy, not the environments it is evaluated on
    if name in ('second-json-differs', 'second-rendering-differs'):
        import props.c13 as c13
        if c13.two_wrapping_members(c):
            try:
                t = sx.parse(res)
                a, b2 = sx.unS(t[2]), sx.unS(t[3])
                if sorted(a) == sorted(b2):
                    return ('F16', 'a set VALUE lists its members in a different order after a round trip when member hashes wrap past 2^64')
            except Exception:
                pass
    if lib.has_4in6(c) and name in ('text-changes-meaning', 'json-does-not-decode', 'json-changes-meaning', 'text-json-changes-ast', 'json-of-parsed-text-does-not-decode',
                                    'text-of-decoded-json-does-not-parse', 'set-json-does-not-decode', 'json-text-differs-from-text-alone', 'json-changes-ast'):
        return ('F30', 'IPv4-mapped IPv6 ipaddr literal renders in a notation the parser rejects')
    if lib.has_first_day_datetime(c) and name in ('text-changes-meaning', 'json-does-not-decode', 'json-changes-meaning', 'set-json-does-not-decode',
                                                  'json-of-parsed-text-does-not-decode'):
        return ('F27', 'datetime literal in the first day of the int64 range renders to text/JSON that does not parse back')
    return None
