"""C02 — authorization decision.  Theorems: Properties/C02.v (decision, reasons, errors, order-irrelevance
of cedar.Authorize's loop, for any iterator).  Correspondence: exhaustive small multisets of
(effect x outcome) policies, concretised to real Cedar policies by the Go harness, for PolicySet, a
slice-backed PolicyIterator and an iterator yielding duplicate ids."""
import itertools

import lib

KINDS = [(e, o) for e in ('permit', 'forbid') for o in ('t', 'f', 'e')]
NVAR = {'t': 5, 'f': 6, 'e': 12}


def gen_cases(ctx):
    rng = ctx.rng
    cases = []
    n = 0
    maxlen = 4 if ctx.tier == 'quick' else 6
    for ln in range(0, maxlen + 1):
        for combo in itertools.product(range(len(KINDS)), repeat=ln):
            for it in ('set', 'slice', 'dup'):
                if ctx.tier != 'quick' and ln == 6 and it != 'set' and rng.random() < 0.5:
                    continue
                pols = ['(p %d %s %s %d)' % (i, KINDS[k][0], KINDS[k][1], rng.randrange(NVAR[KINDS[k][1]]))
                        for i, k in enumerate(combo)]
                n += 1
                cases.append('(case a%d authz-abs %s (pols %s))' % (n, it, ' '.join(pols)))
    nrand = 300 if ctx.tier == 'quick' else 5000
    for _ in range(nrand):
        ln = rng.randrange(5, 40)
        it = rng.choice(['set', 'slice', 'dup'])
        pols = []
        for i in range(ln):
            e, o = rng.choice(KINDS)
            if rng.random() < 0.5:
                o = 'f'
            pols.append('(p %d %s %s %d)' % (i, e, o, rng.randrange(NVAR[o])))
        n += 1
        cases.append('(case a%d authz-abs %s (pols %s))' % (n, it, ' '.join(pols)))
    return cases, maxlen


def run(ctx):
    b = lib.standard_build(ctx)
    cases, maxlen = gen_cases(ctx)
    ctx.rule = ('every sequence of <=%d policies over {permit,forbid}x{satisfied,unsatisfied,erroring} (each outcome concretised by '
                'one of 5-12 real Cedar policies: scope match/mismatch, when/unless, type/overflow/attr/tag/entity/extension errors, '
                'non-boolean conditions, non-boolean operands of && / || behind a deciding literal) x {PolicySet, slice iterator, duplicate-id iterator}, plus random sequences of 5-40 policies; '
                'non-trivial = at least one reason or error reported; ids, positions (file, offset, line, column) of every reason/error '
                'checked against the policy they must name; plus every sequence of up to 3 (thorough: 4) when / unless clauses with true / false / erroring bodies' % maxlen)
    ctx.exhaustive = True
    if not (b.get('harness') and b.get('model')):
        ctx.violation('build failed: ' + '; '.join(o['name'] for o in ctx.broken_obligations()),
                      dict(kind='build', obligations=ctx.broken_obligations()), found_input=False)
        return

    def project(r):
        # the model does not produce the (meta ok) component; require it of the code and strip it
        r = lib.canon_str(r)
        if r.endswith(' (meta ok))'):
            r = r[:-len(' (meta ok))')] + ')'
        return r

    def nontrivial(c, g):
        return '(reasons ())' not in g or '(errors ())' not in g

    go, mo, mism = lib.differential(ctx, cases, 'abs', project=project, nontrivial=nontrivial,
                                    describe='cedar.Authorize disagrees with the proved decision model')
    for c in cases[:3] + cases[-2:]:
        ctx.sample(dict(case=c, go=go.get(lib.case_id(c))))
    ctx.oblige('correspondence: cedar.Authorize = model authorize on %d cases' % len(cases), 'correspondence', not mism)
    # clause structure: a policy is satisfied iff ALL its when clauses hold and ALL its unless clauses fail, clauses evaluated in order,
    # the first erroring clause reached makes the policy error.  Every sequence of <= 3 (4) clauses over {when, unless} x {true, false,
    # error}, with 1-2 alternative bodies per outcome, as permit and as forbid, alone and next to a second policy.
    import itertools as _it
    import gen, sx
    import props.c01 as c01
    from gen import S, lit, case
    store, req = c01.fixed_env()
    C = ['var', 'context']
    BODY = {'t': [lit(gen.vbool(True)), ['access', C, S('flag')], ['eq', ['access', C, S('n')], lit(gen.vlong(5))]],
            'f': [lit(gen.vbool(False)), ['not', ['access', C, S('flag')]], ['in', ['var', 'principal'], lit(gen.vent('Group', 'zz'))]],
            'e': [['access', C, S('missing')], ['eq', ['add', lit(gen.vlong(1)), lit(gen.vstr('a'))], lit(gen.vlong(1))], lit(gen.vlong(7))]}
    ccases = []
    k = 0
    maxc = 3 if ctx.tier == 'quick' else 4
    for ln in range(1, maxc + 1):
        for combo in _it.product([(w, o) for w in ('when', 'unless') for o in 'tfe'], repeat=ln):
            for eff in ('permit', 'forbid'):
                conds = ['conds'] + [[w, ctx.rng.choice(BODY[o])] for (w, o) in combo]
                pol = ['policy', S('p0'), eff, ['all'], ['all'], ['all'], conds]
                other = ['policy', S('p1'), 'permit' if eff == 'forbid' else ctx.rng.choice(['permit', 'forbid']), ['all'], ['all'], ['all'],
                         ['conds'] + ([[ctx.rng.choice(['when', 'unless']), ctx.rng.choice(BODY[ctx.rng.choice('tf')])]] if ctx.rng.random() < 0.5 else [])]
                k += 1
                ccases.append(case('c%d' % k, 'authz', store, req, ['policies', pol] + ([other] if k % 2 else [])))
    go2, mo2, mism2 = lib.differential(ctx, ccases, 'authz', describe='cedar.Authorize disagrees with the model on a policy with several when / unless clauses')
    ctx.oblige('correspondence: cedar.Authorize = model on %d policies covering every sequence of <= %d when / unless clauses x {true, false, error}' % (len(ccases), maxc),
               'correspondence', not mism2)
    broken = [o for o in ctx.broken_obligations() if o['kind'] in ('theorem', 'build', 'hygiene', 'translator')]
    if broken and not ctx.violations:
        ctx.violation('proof obligations no longer check: ' + '; '.join(o['name'] for o in broken),
                      dict(kind='obligations', obligations=broken), found_input=False)
