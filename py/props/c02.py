"""C02 — authorization decision.  Theorems: Properties/C02.v (decision, reasons, errors, order-irrelevance
of cedar.Authorize's loop, for any iterator).  Correspondence: exhaustive small multisets of
(effect x outcome) policies, concretised to real Cedar policies by the Go harness, for PolicySet, a
slice-backed PolicyIterator and an iterator yielding duplicate ids."""
import itertools

import lib

KINDS = [(e, o) for e in ('permit', 'forbid') for o in ('t', 'f', 'e')]
NVAR = {'t': 5, 'f': 6, 'e': 8}


def gen_cases(ctx):
    rng = ctx.rng
    cases = []
    n = 0
    maxlen = 4 if ctx.tier == 'quick' else 6
    for ln in range(0, maxlen + 1):
        for combo in itertools.product(range(len(KINDS)), repeat=ln):
            for it in ('set', 'slice', 'dup'):
                if ctx.tier != 'quick' and ln == 6 and it != 'set' and rng.random() < 0.5:
                    continue
                pols = ['(p %d %s %s %d)' % (i, KINDS[k][0], KINDS[k][1], rng.randrange(NVAR[KINDS[k][1]]))
                        for i, k in enumerate(combo)]
                n += 1
                cases.append('(case a%d authz-abs %s (pols %s))' % (n, it, ' '.join(pols)))
    nrand = 300 if ctx.tier == 'quick' else 5000
    for _ in range(nrand):
        ln = rng.randrange(5, 40)
        it = rng.choice(['set', 'slice', 'dup'])
        pols = []
        for i in range(ln):
            e, o = rng.choice(KINDS)
            if rng.random() < 0.5:
                o = 'f'
            pols.append('(p %d %s %s %d)' % (i, e, o, rng.randrange(NVAR[o])))
        n += 1
        cases.append('(case a%d authz-abs %s (pols %s))' % (n, it, ' '.join(pols)))
    return cases, maxlen


def run(ctx):
    b = lib.standard_build(ctx)
    cases, maxlen = gen_cases(ctx)
    ctx.rule = ('every sequence of <=%d policies over {permit,forbid}x{satisfied,unsatisfied,erroring} (each outcome concretised by '
                'one of 5-8 real Cedar policies: scope match/mismatch, when/unless, type/overflow/attr/tag/entity/extension errors, '
                'non-boolean conditions) x {PolicySet, slice iterator, duplicate-id iterator}, plus random sequences of 5-40 policies; '
                'non-trivial = at least one reason or error reported; ids, positions (file, offset, line, column) of every reason/error '
                'checked against the policy they must name' % maxlen)
    ctx.exhaustive = True
    if not (b.get('harness') and b.get('model')):
        ctx.violation('build failed: ' + '; '.join(o['name'] for o in ctx.broken_obligations()),
                      dict(kind='build', obligations=ctx.broken_obligations()), found_input=False)
        return

    def project(r):
        # the model does not produce the (meta ok) component; require it of the code and strip it
        r = lib.canon_str(r)
        if r.endswith(' (meta ok))'):
            r = r[:-len(' (meta ok))')] + ')'
        return r

    def nontrivial(c, g):
        return '(reasons ())' not in g or '(errors ())' not in g

    go, mo, mism = lib.differential(ctx, cases, 'abs', project=project, nontrivial=nontrivial,
                                    describe='cedar.Authorize disagrees with the proved decision model')
    for c in cases[:3] + cases[-2:]:
        ctx.sample(dict(case=c, go=go.get(lib.case_id(c))))
    ctx.oblige('correspondence: cedar.Authorize = model authorize on %d cases' % len(cases), 'correspondence', not mism)
    broken = [o for o in ctx.broken_obligations() if o['kind'] in ('theorem', 'build', 'hygiene', 'translator')]
    if broken and not ctx.violations:
        ctx.violation('proof obligations no longer check: ' + '; '.join(o['name'] for o in broken),
                      dict(kind='obligations', obligations=broken), found_input=False)
