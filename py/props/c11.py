"""C11 — value equality, hashing, sets and records obey their algebraic laws.
Theorems: Properties/C11.v (equality laws on canonical values; the open-addressing table of types.Set implements the
mathematical set for every hash function).  Correspondence: all short sequences over a universe built to collide in the
internal hash, through Set/Record/Equal; the member ORDER of a marshalled set (slot order of the real FNV/uint64 hashes)
against the table model; immutability of constructor inputs / accessor outputs."""
import itertools

import lib
import gen
from gen import case


def universe():
    u = [gen.vbool(True), gen.vlong(1), gen.vdec(1), gen.vdur(1), gen.vdt(1),          # all hash to 1
         gen.vbool(False), gen.vlong(0), gen.vdec(0),                                    # all hash to 0
         gen.vlong(-1), gen.vdec(-1), gen.vdur(-1), gen.vlong(-2),                        # hash 2^64-1 : probing wraps around
         gen.vlong(2), gen.vstr('a'), gen.vstr(''), gen.vent('User', 'a'), gen.vent('Us', 'era'),   # Type+ID concatenation collides
         gen.vset([]), gen.vset([gen.vlong(1)]), gen.vset([gen.vbool(True)]), gen.vset([gen.vlong(1), gen.vlong(0)]),
         gen.vset([gen.vbool(True), gen.vlong(0)]), gen.vset([gen.vlong(-1), gen.vlong(2)]), gen.vset([gen.vlong(1), gen.vlong(-1), gen.vlong(1)]),
         gen.vrec([]), gen.vrec([('a', gen.vlong(1))]), gen.vrec([('a', gen.vbool(True))]),
         gen.vip(gen.IPS[0]), gen.vip(gen.IPS[1]),
         # longs a float64 cannot tell apart, alone and inside a set and a record (their JSON forms must decode to unequal values)
         gen.vlong(2 ** 53), gen.vlong(2 ** 53 + 1), gen.vset([gen.vlong(2 ** 53), gen.vlong(2 ** 53 + 1)]), gen.vrec([('n', gen.vlong(2 ** 53 + 1))]), gen.vrec([('n', gen.vlong(2 ** 53))])]
    return u


def run(ctx):
    b = lib.standard_build(ctx)
    if not lib.require_builds(ctx, b):
        return
    r = ctx.rng
    u = universe()
    core = u[:13]
    cases = []
    n = 0
    maxlen = 3 if ctx.tier == 'quick' else 4
    probes = ['probes'] + u
    for ln in range(0, maxlen + 1):
        for combo in itertools.product(range(len(core)), repeat=ln):
            if ln == maxlen and ctx.tier == 'quick' and r.random() < 0.5:
                continue
            n += 1
            vals = ['vals'] + [core[i] for i in combo]
            cases.append(case('v%d' % n, 'valops', vals, probes))
            n += 1
            cases.append(case('o%d' % n, 'setorder', vals))
    g = gen.Gen(r)
    for i in range(3000 if ctx.tier == 'quick' else 100000):
        ln = r.randrange(0, 9)
        vals = ['vals'] + [r.choice(u) if r.random() < 0.7 else g.value(2) for _ in range(ln)]
        n += 1
        cases.append(case('v%d' % n, 'valops', vals, ['probes'] + [r.choice(u) for _ in range(4)] + [g.value(2) for _ in range(3)]))
        n += 1
        cases.append(case('o%d' % n, 'setorder', vals))
    ctx.rule = ('all sequences of <=%d values over a 13-value universe whose members collide in the hash (true/1/decimal 0.0001/1ms/datetime 1; '
                'false/0; -1 family whose probe sequence wraps at 2^64) and random sequences of 0-8 values over a 34-value universe incl. nested '
                'sets and records, colliding entity uids and ip addresses; each checked for len, membership of 34 probes, equality under '
                'reversal and duplication, the full probe x probe equality matrix (reflexive/symmetric), Slice/All/Contains consistency, record '
                'equality, immutability under mutation of constructor inputs and accessor outputs, and the member order of the marshalled set '
                '(= ascending slot order of the real hashes) against the table model. non-trivial = at least two values' % maxlen)
    ctx.exhaustive = True

    def nontrivial(c, g):
        return c.count('(') > 6

    go, mo, mism = lib.differential(ctx, cases, 'values', nontrivial=nontrivial,
                                    describe='types.Set / Value.Equal disagree with the set model')
    for c in cases[50:52] + cases[-2:]:
        ctx.sample(dict(case=c[:400], go=(go.get(lib.case_id(c)) or '')[:300]))
    ctx.oblige('correspondence: Set/Record/Equal and marshal order = model on %d cases' % len(cases), 'correspondence', not mism)
    lib.epilogue(ctx)
