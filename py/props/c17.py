"""C17 — schema codecs round-trip and preserve the resolved schema.
Direct oracle: generated schema texts (namespaces, common types, nested records with optional attributes, sets, entity / extension
references, enums, action groups, annotations, names that need quoting or shadow builtins) -> parse -> render as text and as JSON ->
parse -> resolve: same resolved schema; second rendering byte-identical; conversion between formats commutes with resolution."""
import lib
import sx
import schematext
import schemagen
from gen import S

BUILTIN_NAMES = ('String', 'Long', 'Bool', 'ipaddr', 'decimal', 'datetime', 'duration', 'Set')


def ast_part(ctx):
    """schemas born as ASTs: (a) the codec obligations on them, (b) Schema.MarshalJSON = SchemaJson.enc_schema on JSON trees,
    (c) Schema.UnmarshalJSON = SchemaJson.dec_schema on encoder outputs and structural mutants"""
    import schemaast
    from gen import case
    r = ctx.rng
    quick = ctx.tier == 'quick'
    asts = [schemaast.schema_ast(r) for _ in range(600 if quick else 20000)]
    # (a)
    cases = [case('a%d' % i, 'schemaast', a) for i, a in enumerate(asts)]
    go = lib.run_go(cases, 'schemaast', ctx.workdir, timeout_ms=30000)
    bad = 0
    hist = {}
    for c in cases:
        res = go.get(lib.case_id(c), '(missing)')
        k = ' '.join(res.split(' ')[:2]).rstrip(')')
        hist[k] = hist.get(k, 0) + 1
        ctx.count(c[:3000], res == '(ok resolved)')
        if res.startswith('(ok'):
            continue
        name = res.split(' ')[1].rstrip(')') if res.startswith('(problem') else res
        if name in ('own-text-does-not-parse', 'json-text-does-not-parse') and ('(principals)' in c or '(resources)' in c):
            ctx.known('F45', 'an action whose appliesTo has an empty principal or resource list (expressible in JSON and in the AST) is printed as schema text that the text parser rejects')
            continue
        bad += 1
        if bad <= 6:
            try:
                t = sx.parse(res)
                det = ' | '.join(sx.unS(x).decode('utf-8', 'replace')[:300] for x in t[2:4])
            except Exception:
                det = ''
            ctx.violation('schema codec on an AST-born schema: %s\nDETAIL: %s' % (name, det), dict(kind='case', case=c, go=res[:3000]))
    ctx.extra['ast_born_histogram'] = hist
    ctx.oblige('direct oracle: AST-born schemas (empty enums / records / applies-to lists, quoted names, annotations): both renderings round-trip and preserve the resolved schema (%d schemas)'
               % len(cases), 'oracle', bad == 0)
    # (b)
    enc = [case('e%d' % i, 'sjsonenc', a) for i, a in enumerate(asts)]
    go_e, mo_e, mism = lib.differential(ctx, enc, 'sjsonenc', describe='Schema.MarshalJSON and the Coq model (Impl/SchemaJson.v enc_schema) disagree')
    ctx.oblige('correspondence: Schema.MarshalJSON = SchemaJson.enc_schema (JSON trees) on %d AST-born schemas' % len(enc), 'correspondence', not mism)
    # (c)
    trees = []
    for c in enc:
        res_ = go_e.get(lib.case_id(c), '')
        if res_.startswith('(tree '):
            trees.append(sx.parse(res_)[1])
    JUNK = [['null'], ['num', '1'], ['str', S('x')], ['arr'], ['obj'], ['bool', '0'], ['bool', '1'], ['arr', ['str', S('a')], ['null']],
            ['obj', [S('type'), ['str', S('Set')]]], ['obj', [S('type'), ['str', S('Record')]], [S('attributes'), ['obj', [S('a'), ['null']]]]], ['obj', [S('type'), ['num', '1']]]]
    KEYS = ['type', 'element', 'attributes', 'name', 'required', 'annotations', 'enum', 'memberOfTypes', 'shape', 'tags', 'memberOf', 'appliesTo', 'principalTypes',
            'resourceTypes', 'context', 'entityTypes', 'actions', 'commonTypes', 'id', 'zz', 'Type', 'ENUM']

    def nodes(t, path=()):
        yield path, t
        if not isinstance(t, str) and t and t[0] == 'arr':
            for i, x in enumerate(t[1:]):
                yield from nodes(x, path + (i + 1,))
        elif not isinstance(t, str) and t and t[0] == 'obj':
            for i, kv in enumerate(t[1:]):
                yield from nodes(kv[1], path + (i + 1, 1))

    def replace(t, path, f):
        if not path:
            return f(t)
        t = list(t)
        t[path[0]] = replace(t[path[0]], path[1:], f)
        return t

    def mutate(t):
        ns = list(nodes(t))
        path, sub = r.choice(ns)
        k = r.randrange(9)
        if k == 0: return replace(t, path, lambda x: r.choice(JUNK))
        objs = [(p_, x) for p_, x in ns if not isinstance(x, str) and x and x[0] == 'obj' and len(x) > 1]
        if not objs: return replace(t, path, lambda x: ['null'])
        p_, o = r.choice(objs)
        i = r.randrange(1, len(o))
        if k == 1: return replace(t, p_, lambda x: x[:i] + x[i + 1:])
        if k == 2: return replace(t, p_, lambda x: x[:i] + [[x[i][0], ['null']]] + x[i + 1:])
        if k == 3: return replace(t, p_, lambda x: x + [[x[i][0], r.choice(JUNK)]])
        if k == 4: return replace(t, p_, lambda x: [x[0]] + r.sample(x[1:], len(x) - 1))
        if k == 5: return replace(t, p_, lambda x: x + [[S(r.choice(KEYS)), r.choice(JUNK)]])
        if k == 6: return replace(t, p_, lambda x: x[:i] + [[S(r.choice(KEYS)), x[i][1]]] + x[i + 1:])
        if k == 7:
            strs = [(p2, x) for p2, x in ns if not isinstance(x, str) and x and x[0] == 'str']
            if strs:
                p2, _ = r.choice(strs)
                return replace(t, p2, lambda x: ['str', S(r.choice(['String', 'Long', 'Boolean', 'Set', 'Record', 'Entity', 'EntityOrCommon', 'Extension', 'Bool', '', 'User']))])
        return replace(t, path, lambda x: ['arr', x])
    dec_trees = list(trees)
    for t in trees:
        for _ in range(3 if quick else 8):
            dec_trees.append(mutate(t))
    dec = [case('d%d' % i, 'sjsondec', t) for i, t in enumerate(dec_trees)]
    go_d = lib.run_go(dec, 'sjsondec', ctx.workdir)
    mo_d = lib.run_model(dec, 'sjsondec', ctx.workdir)
    mism, unk, acc = 0, 0, 0
    for c in dec:
        cid = lib.case_id(c)
        g_, m_ = lib.canon_str(go_d.get(cid, '(missing)')), lib.canon_str(mo_d.get(cid, '(missing)'))
        if m_ == '(unmodelled)':
            unk += 1
            continue
        acc += g_.startswith('(ok')
        if g_ != m_:
            mism += 1
            if mism <= 6:
                ctx.violation('Schema.UnmarshalJSON: Go and the Coq model (Impl/SchemaJson.v dec_schema) disagree: go=%s model=%s' % (g_[:400], m_[:400]),
                              dict(kind='case', case=c, go=g_, model=m_))
    ctx.extra['sjsondec'] = dict(cases=len(dec), accepted=acc, unmodelled=unk)
    ctx.oblige('correspondence: Schema.UnmarshalJSON = SchemaJson.dec_schema on %d JSON trees (encoder outputs and structural mutants; %d outside the modelled domain)'
               % (len(dec), unk), 'correspondence', mism == 0)


def text_part(ctx):
    """the schema TEXT codec against its Coq model (Impl/SchemaText.v): Schema.MarshalCedar = print_schema (bytes) on AST-born schemas,
    Schema.UnmarshalCedar = parse_schema (accept / reject and the AST) on printed texts, generated texts, the repository's schema
    files, hand-written corner cases, token- and byte-level mutants, truncations at every position, deep nestings"""
    import glob
    import os
    import schemaast
    import schematextmut as stm
    import props.c10 as c10
    from gen import case
    r = ctx.rng
    quick = ctx.tier == 'quick'
    # ---- stprint
    asts = [schemaast.schema_ast(r) for _ in range(300 if quick else 6000)] + [schemaast.wild_ast(r) for _ in range(450 if quick else 15000)] + \
        [schemaast.wild_ast(r, tame=True) for _ in range(450 if quick else 15000)]
    pcases = [case('sp%d' % i, 'stprint', a) for i, a in enumerate(asts)]
    go_p = lib.run_go(pcases, 'stprint', ctx.workdir)
    mo_p = lib.run_model(pcases, 'stprint', ctx.workdir)
    mism = 0
    printed = []
    for c in pcases:
        cid = lib.case_id(c)
        g_, m_ = go_p.get(cid, '(missing)'), mo_p.get(cid, '(missing)')      # raw comparison: bytes
        ok = g_.startswith('(text ')
        ctx.count(c[:3000], ok)
        if ok:
            printed.append(sx.unS(sx.parse(g_)[1]))
        if g_ != m_ or not ok:
            mism += 1
            if mism <= 6:
                def show(x):
                    try:
                        return repr(sx.unS(sx.parse(x)[1]))[:700]
                    except Exception:
                        return x[:300]
                ctx.violation('Schema.MarshalCedar and the Coq model (Impl/SchemaText.v print_schema) disagree: go=%s model=%s' % (show(g_), show(m_)),
                              dict(kind='case', case=c, go=g_, model=m_))
    ctx.extra['stprint'] = dict(cases=len(pcases), printed=len(printed), mismatches=mism)
    lib.log('  stprint: %d cases, %d printed, %d mismatches' % (len(pcases), len(printed), mism))
    ctx.oblige('correspondence: Schema.MarshalCedar = SchemaText.print_schema (bytes) on %d AST-born schemas (well-formed and wild: names that need quoting, '
               'reserved words, invalid UTF-8, repeated keys, empty namespaces)' % len(pcases), 'correspondence', mism == 0)
    # ---- stparse
    texts = []          # (origin, bytes)
    for t in printed:
        texts.append(('printed', t))
    gen_texts = [schematext.schema_text(r).encode() for _ in range(600 if quick else 20000)]
    NSNAMES = ['NS', 'A::B', 'X__cedar', '__cedarx', 'in_', 'a1::_b']
    for _ in range(100 if quick else 3000):
        t = schemagen.Schema(r).text()
        if r.random() < 0.5:
            t = 'namespace %s {\n%s}\n' % (r.choice(NSNAMES), t)
        gen_texts.append(t.encode())
    for t in gen_texts:
        texts.append(('generated', t))
    corpus = [c10.SCHEMA_TEXT.encode()]
    for f in sorted(glob.glob(os.path.join(lib.REPO, '**', '*.cedarschema'), recursive=True)):
        corpus.append(open(f, 'rb').read())
    for t in corpus:
        texts.append(('corpus', t))
    for t in stm.HAND:
        texts.append(('hand', t))
    for t in stm.deep_texts():
        texts.append(('deep', t))
    # mutants of valid texts (the printer's outputs are valid unless the AST was wild; the generated ones mostly are)
    bases = corpus[:1] + r.sample(corpus[1:], min(len(corpus) - 1, 30 if quick else 110)) + r.sample(gen_texts, 60 if quick else 2000) + \
        r.sample(printed, min(len(printed), 60 if quick else 2000)) + [t for t in stm.HAND if len(t) > 60][:40]
    for b in bases:
        for t in stm.mutants(r, b, 8 if quick else 20):
            texts.append(('mutant', t))
    small = sorted([t for t in corpus + gen_texts[:50] if 120 <= len(t) <= 420], key=len)
    for b in ([small[0], small[len(small) // 2], c10.SCHEMA_TEXT.encode()] if small else [c10.SCHEMA_TEXT.encode()]) + ([] if quick else small[1:12]):
        for t in stm.truncations(b):
            texts.append(('truncation', t))
    b = b'@a("\\u{e9}\\n") namespace N::M { entity E, F in [G] = { "k\xc3\xa9"?: Set<__cedar::Long> /* c */ } tags X::Y; // d\n action "a b" in [N::Action::"p"] appliesTo { principal: E, resource: [F], context: {} }; }'
    for t in stm.truncations(b):
        texts.append(('truncation', t))
    texts.append(('hand', stm.RICH))
    for t in stm.systematic(stm.RICH):
        texts.append(('systematic', t))
    for t in stm.truncations(stm.RICH):
        texts.append(('truncation', t))
    tcases = ['(case st%d stparse %s)' % (i, S(t)) for i, (_, t) in enumerate(texts)]
    go_t = lib.run_go(tcases, 'stparse', ctx.workdir, timeout_ms=30000)
    mo_t = lib.run_model(tcases, 'stparse', ctx.workdir)
    dist = {}
    mism = 0
    for c, (origin, t) in zip(tcases, texts):
        cid = lib.case_id(c)
        g_, m_ = go_t.get(cid, '(missing)'), mo_t.get(cid, '(missing)')      # raw comparison: both sides print every map in key order
        d = dist.setdefault(origin, dict(cases=0, accepted=0, rejected=0, unmodelled=0, mismatches=0))
        d['cases'] += 1
        ctx.count(c[:3000], g_.startswith('(ok'))
        if m_ == '(unmodelled)':
            d['unmodelled'] += 1
            continue
        d['accepted' if g_.startswith('(ok') else 'rejected'] += 1
        if g_ != m_ or not (g_ == '(err)' or g_.startswith('(ok (xschema')):
            mism += 1
            d['mismatches'] += 1
            if mism <= 8:
                ctx.violation('Schema.UnmarshalCedar and the Coq model (Impl/SchemaText.v parse_schema) disagree on %r: go=%s model=%s' % (t[:400], g_[:400], m_[:400]),
                              dict(kind='case', case=c, go=g_, model=m_))
    tot = dict(cases=len(tcases), accepted=sum(d['accepted'] for d in dist.values()), rejected=sum(d['rejected'] for d in dist.values()),
               unmodelled=sum(d['unmodelled'] for d in dist.values()), mismatches=mism)
    ctx.extra['stparse'] = dict(total=tot, by_origin=dist)
    lib.log('  stparse: %d cases: %d accepted, %d rejected, %d unmodelled, %d mismatches' % (tot['cases'], tot['accepted'], tot['rejected'], tot['unmodelled'], mism))
    for o in sorted(dist):
        d = dist[o]
        lib.log('    %-10s %5d cases: %5d accepted %5d rejected %3d unmodelled %3d mismatches' % (o, d['cases'], d['accepted'], d['rejected'], d['unmodelled'], d['mismatches']))
    ctx.oblige('correspondence: Schema.UnmarshalCedar = SchemaText.parse_schema (accept / reject and the AST) on %d texts (%d accepted, %d rejected, %d outside the '
               'modelled domain): printed, generated, repository schema files, corner cases, mutants, truncations, deep nestings'
               % (tot['cases'], tot['accepted'], tot['rejected'], tot['unmodelled']), 'correspondence', mism == 0)


def run(ctx):
    b = lib.standard_build(ctx)
    if not lib.require_builds(ctx, b):
        return
    r = ctx.rng
    quick = ctx.tier == 'quick'
    cases = []
    texts = []
    for _ in range(1500 if quick else 60000):
        texts.append(schematext.schema_text(r))
    valid = set()
    NSNAMES = ['NS', 'A::B', 'X__cedar', 'App__cedar_compat::v1', '__cedarx', 'in_', 'Stringy', 'a1::_b']
    for _ in range(200 if quick else 5000):
        t = schemagen.Schema(r).text()
        if r.random() < 0.5:
            # valid by construction, also inside a namespace (entity references in the generated text are unqualified and stay inside it)
            t = 'namespace %s {\n%s}\n' % (r.choice(NSNAMES), t)
        valid.add(len(texts))
        texts.append(t)
    import props.c10 as c10
    texts.append(c10.SCHEMA_TEXT)
    for i, t in enumerate(texts):
        cases.append('(case c%d schemacodec text %s)' % (i, S(t)))
    cases.append('(case cj schemacodec json %s)' % S(c10.SCHEMA_JSON))
    # JSON-born schemas: here a primitive is {"type": "String"}, never a name, so an entity or common type may share its name
    import json as _json
    def jtype(d):
        k = r.random()
        if d <= 0 or k < 0.5:
            return r.choice([{"type": "String"}, {"type": "Long"}, {"type": "Boolean"}, {"type": "Extension", "name": r.choice(["ipaddr", "decimal", "datetime", "duration"])}])
        if k < 0.65:
            return {"type": "Entity", "name": r.choice(enames)}
        if k < 0.75:
            return {"type": "EntityOrCommon", "name": r.choice(enames + ["String", "Long", "ipaddr"])}
        if k < 0.88:
            return {"type": "Set", "element": jtype(d - 1)}
        return {"type": "Record", "attributes": {a: dict(jtype(d - 1), **({"required": False} if r.random() < 0.3 else {})) for a in r.sample(schematext.ATTR, r.randrange(0, 3))}}
    for i in range(400 if quick else 20000):
        enames = r.sample(['User', 'Group', 'String', 'Long', 'ipaddr', 'Bool', 'decimal', 'T'], r.randrange(1, 4))
        ents = {}
        for e in enames:
            d = {}
            if r.random() < 0.4:
                d["memberOfTypes"] = r.sample(enames, r.randrange(0, len(enames) + 1))
            if r.random() < 0.8:
                d["shape"] = {"type": "Record", "attributes": {a: dict(jtype(2), **({"required": False} if r.random() < 0.3 else {})) for a in r.sample(schematext.ATTR, r.randrange(0, 4))}}
            if r.random() < 0.3:
                d["tags"] = jtype(1)
            ents[e] = d
        acts = {a: {"appliesTo": {"principalTypes": r.sample(enames, 1), "resourceTypes": r.sample(enames, 1),
                                   "context": {"type": "Record", "attributes": {}}}} for a in r.sample(['view', 'x y', ''], r.randrange(1, 3))}
        doc = {r.choice(['', 'NS', 'X__cedar', 'App__cedar_compat::v1', 'A::B']): {"entityTypes": ents, "actions": acts}}
        cases.append('(case j%d schemacodec json %s)' % (i, S(_json.dumps(doc))))
    ctx.rule = ('random schema texts over 1-2 namespaces with 1-3 entity types (names incl. String / Long / ipaddr / Set / in), enums, 0-2 common '
                'types (possibly cyclic, undefined or shadowing builtins), nested records with optional attributes and attribute names that need '
                'quoting, sets, qualified / unqualified / undefined references, action groups with qualified and unqualified parents, annotations; '
                'plus well-formed schemas from the C15 generator. non-trivial = the schema parsed and resolved')
    go = lib.run_go(cases, 'schemacodec', ctx.workdir, timeout_ms=30000)
    bad = 0
    hist = {}
    for c in cases:
        res = go.get(lib.case_id(c), '(missing)')
        k = res.split(' ')[0] + (' ' + res.split(' ')[1].rstrip(')') if res.startswith('(ok') or res.startswith('(problem') else '')
        hist[k] = hist.get(k, 0) + 1
        ctx.count(c[:3000], res == '(ok resolved)')
        if res.startswith('(parse-error') and lib.case_id(c)[0] == 'c' and lib.case_id(c)[1:].isdigit() and int(lib.case_id(c)[1:]) in valid:
            bad += 1
            if bad <= 6:
                ctx.violation('a schema text that is valid by construction was rejected: ' + res[:300] + '\nSOURCE:\n' +
                              sx.unS(c.split(' ')[4].rstrip(')')).decode('utf-8', 'replace')[:600], dict(kind='case', case=c, go=res[:3000]))
            continue
        if res.startswith('(ok') or res.startswith('(parse-error'):
            continue
        name = res.split(' ')[1].rstrip(')') if res.startswith('(problem') else res
        text = sx.unS(c.split(' ')[4].rstrip(')')).decode('utf-8', 'replace')
        jsonborn = c.split(' ')[3] == 'json'
        if jsonborn and name in ('text-changes-resolved-schema', 'text-changes-resolvability', 'format-conversion-does-not-commute-with-resolution', 'json-text-does-not-parse') and \
                any(('"%s": {' % n) in text for n in BUILTIN_NAMES):
            ctx.known('F26', 'a declared entity type named like a builtin captures the bare builtin name in the printed schema text')
            continue
        if name in ('text-changes-resolved-schema', 'text-changes-resolvability', 'format-conversion-does-not-commute-with-resolution') and \
                any(('entity ' + n) in text or ('type ' + n + ' ') in text or (', ' + n) in text for n in BUILTIN_NAMES):
            ctx.known('F26', 'a declared entity or common type named like a builtin captures the bare builtin name in the printed schema text')
            continue
        bad += 1
        if bad <= 6:
            try:
                t = sx.parse(res)
                det = ' | '.join(sx.unS(x).decode('utf-8', 'replace')[:300] for x in t[2:4])
            except Exception:
                det = ''
            ctx.violation('schema codec: %s\nSOURCE:\n%s\nDETAIL: %s' % (name, text[:600], det), dict(kind='case', case=c, go=res[:3000]))
    ast_part(ctx)
    text_part(ctx)
    ctx.extra['result_histogram'] = hist
    ctx.oblige('direct oracle: schema text/JSON round trips preserve the resolved schema and are byte-stable (%d schemas)' % len(cases), 'oracle', bad == 0)
    for c in cases[:2]:
        ctx.sample(dict(schema=sx.unS(c.split(' ')[4].rstrip(')')).decode('utf-8', 'replace')[:400], go=(go.get(lib.case_id(c)) or '')[:100]))
    lib.epilogue(ctx)
