"""Inputs for the schema TEXT parser correspondence (kind stparse, C17): a hand-written list of grammar corner cases and quirks,
token- and byte-level mutants of valid texts, truncations, deep nestings.  Everything is bytes."""
import re

TOKEN_RE = re.compile(rb'"(?:\\.|[^"\\\n])*"|[A-Za-z_][A-Za-z0-9_]*|::|//[^\n]*|/\*.*?\*/|\s+|.', re.S)

RESERVED = [b'true', b'false', b'if', b'then', b'else', b'in', b'like', b'has', b'is', b'__cedar']
WORDS = RESERVED + [b'namespace', b'entity', b'action', b'type', b'enum', b'tags', b'appliesTo', b'attributes', b'principal', b'resource',
                    b'context', b'Set', b'String', b'Long', b'Bool', b'Boolean', b'Record', b'Entity', b'Extension', b'ipaddr', b'A', b'_']
PUNCT = [b'@', b'{', b'}', b'[', b']', b'<', b'>', b'(', b')', b',', b';', b':', b'::', b'?', b'=', b'"', b'\\', b'/', b'*', b'//', b'/*', b'*/',
         b'.', b'-', b'!', b'|', b'&', b'+', b'#', b'$', b'%', b'^', b'~', b'`', b"'", b'0', b'1']
BYTES = [b'\x00', b'\x01', b'\t', b'\n', b'\r', b'\r\n', b' ', b'\x0b', b'\x0c', b'\x7f', b'\x80', b'\xbf', b'\xc0', b'\xc3', b'\xc3\xa9', b'\xe2\x82\xac', b'\xe2\x82',
         b'\xed\xa0\x80', b'\xef\xbb\xbf', b'\xf0\x9f\x98\x80', b'\xf0\x9f', b'\xf4\x90\x80\x80', b'\xff', b'\xfe', b'\xc2\xa0', b'\xe2\x80\xa8']
STRINGS = [b'""', b'"a"', b'"x y"', b'"\\n"', b'"\\r\\t\\0\\\\\\""', b'"\\\'"', b'"\\x41"', b'"\\x7f"', b'"\\x80"', b'"\\xg1"', b'"\\x4"', b'"\\u{41}"', b'"\\u{1F600}"',
           b'"\\u{0}"', b'"\\u{}"', b'"\\u{110000}"', b'"\\u{D800}"', b'"\\u{dfff}"', b'"\\u{0000041}"', b'"\\u{00041}"', b'"\\u{4 1}"', b'"\\u41"', b'"\\u{41"', b'"\\U{41}"',
           b'"\\*"', b'"*"', b'"\\a"', b'"\\ "', b'"\\\n"', b'"a\nb"', b'"a\rb"', b'"a\tb"', b'"\xc3\xa9"', b'"\xff"', b'"\xc3"', b'"\x00"', b'"\\', b'"abc', b'"a\\"', b'"\\\\"',
           b'"\\\\\\"', b'"//"', b'"/*"', b'"*/"', b'"\xf0\x9f\x98\x80"', b'"\\u{fffd}"', b'"\xef\xbf\xbd"', b'"\\u{10FFFF}"', b'"\\u{10ffff}"', b'"\\x00"', b'"\\0"', b'"\\00"']

# ---- corner cases by hand: one per branch / quirk of lexer and parser --------------------------------------------------------------
HAND = [
    b'', b' ', b'\n', b'\t\r\n ', b';', b'{}', b'@', b'@a', b'@a("x")', b'@a entity A;', b'@a() entity A;', b'@a("x" entity A;', b'@a(x) entity A;',
    b'@a("x") @b entity A;', b'@a @a entity A;', b'@a("x") @a("y") entity A;', b'@in entity A;', b'@__cedar("x") entity A;', b'@if @then @else @true entity A;',
    b'@"a" entity A;', b'@ a entity A;', b'@a ("x") entity A;', b'@a( "x" ) entity A;', b'@a("") entity A;', b'@a("x",) entity A;', b'@1 entity A;',
    b'entity A;', b'entity A', b'entity;', b'entity A,;', b'entity A, B;', b'entity A B;', b'entity A, A;', b'entity A; entity A;', b'entity A; entity B, A;',
    b'entity in;', b'entity __cedar;', b'entity if;', b'entity "A";', b'entity A::B;', b'entity enum;', b'entity enum enum ["a"];', b'entity entity;', b'entity tags;',
    b'entity tags tags tags;', b'entity type, action, namespace, appliesTo, principal, Set;', b'entity Set; type T = Set;', b'entity String, Long, Bool;',
    b'entity A in B;', b'entity A in [B];', b'entity A in [B, C];', b'entity A in [B, C,];', b'entity A in [];', b'entity A in [,];', b'entity A in [B C];', b'entity A in [B,,C];',
    b'entity A in B, C;', b'entity A in [B;', b'entity A in B::C;', b'entity A in B::C::D;', b'entity A in B::;', b'entity A in ::B;', b'entity A in B:::C;', b'entity A in B: :C;',
    b'entity A in B :: C;', b'entity A in B::"c";', b'entity A in __cedar;', b'entity A in __cedar::B;', b'entity A in B::__cedar;', b'entity A in in;', b'entity A in if::B;',
    b'entity A in "B";', b'entity A in;', b'entity A in [[B]];', b'entity A in Set;', b'entity A in [__cedar::X, Y::Z];',
    b'entity A {};', b'entity A = {};', b'entity A = ;', b'entity A = = {};', b'entity A {} {};', b'entity A = Long;', b'entity A = T;', b'entity A Long;', b'entity A { a: Long };',
    b'entity A { a: Long, };', b'entity A { a: Long,, };', b'entity A { , };', b'entity A { a: Long b: Long };', b'entity A { a: Long, a: String };', b'entity A { a: Long a?: String };',
    b'entity A { "a": Long, a: String };', b'entity A { a?: Long };', b'entity A { a ?: Long };', b'entity A { a? : Long };', b'entity A { a??: Long };', b'entity A { a:? Long };',
    b'entity A { a: Long? };', b'entity A { a Long };', b'entity A { a:: Long };', b'entity A { a: };', b'entity A { : Long };', b'entity A { "": Long };', b'entity A { "x y"?: Long };',
    b'entity A { in: Long };', b'entity A { __cedar: Long };', b'entity A { if: Long };', b'entity A { "in": Long };', b'entity A { 1: Long };', b'entity A { a: Long; };',
    b'entity A { @doc("x") a: Long, @b c?: String };', b'entity A { @doc("x") @doc("y") a: Long };', b'entity A { @doc a: Long @doc b: Long };', b'entity A { @doc };',
    b'entity A { a: { b: { c: {} } } };', b'entity A { a: Set<Long> };', b'entity A { a: Set<Set<Long>> };', b'entity A { a: Set<Set<Set<Long>>> };', b'entity A { a: Set<> };',
    b'entity A { a: Set };', b'entity A { a: Set<Long };', b'entity A { a: Set Long> };', b'entity A { a: Set<Long, String> };', b'entity A { a: Set<{ b: Long }> };',
    b'entity A { a: Set::X };', b'entity A { a: X::Set<Long> };', b'entity A { a: __cedar::Set<Long> };', b'entity A { a: set<Long> };', b'entity A { a: Set < Long > };',
    b'entity A { a: __cedar::Long, b: __cedar::String, c: __cedar::ipaddr, d: __cedar };', b'entity A { a: __cedar::__cedar };', b'entity A { a: X::__cedar };',
    b'entity A { a: in };', b'entity A { a: "Long" };', b'entity A { a: Long::"x" };', b'entity A { a: [Long] };', b'entity A { a: (Long) };', b'entity A { a: Bool, b: Boolean };',
    b'entity A { a: Record, b: Entity, c: Extension };', b'entity A { a: Long',  b'entity A { a: Long }', b'entity A {', b'entity A { a', b'entity A { a:', b'entity A { @',
    b'entity A tags Long;', b'entity A tags Set<String>;', b'entity A tags { a: Long };', b'entity A tags;', b'entity A tags tags;', b'entity A {} tags Long;', b'entity A = {} tags Long;',
    b'entity A tags Long {};', b'entity A tags Long tags Long;', b'entity A in B {} tags T;', b'entity A {} in B;', b'entity A in B = { a: Long } tags Set<X::Y>;',
    b'entity A enum ["a"];', b'entity A enum ["a", "b"];', b'entity A enum ["a", "b",];', b'entity A enum [];', b'entity A enum [,];', b'entity A enum ["a" "b"];', b'entity A enum ["a",,"b"];',
    b'entity A enum ["a", "a"];', b'entity A enum [a];', b'entity A enum "a";', b'entity A enum;', b'entity A enum ["a"]', b'entity A enum ["a";', b'entity A, B enum ["x"];',
    b'entity A enum ["a"]; entity A;', b'entity A; entity A enum ["a"];', b'entity A enum ["a"]; entity A enum ["b"];', b'entity A, A enum ["x"];', b'entity A in B enum ["a"];',
    b'entity A enum ["a"] tags Long;', b'entity A enum ["\\u{1F600}", "\\x41\\n", "\xc3\xa9"];', b'entity A enum ["\\q"];', b'entity A enum ["\xff"];', b'@a("v") entity A enum ["a"];',
    b'action a;', b'action a', b'action;', b'action a, b;', b'action a, a;', b'action a; action a;', b'action "a"; action a;', b'action "a", "b c", "";', b'action a,;', b'action a b;',
    b'action in;', b'action __cedar;', b'action "in";', b'action if;', b'action A::b;', b'action A::"b";', b'action 1;', b'action action;', b'action appliesTo;', b'action attributes;',
    b'action a in b;', b'action a in "b";', b'action a in [b];', b'action a in [b, "c"];', b'action a in [b, "c",];', b'action a in [];', b'action a in [,];', b'action a in [b c];',
    b'action a in A::"b";', b'action a in A::B::"b";', b'action a in A::b;', b'action a in A::B::c;', b'action a in [A::"b", C::d, e, "f"];', b'action a in A::;', b'action a in A::"b"::c;',
    b'action a in A::"b"::"c";', b'action a in __cedar;', b'action a in __cedar::"b";', b'action a in __cedar::Action::"b";', b'action a in A::__cedar::"b";', b'action a in in;',
    b'action a in "b"::c;', b'action a in ::"b";', b'action a in Action::"";', b'action a in;', b'action a in b in c;', b'action a in [b;',
    b'action a appliesTo { principal: A, resource: B };', b'action a appliesTo { principal: [A], resource: [B] };', b'action a appliesTo { principal: [A, B], resource: [C, D], context: {} };',
    b'action a appliesTo { resource: B, principal: A };', b'action a appliesTo { context: {}, resource: B, principal: A };', b'action a appliesTo { principal: A resource: B context: T };',
    b'action a appliesTo { principal: A, resource: B, };', b'action a appliesTo { principal: A,, resource: B };', b'action a appliesTo { , principal: A, resource: B };',
    b'action a appliesTo { principal: A };', b'action a appliesTo { resource: A };', b'action a appliesTo { context: {} };', b'action a appliesTo {};', b'action a appliesTo { };',
    b'action a appliesTo;', b'action a appliesTo { principal: A, resource: B', b'action a appliesTo { principal: A, principal: B, resource: C };',
    b'action a appliesTo { principal: A, resource: B, resource: C };', b'action a appliesTo { principal: A, resource: B, context: {}, context: {} };',
    b'action a appliesTo { principal: [], resource: B };', b'action a appliesTo { principal: A, resource: [] };', b'action a appliesTo { principal: [A,], resource: [B,] };',
    b'action a appliesTo { principal: [,], resource: B };', b'action a appliesTo { principal A, resource: B };', b'action a appliesTo { principal: , resource: B };',
    b'action a appliesTo { principal: A::B, resource: __cedar::C };', b'action a appliesTo { principal: A, resource: B, context: T };', b'action a appliesTo { principal: A, resource: B, context: N::T };',
    b'action a appliesTo { principal: A, resource: B, context: Set<Long> };', b'action a appliesTo { principal: A, resource: B, context: Long };',
    b'action a appliesTo { principal: A, resource: B, context: { x: Long, y?: { z: Set<A> } } };', b'action a appliesTo { principal: A, resource: B, context: };',
    b'action a appliesTo { principal: A, resource: B, other: C };', b'action a appliesTo { "principal": A, resource: B };', b'action a appliesTo { in: A };', b'action a appliesTo { @x principal: A, resource: B };',
    b'action a appliesTo { principal: A, resource: B } appliesTo { principal: A, resource: B };', b'action a appliesTo { principal: A; resource: B };',
    b'action a appliesTo { principal: "A", resource: B };', b'action a appliesTo { Principal: A, resource: B };',
    b'action a attributes {};', b'action a attributes { };', b'action a attributes;', b'action a attributes { a: Long };', b'action a attributes {} attributes {};',
    b'action a appliesTo { principal: A, resource: B } attributes {};', b'action a attributes {} appliesTo { principal: A, resource: B };', b'action a in b appliesTo { principal: A, resource: B } attributes {};',
    b'action a in b attributes {};', b'action a appliesTo { principal: A, resource: B } in b;', b'@a("x") action "x y", z in ["p q"] appliesTo { principal: P, resource: R, context: { "k k"?: Long } };',
    b'type T = Long;', b'type T = Long', b'type T Long;', b'type T = ;', b'type = Long;', b'type T == Long;', b'type T = Long; type T = String;', b'type T = Long; type U = T;',
    b'type T, U = Long;', b'type "T" = Long;', b'type T::U = Long;', b'type in = Long;', b'type __cedar = Long;', b'type Bool = Long;', b'type Boolean = Long;', b'type Entity = Long;',
    b'type Extension = Long;', b'type Long = Long;', b'type Record = Long;', b'type Set = Long;', b'type String = Long;', b'type string = Long;', b'type ipaddr = Long;', b'type decimal = String;',
    b'type T = Set<Long>;', b'type T = {};', b'type T = { a: T };', b'type T = T;', b'type T = A::B::C;', b'type T = __cedar::Long;', b'type type = type;', b'type entity = { entity: entity };',
    b'entity T; type T = Long;', b'type T = Long; entity T;', b'@a type T = Long;', b'type T = Long tags Long;', b'type T = { a: Long } ;;',
    b'namespace A {}', b'namespace A { }', b'namespace A {};', b'namespace A', b'namespace A {', b'namespace {}', b'namespace "A" {}', b'namespace A::B {}', b'namespace A::B::C { entity D; }',
    b'namespace A:: {}', b'namespace ::A {}', b'namespace A::"B" {}', b'namespace __cedar {}', b'namespace __cedar::A {}', b'namespace A::__cedar {}', b'namespace A::__cedar::B {}',
    b'namespace X__cedar {}', b'namespace __cedarx {}', b'namespace A__cedar::B {}', b'namespace in {}', b'namespace A::in {}', b'namespace namespace {}', b'namespace entity { entity entity; }',
    b'namespace A {} namespace A {}', b'namespace A {} namespace B {}', b'namespace A { entity X; } namespace A { entity Y; }', b'namespace A {} namespace A::B {}', b'namespace B {} namespace A {}',
    b'namespace A { namespace B {} }', b'namespace A { entity X; } entity X;', b'entity X; namespace A { entity X; }', b'namespace A { entity X; entity X; }',
    b'namespace A { entity X; type X = Long; action X; }', b'namespace A { @a("b") entity X; @c action y; @d type Z = Long; }', b'namespace A { @a }', b'namespace A { ; }', b'namespace A { entity X }',
    b'@a namespace A {}', b'@a("x") @b("y") namespace A { entity X; }', b'@a @a namespace A {}', b'@a("x")', b'@a namespace', b'namespace A {} }', b'namespace A {{}}', b'namespace A { } entity B; namespace C { }',
    b'namespace A, B {}', b'namespace A {} = ', b'Namespace A {}', b'namespace A { entity B; } // end', b'namespace A { entity B; } /* end */', b'namespace A /* c */ { /* d */ }',
    b'// only a comment', b'// only a comment\n', b'/* only a comment */', b'/* unterminated', b'/*', b'/*/', b'/**/', b'/***/', b'/* * / */', b'/* /* nested */ */', b'/* a */ entity /* b */ A /* c */ ; /* d */',
    b'entity A; // c', b'entity A; //', b'entity A; /', b'entity A; / /', b'entity A; /* c', b'entity A; /* c *', b'entity A; /* c */', b'entity A; */', b'entity // c\n A;', b'entity /* ; */ A;',
    b'entity A; //\xff\xfe\n entity B;', b'entity A; /*\xff\x00*/ entity B;', b'entity A; // \xe2\x82\n', b'entity A; /* \xe2\x82*/', b'entity A; /* \xe2\x82\xac*/', b'entity A; /* \xc3*/', b'entity A; /*\xc3', b'entity A; //\xc3',
    b'//\r\nentity A;\r\n', b'entity\rA;', b'entity A;\r', b'entity\x0bA;', b'entity\x0cA;', b'entity\xc2\xa0A;', b'entity\xe2\x80\xa8A;', b'\xef\xbb\xbfentity A;', b'entity A;\x00', b'\x00', b'entity\x00A;',
    b'entity A\xc3\xa9;', b'entity \xc3\xa9;', b'entity A\xff;', b'\xff', b'\xc3', b'entity A; \xe2\x82', b'entity A1_b2;', b'entity _;', b'entity __;', b'entity 1A;', b'entity A-B;', b'entity A.B;',
    b'entity A : B;', b'entity A :: B;', b'entity A::;', b'entity ::A;', b':', b'::', b':::', b'::::', b': :', b'entity A { a: Long, b:: Long };', b'entity A { a:Long,b:Long };', b'entity A{a:Long}tags Long;',
    b'entityA;', b'entity A;entity B;', b'typeT=Long;', b'type T=Set<Set<Long>>;', b'actiona;', b'action"a";', b'action a in"b";', b'entity A in[B];', b'entity A enum["a"];', b'@a("x")entity A;',
    b'# entity A;', b'entity A; #', b'entity A!;', b'entity A; $', b'entity A; `', b"entity A { 'a': Long };", b'entity A { a: Long | String };', b'entity A { a: -1 };', b'entity A { a: 1 };',
    b'entity A { a: Long }; entity B in A { b: A }; action v appliesTo { principal: B, resource: A, context: { c: Set<A> } };',
]

for _s in STRINGS:
    HAND.append(b'entity A enum [' + _s + b'];')
    HAND.append(b'@a(' + _s + b') entity A;')
    HAND.append(b'action ' + _s + b';')
    HAND.append(b'entity A { ' + _s + b': Long };')
    HAND.append(b'action a in A::' + _s + b';')
    HAND.append(b'action a in [' + _s + b'];')
for _w in RESERVED + [b'Set', b'namespace', b'entity', b'type', b'enum', b'tags', b'String']:
    for _tpl in (b'entity %s;', b'entity A in %s;', b'entity A in X::%s;', b'entity A in %s::X;', b'entity A { %s: Long };', b'entity A { a: %s };', b'entity A { a: %s::T };', b'entity A { a: T::%s };',
                 b'entity A { a?: Set<%s> };', b'entity A tags %s;', b'action %s;', b'action a in %s;', b'action a in [%s];', b'action a in %s::"x";', b'action a in X::%s::"x";', b'action a in X::%s;',
                 b'type %s = Long;', b'type T = %s;', b'namespace %s {}', b'namespace A::%s {}', b'namespace %s::A {}', b'@%s entity A;', b'@%s("v") entity A;', b'%s A;', b'%s',
                 b'action a appliesTo { principal: %s, resource: X };', b'action a appliesTo { principal: [X, %s], resource: X };', b'action a appliesTo { principal: X, resource: X, context: %s };',
                 b'action a appliesTo { %s: X, resource: X };', b'entity A %s;', b'entity A enum [%s];', b'entity A, %s;', b'action a, %s;'):
        HAND.append(_tpl % _w)


def deep_texts():
    out = []
    for n in (1, 2, 10, 60, 200):
        out.append(b'type T = ' + b'Set<' * n + b'Long' + b'>' * n + b';')
        out.append(b'type T = ' + b'Set<' * n + b'Long' + b'>' * (n - 1) + b';')
        out.append(b'type T = ' + b'Set<' * n + b'Long' + b'>' * (n + 1) + b';')
        out.append(b'entity A ' + b'{ a: ' * n + b'Long' + b' }' * n + b';')
        out.append(b'entity A ' + b'{ a: ' * n + b'Long' + b' }' * (n - 1) + b';')
        out.append(b'entity A ' + b'{a:' * n + b'{}' + b'}' * n + b'tags ' + b'Set<{b?:' * n + b'X::Y' + b'}>' * n + b';')
        out.append(b'action a appliesTo { principal: A, resource: B, context: ' + b'{ "k": Set<' * n + b'{}' + b'> }' * n + b' };')
        out.append(b'entity ' + b', '.join(b'E%d' % i for i in range(n)) + b';')
        out.append(b'action ' + b', '.join(b'"a %d"' % i for i in range(n)) + b' in [' + b', '.join(b'N::M::"p%d"' % i for i in range(n)) + b'];')
        out.append(b'entity A in [' + b', '.join(b'N%d::E' % i for i in range(n)) + b'] { ' + b', '.join(b'f%d?: Long' % i for i in range(n)) + b' };')
        out.append(b'entity A enum [' + b', '.join(b'"v%d"' % i for i in range(n)) + b'];')
        out.append(b''.join(b'@k%d("v") ' % i for i in range(n)) + b'entity A;')
        out.append(b''.join(b'entity E%d; type T%d = E%d; action a%d; ' % (i, i, i, i) for i in range(n)))
        out.append(b''.join(b'namespace N%d { entity E; } ' % i for i in range(n)))
        out.append(b'namespace ' + b'::'.join(b'N%d' % i for i in range(n)) + b' { entity A in ' + b'::'.join(b'M%d' % i for i in range(n)) + b'; }')
        out.append(b'/*' + b'*' * n + b'/ entity A; //' + b'/' * n)
        out.append(b' ' * n + b'entity' + b'\n' * n + b'A' + b'\t' * n + b';' + b'\r' * n)
        out.append(b'entity A enum ["' + b'\\u{1F600}' * n + b'"];')
        out.append(b'entity A enum ["' + b'a' * n)
    return out


def tokens(text):
    return TOKEN_RE.findall(text)


def mutate(r, text):
    """one random mutation of a schema text (bytes)"""
    k = r.randrange(16)
    toks = tokens(text)
    sig = [i for i, t in enumerate(toks) if not t.isspace()]
    if k <= 8 and sig:
        i = r.choice(sig)
        if k == 0:      # delete a token
            toks = toks[:i] + toks[i + 1:]
        elif k == 1:    # duplicate a token
            toks = toks[:i] + [toks[i], b' ' if r.random() < 0.5 else b'', toks[i]] + toks[i + 1:]
        elif k == 2:    # swap two tokens
            j = r.choice(sig)
            toks[i], toks[j] = toks[j], toks[i]
        elif k == 3:    # replace by a word
            toks[i] = r.choice(WORDS)
        elif k == 4:    # insert a word
            toks = toks[:i] + [r.choice(WORDS), b' '] + toks[i:]
        elif k == 5:    # replace by punctuation
            toks[i] = r.choice(PUNCT)
        elif k == 6:    # insert punctuation
            toks = toks[:i] + [r.choice(PUNCT)] + toks[i:]
        elif k == 7:    # insert / replace by a string literal
            if r.random() < 0.5:
                toks[i] = r.choice(STRINGS)
            else:
                toks = toks[:i] + [r.choice(STRINGS), b' '] + toks[i:]
        else:           # insert a comment
            toks = toks[:i] + [r.choice([b'// c\n', b'/* c */', b'//', b'/*', b'/**/', b'// \xff\n', b'/* \n */', b'/*/ */'])] + toks[i:]
        return b''.join(toks)
    n = len(text)
    i = r.randrange(n + 1)
    if k == 9 and n:    # delete a byte
        return text[:i] + text[i + 1:]
    if k == 10 and n:   # duplicate a byte
        return text[:i] + text[i:i + 1] + text[i:]
    if k == 11 and n > 1:   # swap adjacent bytes
        i = r.randrange(n - 1)
        return text[:i] + text[i + 1:i + 2] + text[i:i + 1] + text[i + 2:]
    if k == 12:         # insert odd bytes
        return text[:i] + r.choice(BYTES) + text[i:]
    if k == 13 and n:   # replace a byte
        return text[:i] + r.choice(BYTES + PUNCT) + text[i + 1:]
    if k == 14:         # truncate
        return text[:i]
    # CRLF everywhere / blanks to other blanks / drop all blanks between punctuation
    kk = r.randrange(3)
    if kk == 0:
        return text.replace(b'\n', b'\r\n')
    if kk == 1:
        return re.sub(rb'[ \n\t]', lambda m: r.choice([b' ', b'\n', b'\t', b'\r', b'\r\n', b'  ', b'/**/', b' // x\n']), text)
    return re.sub(rb'\s*([{}\[\]<>(),;:?=@])\s*', rb'\1', text)


def mutants(r, text, n):
    out = []
    for _ in range(n):
        t = text
        for _ in range(r.choice([1, 1, 1, 2, 3])):
            t = mutate(r, t)
        out.append(t)
    return out


def truncations(text):
    return [text[:i] for i in range(len(text) + 1)]


# one text with every construct of the grammar; systematic single-token edits of it reach every `readToken` / `expect` failure branch
RICH = (b'@a("x") @b namespace N::M { @c type T = Set<{ @d "k k"?: __cedar::Long, l: X::Y }>; entity E, F in [G, H::I] = { a: Long } tags String; '
        b'entity G in H; entity C enum ["r", "g"]; action a, "b c" in [d, N::Action::"e", "f"] appliesTo { principal: [E, F], resource: G, context: { z?: T } } attributes {}; '
        b'action d in e; action w in Q::"e"; action x in "y"; } entity Top tags Top; type U = Top; action v appliesTo { principal: Top, resource: Top };')


def systematic(text):
    """at every token: a lexical error in front of it, the token deleted, the token doubled, an unterminated string in its place"""
    toks = tokens(text)
    out = []
    for i, t in enumerate(toks):
        if t.isspace():
            continue
        out.append(b''.join(toks[:i] + [b'#'] + toks[i:]))
        out.append(b''.join(toks[:i] + toks[i + 1:]))
        out.append(b''.join(toks[:i] + [t, b' ', t] + toks[i + 1:]))
        out.append(b''.join(toks[:i] + [b'"\\q"'] + toks[i + 1:]))
    out.append(text + b' #')
    return out
