"""Value.hash() of cedar-go on value S-expressions (the same function as coq/theories/Impl/Hash.v), and the narrow signature of the
known finding F16: a set VALUE some member of which is pushed past slot 2^64-1 by linear probing (its listing order then depends on the
insertion order, so it changes with every decode / re-encode)."""
import sx

M = 1 << 64
FNV_OFFSET = 14695981039346656037
FNV_PRIME = 1099511628211


def fnv(h, bs):
    for b in bs:
        h = ((h * FNV_PRIME) % M) ^ b
    return h


def vhash(v):
    h = v[0]
    if h == 'b': return 1 if v[1] == '1' else 0
    if h in ('l', 'dec', 'dt', 'dur'): return int(v[1]) % M
    if h == 's': return fnv(FNV_OFFSET, sx.unS(v[1]))
    if h == 'e': return fnv(fnv(FNV_OFFSET, sx.unS(v[1])), sx.unS(v[2]))
    if h == 'set':
        # a set holds each value once (members compared after canonicalisation)
        distinct = {sx.dump(sx.canon_value(x)): x for x in v[1:]}
        return sum(vhash(x) for x in distinct.values()) % M
    if h == 'rec':
        if len(v) == 1: return 0
        hh = FNV_OFFSET
        for kv in sorted(v[1:], key=lambda kv: sx.unS(kv[0])):
            hh = fnv(fnv(hh, sx.unS(kv[0])), vhash(kv[1]).to_bytes(8, 'little'))
        return hh
    if h == 'ip':
        n = 16 if v[1] == '6' else 4
        return fnv(FNV_OFFSET, int(v[2]).to_bytes(n, 'big') + bytes([int(v[3])]))
    raise ValueError('vhash: ' + str(h))


def set_wraps(v):
    """linear probing from the hash: does any member end up beyond slot 2^64-1 (wrapping to slot 0)?"""
    used = {}
    for x in v[1:]:
        try:
            h = vhash(x)
        except Exception:
            return False
        key = sx.dump(sx.canon_value(x))
        if key in used.values():
            continue
        s = h
        wrapped = False
        while s in used:
            s += 1
            if s == M:
                s, wrapped = 0, True
        used[s] = key
        if wrapped:
            return True
    return False


def any_wrapping_set(t):
    """t: S-expression text (possibly a fragment with unbalanced ends): is there a set value in it whose probing wraps?"""
    if not isinstance(t, str):
        t = sx.dump(t)
    i = t.find('(set')
    while i >= 0:
        depth = 0
        for k in range(i, len(t)):
            if t[k] == '(':
                depth += 1
            elif t[k] == ')':
                depth -= 1
                if depth == 0:
                    try:
                        if set_wraps(sx.parse(t[i:k + 1])):
                            return True
                    except Exception:
                        pass
                    break
        i = t.find('(set', i + 1)
    return False
