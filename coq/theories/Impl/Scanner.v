(* internal/parser/cedar_tokenize.go: the scanner's buffered rune reader — next(), the refill loop, line/column
   bookkeeping and the token-text bookkeeping (tokBuf / tokPos / tokEnd) — over a scripted io.Reader.
   bufLen (1024 in the code) is a parameter >= 4 so that small buffers can be executed against the model. *)
From Coq Require Import ZArith List Bool Lia.
Import ListNotations.
From Cedar Require Import Base.Utf8.
Local Open Scope Z_scope.

(* ---- the reader: remaining bytes + a schedule of read sizes ---- *)
Inductive rerr := REOF | RFail.
(* what a failing step does: keep failing without data (FSticky); fail once without data, then go on (FOnce); deliver its bytes
   TOGETHER with the error and then go on - e.g. to a clean EOF (FOnceData).  io.Reader allows all three. *)
Inductive fmode := FSticky | FOnce | FOnceData.
Record reader := {
  r_rest : list Z;                 (* bytes not yet delivered *)
  r_sched : list (nat * bool);     (* (requested chunk size (0 = zero-length read), fail now?) ; once exhausted: read as much as fits *)
  r_eof_with_data : bool;          (* does the last chunk arrive together with io.EOF? *)
  r_fail_mode : fmode;
}.

(* one call of src.Read(p) with len(p) = cap: (bytes, error, reader afterwards) *)
Definition read (r : reader) (cap : nat) : list Z * option rerr * reader :=
  let '(n, fail, sched') := match r_sched r with
                            | [] => (cap, false, [])
                            | (n, f) :: s => (n, f, s)
                            end in
  let r' (rest : list Z) := {| r_rest := rest; r_sched := sched'; r_eof_with_data := r_eof_with_data r; r_fail_mode := r_fail_mode r |} in
  if fail then
    match r_fail_mode r with
    | FSticky => ([], Some RFail, r)                 (* the failure persists *)
    | FOnce => ([], Some RFail, r' (r_rest r))
    | FOnceData => let k := Nat.min (Nat.min n cap) (length (r_rest r)) in
                   (firstn k (r_rest r), Some RFail, r' (skipn k (r_rest r)))
    end
  else
    match r_rest r with
    | [] => ([], Some REOF, r' [])
    | rest =>
        let k := Nat.min (Nat.min n cap) (length rest) in
        if Nat.eqb k (length rest) && r_eof_with_data r && negb (Nat.eqb k 0)
        then (rest, Some REOF, r' [])
        else (firstn k rest, None, r' (skipn k rest))
    end.

(* ---- scanner state ---- *)
Record scanner := {
  s_buf : list Z;        (* srcBuf[0 .. srcEnd) ; srcBuf[srcEnd] is the sentinel 0x80 *)
  s_pos : nat;           (* srcPos *)
  s_off : Z;             (* srcBufOffset *)
  s_line : Z; s_col : Z; s_lastLineLen : Z; s_lastCharLen : nat;
  s_tokBuf : list Z;     (* token head that is no longer in the buffer *)
  s_tokPos : option nat; (* tokPos >= 0 ? *)
  s_tokEnd : nat;
  s_err : bool;          (* s.err != nil (the first error is kept by the callers; next() overwrites, only non-nil-ness matters here) *)
  s_rd : reader;
}.

Definition init (r : reader) : scanner :=
  {| s_buf := []; s_pos := 0; s_off := 0; s_line := 1; s_col := 0; s_lastLineLen := 0; s_lastCharLen := 0;
     s_tokBuf := []; s_tokPos := None; s_tokEnd := 0; s_err := false; s_rd := r |}.

Definition byte_at (s : scanner) : Z := nth (s_pos s) (s_buf s) 128.      (* the sentinel past the end *)
Definition window (s : scanner) : list Z := skipn (s_pos s) (s_buf s).     (* srcBuf[srcPos:srcEnd] *)

Definition rune_eof : Z := -1.

Definition set_err (s : scanner) : scanner :=
  {| s_buf := s_buf s; s_pos := s_pos s; s_off := s_off s; s_line := s_line s; s_col := s_col s; s_lastLineLen := s_lastLineLen s;
     s_lastCharLen := s_lastCharLen s; s_tokBuf := s_tokBuf s; s_tokPos := s_tokPos s;
     s_tokEnd := s_pos s - s_lastCharLen s; s_err := true; s_rd := s_rd s |}.

(* one iteration of the refill loop: returns the new state and what the loop does next *)
Inductive refill_out := Continue | Break | ReturnEOF.

Definition refill_step (bufLen : nat) (s : scanner) : scanner * refill_out :=
  let w := window s in
  let tokBuf' := match s_tokPos s with
                 | Some tp => s_tokBuf s ++ firstn (s_pos s - tp) (skipn tp (s_buf s))
                 | None => s_tokBuf s end in
  let tokPos' := match s_tokPos s with Some _ => Some 0%nat | None => None end in
  let i := length w in
  let '(data, err, rd') := read (s_rd s) (bufLen - i) in
  let s1 := {| s_buf := w ++ data; s_pos := 0; s_off := s_off s + Z.of_nat (s_pos s); s_line := s_line s; s_col := s_col s;
               s_lastLineLen := s_lastLineLen s; s_lastCharLen := s_lastCharLen s; s_tokBuf := tokBuf'; s_tokPos := tokPos';
               s_tokEnd := s_tokEnd s; s_err := s_err s; s_rd := rd' |} in
  match err with
  | None => (s1, Continue)
  | Some e =>
      let s2 := match e with RFail => set_err s1 | REOF => s1 end in
      match s_buf s2 with
      | [] =>
          (* srcEnd == 0: end of input *)
          ({| s_buf := []; s_pos := 0; s_off := s_off s2; s_line := s_line s2;
              s_col := if Nat.ltb 0 (s_lastCharLen s2) then s_col s2 + 1 else s_col s2;
              s_lastLineLen := s_lastLineLen s2; s_lastCharLen := 0; s_tokBuf := s_tokBuf s2; s_tokPos := s_tokPos s2;
              s_tokEnd := s_tokEnd s2; s_err := s_err s2; s_rd := s_rd s2 |}, ReturnEOF)
      | _ => (s2, Break)
      end
  end.

Definition need_refill (s : scanner) : bool :=
  Nat.ltb (length (s_buf s)) (s_pos s + 4) && negb (full_rune (window s)).

Fixpoint refill (fuel : nat) (bufLen : nat) (s : scanner) : option (scanner * bool) :=   (* bool: returned EOF *)
  match fuel with
  | O => None
  | S f =>
      if need_refill s then
        match refill_step bufLen s with
        | (s', Continue) => refill f bufLen s'
        | (s', Break) => Some (s', false)
        | (s', ReturnEOF) => Some (s', true)
        end
      else Some (s, false)
  end.

Definition advance (s : scanner) (ch : Z) (width : nat) : scanner :=
  let col := s_col s + 1 in
  let nl := ch =? 10 in
  {| s_buf := s_buf s; s_pos := s_pos s + width; s_off := s_off s;
     s_line := if nl then s_line s + 1 else s_line s;
     s_col := if nl then 0 else col;
     s_lastLineLen := if nl then col else s_lastLineLen s;
     s_lastCharLen := width; s_tokBuf := s_tokBuf s; s_tokPos := s_tokPos s; s_tokEnd := s_tokEnd s; s_err := s_err s; s_rd := s_rd s |}.

(* next(): None = the reader never delivers (out of fuel) *)
Definition next (fuel bufLen : nat) (s : scanner) : option (scanner * Z) :=
  let b := byte_at s in
  if b <? 128 then
    let s' := advance s b 1 in
    Some (if b =? 0 then set_err s' else s', b)
  else
    match refill fuel bufLen s with
    | None => None
    | Some (s1, true) => Some (s1, rune_eof)
    | Some (s1, false) =>
        let b1 := byte_at s1 in
        if b1 <? 128 then
          let s' := advance s1 b1 1 in
          Some (if b1 =? 0 then set_err s' else s', b1)
        else
          let '(ch, width) := decode_rune (window s1) in
          if (ch =? rune_error) && Nat.eqb width 1 then
            let s' := {| s_buf := s_buf s1; s_pos := s_pos s1 + 1; s_off := s_off s1; s_line := s_line s1; s_col := s_col s1 + 1;
                         s_lastLineLen := s_lastLineLen s1; s_lastCharLen := 1; s_tokBuf := s_tokBuf s1; s_tokPos := s_tokPos s1;
                         s_tokEnd := s_tokEnd s1; s_err := s_err s1; s_rd := s_rd s1 |} in
            Some (set_err s', ch)
          else Some (advance s1 ch width, ch)
    end.

(* ---- token bookkeeping used by nextToken ---- *)
(* s.tokBuf.Reset(); s.tokPos = s.srcPos - s.lastCharLen *)
Definition token_start (s : scanner) : scanner :=
  {| s_buf := s_buf s; s_pos := s_pos s; s_off := s_off s; s_line := s_line s; s_col := s_col s; s_lastLineLen := s_lastLineLen s;
     s_lastCharLen := s_lastCharLen s; s_tokBuf := []; s_tokPos := Some (s_pos s - s_lastCharLen s)%nat; s_tokEnd := s_tokEnd s;
     s_err := s_err s; s_rd := s_rd s |}.

(* position of the token: byte offset, line, column *)
Definition token_position (s : scanner) : Z * Z * Z :=
  let off := s_off s + Z.of_nat (s_pos s - s_lastCharLen s) in
  if 0 <? s_col s then (off, s_line s, s_col s) else (off, s_line s - 1, s_lastLineLen s).

(* s.tokEnd = s.srcPos - s.lastCharLen; tokenText() *)
Definition token_text (s : scanner) : list Z :=
  match s_tokPos s with
  | None => []
  | Some tp => s_tokBuf s ++ firstn ((s_pos s - s_lastCharLen s) - tp) (skipn tp (s_buf s))
  end.

(* ---- specification: decode the whole byte stream sequentially ---- *)
(* the runes of a byte string, each with its byte offset, line and column (1-based, in characters) *)
Fixpoint decode_all (fuel : nat) (bytes : list Z) (off line col : Z) : list (Z * Z * Z * Z) :=
  match fuel, bytes with
  | O, _ => []
  | _, [] => []
  | S f, b :: _ =>
      let '(ch, w) := if b <? 128 then (b, 1%nat) else decode_rune bytes in
      let w := Nat.max w 1 in
      (ch, off, line, col + 1) ::
        (if ch =? 10 then decode_all f (skipn w bytes) (off + Z.of_nat w) (line + 1) 0
         else decode_all f (skipn w bytes) (off + Z.of_nat w) line (col + 1))
  end.
