(* types/duration.go: ParseDuration (sign-carrying accumulation), Duration.String *)
From Coq Require Import ZArith List Bool Lia.
Import ListNotations.
From Cedar Require Import Base.Int64 Lang.Value Impl.Text Generated.Tables.
Local Open Scope Z_scope.

(* unitOrder = d h m s ms, as indices 0..4 *)
Definition unit_millis (u : Z) : Z :=
  if u =? 0 then MillisPerDay else if u =? 1 then MillisPerHour else if u =? 2 then MillisPerMinute
  else if u =? 3 then MillisPerSecond else 1.

(* state: unitI total value hasValue ; neg is fixed *)
(* [skip]: the next byte is the 's' of an already recognised "ms" *)
Fixpoint dur_loop (neg : bool) (s : str) (skip : bool) (unitI total value : Z) (hasValue : bool) : option Z :=
  match s with
  | [] => if hasValue then None else Some total
  | c :: s' =>
    if skip then dur_loop neg s' false unitI total value hasValue else
    if unitI >=? 5 then (if hasValue then None else None)      (* characters left, no more units *)
    else if is_digit c then
      let digit := digit_val c in
      if neg then
        if value <? Z.quot (min64 + digit) 10 then None
        else dur_loop neg s' false unitI total (value * 10 - digit) true
      else
        if value >? Z.quot (max64 - digit) 10 then None
        else dur_loop neg s' false unitI total (value * 10 + digit) true
    else if (c =? 100) || (c =? 104) || (c =? 109) || (c =? 115) then
      if negb hasValue then None else
      let is_ms := (c =? 109) && match s' with 115 :: _ => true | _ => false end in
      let u := if is_ms then 4 else if c =? 100 then 0 else if c =? 104 then 1 else if c =? 109 then 2 else 3 in
      if u <? unitI then None else
      let millis := unit_millis u in
      if (value >? Z.quot max64 millis) || (value <? Z.quot min64 millis) then None else
      let product := value * millis in
      if (negb neg && (total >? max64 - product)) || (neg && (total <? min64 - product)) then None
      else dur_loop neg s' is_ms (u + 1) (total + product) 0 false
    else None
  end.

Definition parse_duration (s : str) : option Z :=
  match s with
  | [] | [_] => None
  | 45 :: r => dur_loop true r false 0 0 0 false
  | _ => dur_loop false s false 0 0 0 false
  end.

Definition print_duration (v : Z) : str :=
  if v =? 0 then [48; 109; 115] else
  let sign := if v <? 0 then [45] else [] in
  let r0 := Z.abs v in
  let part (q : Z) (suffix : str) := if q >? 0 then print_nat q ++ suffix else [] in
  let days := r0 / MillisPerDay in let r1 := r0 mod MillisPerDay in
  let hours := r1 / MillisPerHour in let r2 := r1 mod MillisPerHour in
  let minutes := r2 / MillisPerMinute in let r3 := r2 mod MillisPerMinute in
  let seconds := r3 / MillisPerSecond in let r4 := r3 mod MillisPerSecond in
  sign ++ part days [100] ++ part hours [104] ++ part minutes [109] ++ part seconds [115] ++ part r4 [109; 115].
