(* The concrete types.Set of cedar-go: the open-addressing table of Impl/HashSet.v instantiated with
   Cedar values, Value.Equal and Value.hash().  Observable through MarshalCedar / MarshalJSON, which emit
   the members in ascending slot order. *)
From Coq Require Import ZArith List Bool.
Import ListNotations.
From Cedar Require Import Base.Int64 Lang.Value Impl.HashSet Impl.Hash.
Local Open Scope Z_scope.

Definition vtable := table value.

Definition vnew_table (l : list value) : option vtable := new_table value veq vhash l.

Fixpoint ins_slot (kv : Z * value) (l : list (Z * value)) : list (Z * value) :=
  match l with
  | [] => [kv]
  | x :: l' => if fst x <? fst kv then x :: ins_slot kv l' else kv :: l
  end.

(* slices.Sort(orderedKeys) *)
Definition by_slot (t : vtable) : list (Z * value) := fold_right ins_slot [] t.

(* the member order of MarshalCedar / MarshalJSON *)
Definition marshal_order (l : list value) : option (list value) :=
  option_map (fun t => map snd (by_slot t)) (vnew_table l).
