(* policy_set.go / policy_list.go: PolicySet as a Go map PolicyID -> *Policy.
   Implementation model: association list with unique keys (a Go map), newest binding first.
   Specification: a total function id -> option handle. *)
From Coq Require Import ZArith List Bool String.
Import ListNotations.
From Cedar Require Import Lang.Value Impl.Authorize.
Local Open Scope Z_scope.

Definition handle := Z.                       (* which policy object *)
Definition pset := list (str * handle).

Fixpoint ps_get (s : pset) (k : str) : option handle :=
  match s with [] => None | (k', h) :: s' => if str_eqb k' k then Some h else ps_get s' k end.

Fixpoint ps_del (s : pset) (k : str) : pset :=
  match s with [] => [] | (k', h) :: s' => if str_eqb k' k then ps_del s' k else (k', h) :: ps_del s' k end.

Definition ps_set (s : pset) (k : str) (h : handle) : pset := (k, h) :: ps_del s k.

(* sorted insertion by id (slices.Sort on PolicyID = bytewise order) *)
Fixpoint ins_sorted (kv : str * handle) (l : list (str * handle)) : list (str * handle) :=
  match l with
  | [] => [kv]
  | x :: l' => if str_ltb (fst x) (fst kv) then x :: ins_sorted kv l' else kv :: l
  end.
Definition sort_by_id (s : pset) : list (str * handle) := fold_right ins_sorted [] s.

(* "policy<i>" *)
Fixpoint digits_nat (fuel : nat) (n : nat) (acc : str) : str :=
  match fuel with
  | O => acc
  | S f => let acc' := (48 + Z.of_nat (Nat.modulo n 10)) :: acc in
           if Nat.ltb n 10 then acc' else digits_nat f (Nat.div n 10) acc'
  end.
Definition policy_id (i : nat) : str := s_of "policy"%string ++ digits_nat (S i) i [].

Fixpoint number_from (i : nat) (hs : list handle) : pset :=
  match hs with [] => [] | h :: hs' => (policy_id i, h) :: number_from (S i) hs' end.

Inductive op :=
| OAdd (k : str) (h : handle)          (* Add: returns whether the id was new *)
| ORemove (k : str)                    (* Remove: returns whether the id existed *)
| OGet (k : str)
| OAll                                 (* All / Map: the current bindings *)
| OMapMutate (k : str) (h : handle)    (* take Map(), then delete/insert in the copy: must not affect the set *)
| OMarshalCedar                        (* policies in lexicographic id order *)
| OJsonRoundTrip                       (* MarshalJSON then UnmarshalJSON into the set *)
| OCedarRoundTrip                      (* MarshalCedar then NewPolicySetFromBytes: ids renumbered policy0.. in sorted-id order *)
| OFromDoc (hs : list handle)          (* NewPolicySetFromBytes of a document holding these policies in order *)
| OLoadJson (bs : list (str * handle))  (* UnmarshalJSON of a document holding these bindings INTO the current set: replaces its contents *)
| OAuthorize.

Inductive out :=
| RBool (b : bool)
| RGet (h : option handle)
| RBindings (l : list (str * handle))  (* compared as sets (sorted by id by both sides) *)
| RList (l : list handle)              (* order matters *)
| RDecision (d : decision) (reasons : list str) (errors : list str).   (* id lists compared as sets *)

Section Run.
  Variable eff : handle -> effect.
  Variable ev : handle -> outcome.

  Definition authz (s : pset) : out :=
    let r := authorize (str * handle) (fun p => eff (snd p)) (fun p => ev (snd p)) s in
    RDecision (dec r) (map fst (reasons r)) (map fst (errs r)).

  Definition step (s : pset) (o : op) : pset * out :=
    match o with
    | OAdd k h => (ps_set s k h, RBool (match ps_get s k with None => true | Some _ => false end))
    | ORemove k => (ps_del s k, RBool (match ps_get s k with None => false | Some _ => true end))
    | OGet k => (s, RGet (ps_get s k))
    | OAll => (s, RBindings (sort_by_id s))
    | OMapMutate k h => (s, RBindings (sort_by_id s))
    | OMarshalCedar => (s, RList (map snd (sort_by_id s)))
    | OJsonRoundTrip => (s, RBindings (sort_by_id s))
    | OCedarRoundTrip => let s' := number_from 0 (map snd (sort_by_id s)) in (s', RBindings (sort_by_id s'))
    | OFromDoc hs => let s' := number_from 0 hs in (s', RBindings (sort_by_id s'))
    | OLoadJson bs => let s' := fold_left (fun acc kv => ps_set acc (fst kv) (snd kv)) bs [] in (s', RBindings (sort_by_id s'))
    | OAuthorize => (s, authz s)
    end.

  Fixpoint run (s : pset) (ops : list op) : list out :=
    match ops with
    | [] => []
    | o :: ops' => let '(s', r) := step s o in r :: run s' ops'
    end.
End Run.

(* ---- specification: a plain function ---- *)
Definition fmap := str -> option handle.
Definition f_empty : fmap := fun _ => None.
Definition f_set (f : fmap) (k : str) (h : handle) : fmap := fun x => if str_eqb k x then Some h else f x.
Definition f_del (f : fmap) (k : str) : fmap := fun x => if str_eqb k x then None else f x.
Definition abs (s : pset) : fmap := ps_get s.
