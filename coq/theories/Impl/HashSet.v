(* types/set.go: Set = Go map[uint64]Value used as an open-addressing table (linear probing with
   hash++ wrapping at 2^64) plus the sum of member hashes.  Generic in the element type. *)
From Coq Require Import ZArith List Bool.
Import ListNotations.
From Cedar Require Import Base.Int64.
Local Open Scope Z_scope.

Section HashSet.
  Variable V : Type.
  Variable veq : V -> V -> bool.        (* Value.Equal *)
  Variable hash : V -> Z.               (* Value.hash(), a uint64 *)

  Definition table := list (Z * V).     (* slot -> value; slots unique *)

  Fixpoint slot_get (t : table) (h : Z) : option V :=
    match t with
    | [] => None
    | (k, v) :: t' => if k =? h then Some v else slot_get t' h
    end.

  (* the inner for-loop of NewSet *)
  Fixpoint probe_insert (fuel : nat) (t : table) (h : Z) (v : V) : option table :=
    match fuel with
    | O => None
    | S f =>
        match slot_get t h with
        | None => Some ((h, v) :: t)
        | Some e => if veq v e then Some t else probe_insert f t (wrapu64 (h + 1)) v
        end
    end.

  Definition insert (t : table) (v : V) : option table := probe_insert (S (length t)) t (hash v) v.

  Definition new_table (l : list V) : option table :=
    fold_left (fun acc v => match acc with Some t => insert t v | None => None end) l (Some []).

  (* Set.Contains *)
  Fixpoint probe_contains (fuel : nat) (t : table) (h : Z) (v : V) : option bool :=
    match fuel with
    | O => None
    | S f =>
        match slot_get t h with
        | None => Some false
        | Some e => if veq v e then Some true else probe_contains f t (wrapu64 (h + 1)) v
        end
    end.

  Definition contains (t : table) (v : V) : option bool := probe_contains (S (length t)) t (hash v) v.

  Definition members (t : table) : list V := map snd t.

  Definition hash_val (t : table) : Z := fold_left (fun a v => wrapu64 (a + hash v)) (members t) 0.

  (* Set.Equal *)
  Definition table_equal (a b : table) : option bool :=
    if negb (Nat.eqb (length a) (length b)) || negb (hash_val a =? hash_val b) then Some false
    else fold_left (fun acc v => match acc with
                                 | Some true => contains b v
                                 | other => other
                                 end) (members a) (Some true).
End HashSet.
