(* internal/eval/evalers.go: entityInOne / entityInSet — iterative ancestor search with a
   work list (todo), a seen set (known) and four pruning tests.  Generic in the identifier type. *)
From Coq Require Import List Bool.
Import ListNotations.

Section InSearch.
  Variable id : Type.
  Variable eqb : id -> id -> bool.
  Variable parents : id -> option (list id).     (* env.Entities.Get(k) projected to Parents; None = absent *)

  Definition mem (x : id) (l : list id) : bool := existsb (eqb x) l.

  (* p present and p.Parents.Len() != 0 *)
  Definition expandable (k : id) : bool :=
    match parents k with Some (_ :: _) => true | _ => false end.

  (* the `for k := range fe.Parents.All()` loop *)
  Fixpoint scan (entity : id) (ps : list id) (known todo : list id) : list id * list id :=
    match ps with
    | [] => (known, todo)
    | k :: r =>
        if negb (expandable k) || eqb k entity || mem k known
        then scan entity r known todo
        else scan entity r (k :: known) (k :: todo)
    end.

  (* [hit ps]: fe.Parents.Contains(parent) for entityInOne, fe.Parents.Intersects(parents) for entityInSet *)
  Fixpoint loop (fuel : nat) (hit : list id -> bool) (entity : id) (known todo : list id) (cand : id) : option bool :=
    match fuel with
    | O => None
    | S f =>
        match parents cand with
        | Some ps =>
            if hit ps then Some true
            else let '(known', todo') := scan entity ps known todo in
                 match todo' with
                 | [] => Some false
                 | c :: t => loop f hit entity known' t c
                 end
        | None =>
            match todo with
            | [] => Some false
            | c :: t => loop f hit entity known t c
            end
        end
    end.

  Definition entity_in_one (fuel : nat) (entity parent : id) : option bool :=
    if eqb entity parent then Some true
    else loop fuel (fun ps => mem parent ps) entity [] [] entity.

  Definition entity_in_set (fuel : nat) (entity : id) (targets : list id) : option bool :=
    if mem entity targets then Some true
    else loop fuel (fun ps => existsb (fun p => mem p targets) ps) entity [] [] entity.
End InSearch.
