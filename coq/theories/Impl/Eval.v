(* Model of internal/eval: ToEval + every Evaler, same evaluation order, short-circuiting and
   type tests as evalers.go.  Sets and records are the canonical list forms of Lang/Value.v
   (their hash-table implementation is Impl/HashSet.v, C11). *)
From Coq Require Import ZArith List Bool String.
Import ListNotations.
From Cedar Require Import Base.Int64 Lang.Value Lang.Expr Impl.Like Impl.InSearch
  Impl.Decimal Impl.Duration Impl.Datetime Impl.IPAddr Generated.Tables Generated.Kernels.
Local Open Scope Z_scope.

Definition bindr (r : res) (f : value -> res) : res := match r with Ok v => f v | Err k => Err k end.

Definition as_bool (v : value) (f : bool -> res) : res := match v with VBool b => f b | _ => Err EType end.
Definition as_long (v : value) (f : Z -> res) : res := match v with VLong z => f z | _ => Err EType end.
Definition as_string (v : value) (f : str -> res) : res := match v with VString s => f s | _ => Err EType end.
Definition as_set (v : value) (f : list value -> res) : res := match v with VSet l => f l | _ => Err EType end.
Definition as_entity (v : value) (f : uid -> res) : res := match v with VEntity t i => f (t, i) | _ => Err EType end.
Definition as_decimal (v : value) (f : Z -> res) : res := match v with VDecimal z => f z | _ => Err EType end.
Definition as_datetime (v : value) (f : Z -> res) : res := match v with VDatetime z => f z | _ => Err EType end.
Definition as_duration (v : value) (f : Z -> res) : res := match v with VDuration z => f z | _ => Err EType end.
Definition as_ip (v : value) (f : bool -> Z -> Z -> res) : res := match v with VIP b a p => f b a p | _ => Err EType end.

Definition vbool (b : bool) : res := Ok (VBool b).

Definition comparable (v : value) : bool :=
  match v with VLong _ | VDatetime _ | VDuration _ => true | _ => false end.

(* operands of LessThan / LessThanOrEqual when both have the same comparable type *)
Definition cmp_operands (v1 v2 : value) : option (Z * Z) :=
  match v1, v2 with
  | VLong a, VLong b => Some (a, b)
  | VDatetime a, VDatetime b => Some (a, b)
  | VDuration a, VDuration b => Some (a, b)
  | _, _ => None
  end.

Definition cmp_eval (r1 r2 : res) (f : Z -> Z -> bool) : res :=
  bindr r1 (fun v1 => if negb (comparable v1) then Err EType else
  bindr r2 (fun v2 => if negb (comparable v2) then Err EType else
  match cmp_operands v1 v2 with Some (a, b) => vbool (f a b) | None => Err EType end)).

Definition arith_eval (r1 r2 : res) (op : Z -> Z -> Z * bool) : res :=
  bindr r1 (fun v1 => as_long v1 (fun a =>
  bindr r2 (fun v2 => as_long v2 (fun b =>
  let '(r, ok) := op a b in if ok then Ok (VLong r) else Err EOverflow)))).

Definition is_zero_uid (u : uid) : bool := is_nil (fst u) && is_nil (snd u).

Definition parents_of (st : store) (u : uid) : option (list uid) := option_map e_parents (lookup st u).

Definition in_one (st : store) (a b : uid) : option bool :=
  entity_in_one uid uid_eqb (parents_of st) (S (List.length st)) a b.
Definition in_set (st : store) (a : uid) (bs : list uid) : option bool :=
  entity_in_set uid uid_eqb (parents_of st) (S (List.length st)) a bs.

Definition of_search (o : option bool) : res := match o with Some b => vbool b | None => Err EFuel end.

Fixpoint all_entities (l : list value) : option (list uid) :=
  match l with
  | [] => Some []
  | VEntity t i :: l' => option_map (cons (t, i)) (all_entities l')
  | _ :: _ => None
  end.

(* doInEval *)
Definition do_in (st : store) (lhs : uid) (rhs : value) : res :=
  match rhs with
  | VEntity t i => of_search (in_one st lhs (t, i))
  | VSet l => match all_entities l with
              | Some us => of_search (in_set st lhs us)
              | None => Err EType
              end
  | _ => Err EType
  end.

Definition ext_lookup (name : str) : option (Z * bool) :=
  option_map snd (find (fun e => str_eqb (s_of (fst e)) name) ext_table).

Definition opt_res {A} (o : option A) (f : A -> value) : res := match o with Some x => Ok (f x) | None => Err EExt end.

Definition nth_res (rs : list res) (n : nat) : res := nth n rs (Err EArity).

Definition to_date (ms : Z) : res :=
  let rem := gorem ms MillisPerDay in
  let rem := if rem <? 0 then wrap64 (rem + MillisPerDay) else rem in
  let '(r, ok) := checkedSubI64 ms rem in
  if ok then Ok (VDatetime r) else Err EOverflow.

Definition to_time (ms : Z) : res :=
  let rem := gorem ms MillisPerDay in
  let rem := if rem <? 0 then wrap64 (rem + MillisPerDay) else rem in
  Ok (VDuration rem).

Definition name_is (name : str) (n : string) : bool := str_eqb name (s_of n).

(* newExtensionEval applied to already evaluated arguments (argument evaluation is pure, so only
   the order in which errors surface matters, and that is kept) *)
Definition call_ext (name : str) (rs : list res) : res :=
  match ext_lookup name with
  | None => Err EUnknownFn
  | Some (arity, _) =>
    if negb (Z.of_nat (List.length rs) =? arity) then Err EArity else
    let a0 := nth_res rs 0 in let a1 := nth_res rs 1 in
    if name_is name "datetime" then bindr a0 (fun v => as_string v (fun s => opt_res (parse_datetime s) VDatetime))
    else if name_is name "decimal" then bindr a0 (fun v => as_string v (fun s => opt_res (parse_decimal s) VDecimal))
    else if name_is name "duration" then bindr a0 (fun v => as_string v (fun s => opt_res (parse_duration s) VDuration))
    else if name_is name "ip" then bindr a0 (fun v => as_string v (fun s => opt_res (parse_ip s) (fun x => VIP (fst (fst x)) (snd (fst x)) (snd x))))
    else if name_is name "lessThan" then bindr a0 (fun v => as_decimal v (fun x => bindr a1 (fun w => as_decimal w (fun y => vbool (x <? y)))))
    else if name_is name "lessThanOrEqual" then bindr a0 (fun v => as_decimal v (fun x => bindr a1 (fun w => as_decimal w (fun y => vbool (x <=? y)))))
    else if name_is name "greaterThan" then bindr a0 (fun v => as_decimal v (fun x => bindr a1 (fun w => as_decimal w (fun y => vbool (x >? y)))))
    else if name_is name "greaterThanOrEqual" then bindr a0 (fun v => as_decimal v (fun x => bindr a1 (fun w => as_decimal w (fun y => vbool (x >=? y)))))
    else if name_is name "isIpv4" then bindr a0 (fun v => as_ip v (fun v6 _ _ => vbool (negb v6)))
    else if name_is name "isIpv6" then bindr a0 (fun v => as_ip v (fun v6 _ _ => vbool v6))
    else if name_is name "isLoopback" then bindr a0 (fun v => as_ip v (fun v6 a p => vbool (ip_is_loopback v6 a p)))
    else if name_is name "isMulticast" then bindr a0 (fun v => as_ip v (fun v6 a p => vbool (ip_is_multicast v6 a p)))
    else if name_is name "isInRange" then bindr a0 (fun v => as_ip v (fun v6 a p => bindr a1 (fun w => as_ip w (fun v6' a' p' =>
                                   vbool (ip_contains v6' a' p' v6 a p)))))
    else if name_is name "toDate" then bindr a0 (fun v => as_datetime v to_date)
    else if name_is name "toTime" then bindr a0 (fun v => as_datetime v to_time)
    else if name_is name "toMilliseconds" then bindr a0 (fun v => as_duration v (fun d => Ok (VLong d)))
    else if name_is name "toSeconds" then bindr a0 (fun v => as_duration v (fun d => Ok (VLong (goquot d MillisPerSecond))))
    else if name_is name "toMinutes" then bindr a0 (fun v => as_duration v (fun d => Ok (VLong (goquot d MillisPerMinute))))
    else if name_is name "toHours" then bindr a0 (fun v => as_duration v (fun d => Ok (VLong (goquot d MillisPerHour))))
    else if name_is name "toDays" then bindr a0 (fun v => as_duration v (fun d => Ok (VLong (goquot d MillisPerDay))))
    else if name_is name "offset" then bindr a0 (fun v => as_datetime v (fun t => bindr a1 (fun w => as_duration w (fun d =>
                                let '(r, ok) := checkedAddI64 t d in if ok then Ok (VDatetime r) else Err EOverflow))))
    else if name_is name "durationSince" then bindr a0 (fun v => as_datetime v (fun t => bindr a1 (fun w => as_datetime w (fun u =>
                                let '(r, ok) := checkedSubI64 t u in if ok then Ok (VDuration r) else Err EOverflow))))
    else Err EUnknownFn
  end.

(* values of a list of results, or the first error *)
Fixpoint seq_res (rs : list res) : sum res (list value) :=
  match rs with
  | [] => inr []
  | Ok v :: rs' => match seq_res rs' with inr vs => inr (v :: vs) | inl e => inl e end
  | Err k :: _ => inl (Err k)
  end.

Fixpoint seq_rec (rs : list (str * res)) : sum res (list (str * value)) :=
  match rs with
  | [] => inr []
  | (k, Ok v) :: rs' => match seq_rec rs' with inr vs => inr ((k, v) :: vs) | inl e => inl e end
  | (_, Err e) :: _ => inl (Err e)
  end.

Definition var_value (en : env) (x : var) : value :=
  match x with
  | VPrincipal => e_principal en | VAction => e_action en | VResource => e_resource en | VContext => e_context en
  end.

Definition get_attr (st : store) (v : value) (k : str) : res :=
  match v with
  | VEntity t i =>
      if is_zero_uid (t, i) then Err EUnspecified else
      match lookup st (t, i) with
      | None => Err EEntity
      | Some e => match rec_get k (e_attrs e) with Some x => Ok x | None => Err EAttr end
      end
  | VRecord l => match rec_get k l with Some x => Ok x | None => Err EAttr end
  | _ => Err EType
  end.

Definition has_attr (st : store) (v : value) (k : str) : res :=
  match v with
  | VEntity t i =>
      match lookup st (t, i) with
      | None => vbool false
      | Some e => vbool (match rec_get k (e_attrs e) with Some _ => true | None => false end)
      end
  | VRecord l => vbool (match rec_get k l with Some _ => true | None => false end)
  | _ => Err EType
  end.

Fixpoint eval (en : env) (e : expr) {struct e} : res :=
  let st := e_store en in
  match e with
  | ELit v => Ok v
  | EVar x => Ok (var_value en x)
  | EAnd a b =>
      bindr (eval en a) (fun v => as_bool v (fun x =>
        if negb x then Ok v else
        bindr (eval en b) (fun w => as_bool w (fun _ => Ok w))))
  | EOr a b =>
      bindr (eval en a) (fun v => as_bool v (fun x =>
        if x then Ok v else
        bindr (eval en b) (fun w => as_bool w (fun _ => Ok w))))
  | ENot a => bindr (eval en a) (fun v => as_bool v (fun x => vbool (negb x)))
  | ENeg a => bindr (eval en a) (fun v => as_long v (fun x =>
                let '(r, ok) := checkedNegI64 x in if ok then Ok (VLong r) else Err EOverflow))
  | EAdd a b => arith_eval (eval en a) (eval en b) checkedAddI64
  | ESub a b => arith_eval (eval en a) (eval en b) checkedSubI64
  | EMul a b => arith_eval (eval en a) (eval en b) checkedMulI64
  | EEq a b => bindr (eval en a) (fun v => bindr (eval en b) (fun w => vbool (veq v w)))
  | ENe a b => bindr (eval en a) (fun v => bindr (eval en b) (fun w => vbool (negb (veq v w))))
  | ELt a b => cmp_eval (eval en a) (eval en b) Z.ltb
  | ELe a b => cmp_eval (eval en a) (eval en b) Z.leb
  | EGt a b => cmp_eval (eval en a) (eval en b) (fun x y => negb (x <=? y))
  | EGe a b => cmp_eval (eval en a) (eval en b) (fun x y => negb (x <? y))
  | EIn a b =>
      bindr (eval en a) (fun v => as_entity v (fun u =>
      bindr (eval en b) (fun w => do_in st u w)))
  | EContains a b =>
      bindr (eval en a) (fun v => as_set v (fun l =>
      bindr (eval en b) (fun w => vbool (vmem w l))))
  | EContainsAll a b =>
      bindr (eval en a) (fun v => as_set v (fun l =>
      bindr (eval en b) (fun w => as_set w (fun m => vbool (forallb (fun x => vmem x l) m)))))
  | EContainsAny a b =>
      bindr (eval en a) (fun v => as_set v (fun l =>
      bindr (eval en b) (fun w => as_set w (fun m => vbool (existsb (fun x => vmem x l) m)))))
  | EIsEmpty a => bindr (eval en a) (fun v => as_set v (fun l => vbool (is_nil l)))
  | EAccess a k => bindr (eval en a) (fun v => get_attr st v k)
  | EHas a k => bindr (eval en a) (fun v => has_attr st v k)
  | EGetTag a b =>
      bindr (eval en a) (fun v => as_entity v (fun u =>
      if is_zero_uid u then Err EUnspecified else
      bindr (eval en b) (fun w => as_string w (fun t =>
      match lookup st u with
      | None => Err EEntity
      | Some ent => match rec_get t (e_tags ent) with Some x => Ok x | None => Err ETag end
      end))))
  | EHasTag a b =>
      bindr (eval en a) (fun v => as_entity v (fun u =>
      bindr (eval en b) (fun w => as_string w (fun t =>
      match lookup st u with
      | None => vbool false
      | Some ent => vbool (match rec_get t (e_tags ent) with Some _ => true | None => false end)
      end))))
  | ELike a p => bindr (eval en a) (fun v => as_string v (fun s => vbool (go_match p s)))
  | EIs a ty => bindr (eval en a) (fun v => as_entity v (fun u => vbool (str_eqb (fst u) ty)))
  | EIsIn a ty b =>
      bindr (eval en a) (fun v => as_entity v (fun u =>
      if negb (str_eqb (fst u) ty) then vbool false else
      bindr (eval en b) (fun w => do_in st u w)))
  | EIf c t f => bindr (eval en c) (fun v => as_bool v (fun x => if x then eval en t else eval en f))
  | ESet es =>
      match seq_res (List.map (eval en) es) with
      | inl e => e
      | inr vs => Ok (mk_set vs)
      end
  | ERecord kvs =>
      (* ToEval builds a map (later duplicate key wins); fields are evaluated in key order *)
      match seq_rec (rec_of_list (List.map (fun kv => (fst kv, eval en (snd kv))) kvs)) with
      | inl e => e
      | inr fields => Ok (VRecord fields)
      end
  | ECall name args => call_ext name (List.map (eval en) args)
  | EPartialError k => Err k
  end.

(* ---- policies: compile.go PolicyToNode / scopeToNode, BoolEvaler ---- *)
Definition scope_expr (x : var) (s : scope) : expr :=
  match s with
  | SAll => ELit (VBool true)
  | SEq u => EEq (EVar x) (ELit (VEntity (fst u) (snd u)))
  | SIn u => EIn (EVar x) (ELit (VEntity (fst u) (snd u)))
  | SInSet us => EIn (EVar x) (ELit (mk_set (List.map (fun u => VEntity (fst u) (snd u)) us)))
  | SIs ty => EIs (EVar x) ty
  | SIsIn ty u => EIsIn (EVar x) ty (ELit (VEntity (fst u) (snd u)))
  end.

Definition is_all (s : scope) : bool := match s with SAll => true | _ => false end.

Fixpoint and_all (e : expr) (es : list expr) : expr :=   (* e && (e1 && (e2 && ...)) *)
  match es with [] => e | e' :: es' => EAnd e (and_all e' es') end.

Definition policy_nodes (p : policy) : list expr :=
  (if is_all (p_principal p) && is_all (p_action p) && is_all (p_resource p) then [ELit (VBool true)]
   else (if is_all (p_principal p) then [] else [scope_expr VPrincipal (p_principal p)])
        ++ (if is_all (p_action p) then [] else [scope_expr VAction (p_action p)])
        ++ (if is_all (p_resource p) then [] else [scope_expr VResource (p_resource p)]))
  ++ List.map (fun c : bool * expr => if fst c then snd c else ENot (snd c)) (p_conds p).

Definition policy_to_expr (p : policy) : expr :=
  match policy_nodes p with
  | [] => ELit (VBool true)       (* unreachable: policy_nodes is never empty *)
  | e :: es => and_all e es
  end.

(* BoolEvaler.Eval *)
Definition bool_eval (en : env) (e : expr) : res := bindr (eval en e) (fun v => as_bool v (fun _ => Ok v)).
