(* internal/eval/fold.go: constant folding (tryFold / fold / foldPolicy), driven by the table the
   translator reads from fold.go: which node types are evaluated on literal operands, with which
   evaluator, and whether entity operands are excluded. *)
From Coq Require Import ZArith List Bool String.
Import ListNotations.
From Cedar Require Import Lang.Value Lang.Expr Impl.Like Impl.Eval Generated.Tables.
Local Open Scope string_scope.

Definition ctors_main (cs : list string) : list string :=
  filter (fun c => negb (String.eqb c "newErrorEval" || String.eqb c "newLiteralEval")) cs.

Section Fold.
  Variable ftab : list (string * (list string * bool)).

  Definition fold_entry (n : string) : option (list string * bool) :=
    option_map snd (find (fun e => String.eqb (fst e) n) ftab).

  (* does the case for node type n evaluate its operands when they are all literals? *)
  Definition folds (n : string) : bool :=
    match fold_entry n with
    | Some (cs, _) => negb (is_nil (ctors_main cs))
    | None => false
    end.

  (* does it refuse entity operands (the EntityUID test of Access / Has)? *)
  Definition guards (n : string) : bool :=
    match fold_entry n with Some (_, g) => g | None => false end.

  Definition empty_env : env :=
    {| e_store := []; e_principal := VBool false; e_action := VBool false; e_resource := VBool false; e_context := VBool false |}.

  Definition is_lit (e : expr) : bool := match e with ELit _ => true | _ => false end.
  Definition is_entity_lit (e : expr) : bool := match e with ELit (VEntity _ _) => true | _ => false end.

  (* tryFold after the children have been folded: [e] is the rebuilt node, [kids] its children *)
  Definition try_fold (n : string) (kids : list expr) (e : expr) : expr :=
    if folds n && forallb is_lit kids && negb (guards n && existsb is_entity_lit kids) then
      match eval empty_env e with
      | Ok v => ELit v
      | Err _ => e
      end
    else e.

  Fixpoint fold (e : expr) : expr :=
    match e with
    | ELit _ => e
    | EVar _ => e
    | EPartialError _ => e
    | EAnd a b => let a' := fold a in let b' := fold b in try_fold "NodeTypeAnd" [a'; b'] (EAnd a' b')
    | EOr a b => let a' := fold a in let b' := fold b in try_fold "NodeTypeOr" [a'; b'] (EOr a' b')
    | ENot a => let a' := fold a in try_fold "NodeTypeNot" [a'] (ENot a')
    | ENeg a => let a' := fold a in try_fold "NodeTypeNegate" [a'] (ENeg a')
    | EAdd a b => let a' := fold a in let b' := fold b in try_fold "NodeTypeAdd" [a'; b'] (EAdd a' b')
    | ESub a b => let a' := fold a in let b' := fold b in try_fold "NodeTypeSub" [a'; b'] (ESub a' b')
    | EMul a b => let a' := fold a in let b' := fold b in try_fold "NodeTypeMult" [a'; b'] (EMul a' b')
    | EEq a b => let a' := fold a in let b' := fold b in try_fold "NodeTypeEquals" [a'; b'] (EEq a' b')
    | ENe a b => let a' := fold a in let b' := fold b in try_fold "NodeTypeNotEquals" [a'; b'] (ENe a' b')
    | ELt a b => let a' := fold a in let b' := fold b in try_fold "NodeTypeLessThan" [a'; b'] (ELt a' b')
    | ELe a b => let a' := fold a in let b' := fold b in try_fold "NodeTypeLessThanOrEqual" [a'; b'] (ELe a' b')
    | EGt a b => let a' := fold a in let b' := fold b in try_fold "NodeTypeGreaterThan" [a'; b'] (EGt a' b')
    | EGe a b => let a' := fold a in let b' := fold b in try_fold "NodeTypeGreaterThanOrEqual" [a'; b'] (EGe a' b')
    | EIn a b => let a' := fold a in let b' := fold b in try_fold "NodeTypeIn" [a'; b'] (EIn a' b')
    | EContains a b => let a' := fold a in let b' := fold b in try_fold "NodeTypeContains" [a'; b'] (EContains a' b')
    | EContainsAll a b => let a' := fold a in let b' := fold b in try_fold "NodeTypeContainsAll" [a'; b'] (EContainsAll a' b')
    | EContainsAny a b => let a' := fold a in let b' := fold b in try_fold "NodeTypeContainsAny" [a'; b'] (EContainsAny a' b')
    | EIsEmpty a => let a' := fold a in try_fold "NodeTypeIsEmpty" [a'] (EIsEmpty a')
    | EAccess a k => let a' := fold a in try_fold "NodeTypeAccess" [a'] (EAccess a' k)
    | EHas a k => let a' := fold a in try_fold "NodeTypeHas" [a'] (EHas a' k)
    | EGetTag a b => let a' := fold a in let b' := fold b in try_fold "NodeTypeGetTag" [a'; b'] (EGetTag a' b')
    | EHasTag a b => let a' := fold a in let b' := fold b in try_fold "NodeTypeHasTag" [a'; b'] (EHasTag a' b')
    | ELike a p => let a' := fold a in try_fold "NodeTypeLike" [a'] (ELike a' p)
    | EIs a ty => let a' := fold a in try_fold "NodeTypeIs" [a'] (EIs a' ty)
    | EIsIn a ty b => let a' := fold a in let b' := fold b in try_fold "NodeTypeIsIn" [a'; b'] (EIsIn a' ty b')
    | EIf c t f => let c' := fold c in let t' := fold t in let f' := fold f in
                   try_fold "NodeTypeIfThenElse" [c'; t'; f'] (EIf c' t' f')
    | ESet es => let es' := List.map fold es in try_fold "NodeTypeSet" es' (ESet es')
    | ERecord kvs => let kvs' := List.map (fun kv => (fst kv, fold (snd kv))) kvs in
                     try_fold "NodeTypeRecord" (List.map snd kvs') (ERecord kvs')
    | ECall n args => let args' := List.map fold args in try_fold "NodeTypeExtensionCall" args' (ECall n args')
    end.

  (* foldPolicy: conditions are folded; scopes and everything else are kept *)
  Definition fold_policy (p : policy) : policy :=
    {| p_effect := p_effect p; p_principal := p_principal p; p_action := p_action p; p_resource := p_resource p;
       p_conds := List.map (fun c => (fst c, fold (snd c))) (p_conds p) |}.
End Fold.

(* ---- side conditions on the generated tables ---- *)

(* the ToEval mapping the model evaluator (Impl/Eval.v) is written against *)
Definition expected_toeval : list (string * list string) := [
  ("NodeTypeAccess", ["newAttributeAccessEval"]); ("NodeTypeAdd", ["newAddEval"]); ("NodeTypeAnd", ["newAndEval"]);
  ("NodeTypeContains", ["newContainsEval"]); ("NodeTypeContainsAll", ["newContainsAllEval"]);
  ("NodeTypeContainsAny", ["newContainsAnyEval"]); ("NodeTypeEquals", ["newEqualEval"]);
  ("NodeTypeExtensionCall", ["newExtensionEval"]); ("NodeTypeGetTag", ["newGetTagEval"]);
  ("NodeTypeGreaterThan", ["newComparableValueGreaterThanEval"]);
  ("NodeTypeGreaterThanOrEqual", ["newComparableValueGreaterThanOrEqualEval"]);
  ("NodeTypeHas", ["newHasEval"]); ("NodeTypeHasTag", ["newHasTagEval"]); ("NodeTypeIfThenElse", ["newIfThenElseEval"]);
  ("NodeTypeIn", ["newInEval"]); ("NodeTypeIs", ["newIsEval"]); ("NodeTypeIsEmpty", ["newIsEmptyEval"]);
  ("NodeTypeIsIn", ["newIsInEval"]); ("NodeTypeLessThan", ["newComparableValueLessThanEval"]);
  ("NodeTypeLessThanOrEqual", ["newComparableValueLessThanOrEqualEval"]); ("NodeTypeLike", ["newLikeEval"]);
  ("NodeTypeMult", ["newMultiplyEval"]); ("NodeTypeNegate", ["newNegateEval"]); ("NodeTypeNot", ["newNotEval"]);
  ("NodeTypeNotEquals", ["newNotEqualEval"]); ("NodeTypeOr", ["newOrEval"]); ("NodeTypeRecord", ["newRecordLiteralEval"]);
  ("NodeTypeSet", ["newSetLiteralEval"]); ("NodeTypeSub", ["newSubtractEval"]); ("NodeTypeVariable", ["newVariableEval"]);
  ("NodeValue", ["newLiteralEval"]) ].

Definition strs_eqb (a b : list string) : bool :=
  Nat.eqb (List.length a) (List.length b) && forallb (fun p => String.eqb (fst p) (snd p)) (combine a b).

Definition toeval_entry_eqb (a b : string * list string) : bool :=
  String.eqb (fst a) (fst b) && strs_eqb (snd a) (snd b).

Definition toeval_table_ok (t : list (string * list string)) : bool :=
  Nat.eqb (List.length t) (List.length expected_toeval) &&
  forallb (fun p => toeval_entry_eqb (fst p) (snd p)) (combine t expected_toeval).

(* node types whose evaluation reads the entity store or the request even on literal operands *)
Definition env_dependent : list string :=
  ["NodeTypeIn"; "NodeTypeIsIn"; "NodeTypeGetTag"; "NodeTypeHasTag"; "NodeTypeVariable"].
(* node types that read the store only when the operand is an entity *)
Definition entity_dependent : list string := ["NodeTypeAccess"; "NodeTypeHas"].

Definition mem_str (x : string) (l : list string) : bool := existsb (String.eqb x) l.

Definition fold_entry_sound (te : list (string * list string)) (e : string * (list string * bool)) : bool :=
  let '(n, (cs, g)) := e in
  let main := ctors_main cs in
  if is_nil main then true                                   (* never evaluated: trivially sound *)
  else
    (* evaluated with exactly the evaluator ToEval uses for this node type *)
    match find (fun t => String.eqb (fst t) n) te with
    | Some (_, tc) => strs_eqb main tc
    | None => false
    end
    && negb (mem_str n env_dependent)
    && (if mem_str n entity_dependent then g && mem_str "newErrorEval" cs else true).

Definition fold_table_sound (te : list (string * list string)) (ft : list (string * (list string * bool))) : bool :=
  forallb (fold_entry_sound te) ft.
