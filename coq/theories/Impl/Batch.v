(* x/exp/batch/batch.go: batch authorization = enumerate the Cartesian product of the variable value
   lists, partially evaluating the policies once per bound prefix.  The order in which variables are
   bound (Go: sort by list length over a map iteration) is a parameter: the list [vars] as given. *)
From Coq Require Import ZArith List Bool String.
Import ListNotations.
From Cedar Require Import Lang.Value Lang.Expr Impl.Authorize Impl.Eval Impl.Partial.
Local Open Scope Z_scope.

Definition unknown_type : str := s_of "__cedar::unknown".

(* cloneSub *)
Fixpoint clone_sub (r : value) (k : str) (v : value) {struct r} : value :=
  match r with
  | VEntity t i => if str_eqb t variable_type && str_eqb i k then v else r
  | VRecord l => VRecord ((fix go (l : list (str * value)) : list (str * value) :=
                             match l with [] => [] | (kk, x) :: l' => (kk, clone_sub x k v) :: go l' end) l)
  | VSet l => mk_set ((fix go (l : list value) : list value :=
                         match l with [] => [] | x :: l' => clone_sub x k v :: go l' end) l)
  | _ => r
  end.

(* findVariables *)
Fixpoint find_vars (r : value) {struct r} : list str :=
  match r with
  | VEntity t i => if str_eqb t variable_type then [i] else []
  | VRecord l => (fix go (l : list (str * value)) : list str :=
                    match l with [] => [] | (_, x) :: l' => find_vars x ++ go l' end) l
  | VSet l => (fix go (l : list value) : list str :=
                 match l with [] => [] | x :: l' => find_vars x ++ go l' end) l
  | _ => []
  end.

Definition smem (x : str) (l : list str) : bool := existsb (str_eqb x) l.

Record bresult := {
  br_request : value * value * value * value;
  br_values : list (str * value);
  br_decision : decision;
  br_reasons : list str;
}.

Inductive bstatus := BOk | BUnbound | BUnused | BInvalidPart | BCallbackFailed | BCancelled.

(* fixIgnores *)
Definition fix_ignores (en : env) : env :=
  {| e_store := e_store en;
     e_principal := if is_ignore (e_principal en) then VEntity unknown_type (s_of "principal") else e_principal en;
     e_action := if is_ignore (e_action en) then VEntity unknown_type (s_of "action") else e_action en;
     e_resource := if is_ignore (e_resource en) then VEntity unknown_type (s_of "resource") else e_resource en;
     e_context := if is_ignore (e_context en) then VRecord [] else e_context en |}.

(* doPartial *)
Definition do_partial (en : env) (ps : list (str * policy)) : list (str * policy) :=
  flat_map (fun ip => match partial_policy en (snd ip) with Some r => [(fst ip, r)] | None => [] end) ps.

Definition outcome_of (r : res) : outcome :=
  match r with Ok (VBool true) => OTrue | Ok (VBool false) => OFalse | _ => OErr end.

(* diagnosticAuthzWithCallback without the callback: Some result, or None when a request part has the wrong type *)
Definition final_authz (en : env) (values : list (str * value)) (ps : list (str * policy)) : option bresult :=
  match e_principal en, e_action en, e_resource en, e_context en with
  | VEntity _ _, VEntity _ _, VEntity _ _, VRecord _ =>
      let r := authorize (str * policy) (fun ip => if p_effect (snd ip) then Permit else Forbid)
                         (fun ip => outcome_of (bool_eval en (policy_to_expr (snd ip)))) ps in
      Some {| br_request := (e_principal en, e_action en, e_resource en, e_context en);
              br_values := values; br_decision := dec r; br_reasons := List.map fst (reasons r) |}
  | _, _, _, _ => None
  end.

Definition sub_env (en : env) (k : str) (v : value) : env :=
  {| e_store := e_store en;
     e_principal := clone_sub (e_principal en) k v; e_action := clone_sub (e_action en) k v;
     e_resource := clone_sub (e_resource en) k v; e_context := clone_sub (e_context en) k v |}.

(* doBatch.  [budget] = None: nothing goes wrong.  Some k with cancel = false: the callback fails on its
   (k+1)-th invocation.  Some k with cancel = true: the context is cancelled during the k-th callback, so the
   next entry into doBatch returns ctx.Err() without invoking the callback.
   Returns the results delivered (in delivery order), the remaining budget and the status. *)
Fixpoint do_batch (cancel : bool) (vars : list (str * list value)) (en : env) (values : list (str * value)) (ps : list (str * policy))
         (budget : option nat) {struct vars} : list bresult * option nat * bstatus :=
  match vars with
  | [] =>
      if cancel && match budget with Some O => true | _ => false end then ([], budget, BCancelled) else
      match final_authz en values ps with
      | None => ([], budget, BInvalidPart)
      | Some r =>
          match budget with
          | Some O => ([r], budget, BCallbackFailed)          (* the callback is invoked and returns an error *)
          | Some (S b) => ([r], Some b, BOk)
          | None => ([r], None, BOk)
          end
      end
  | (key, vals) :: vars' =>
      if cancel && match budget with Some O => true | _ => false end then ([], budget, BCancelled) else
      let ps' := do_partial en ps in
      let en1 := match vars' with [] => fix_ignores en | _ => en end in
      (fix loop (vals : list value) (budget : option nat) : list bresult * option nat * bstatus :=
         match vals with
         | [] => ([], budget, BOk)
         | v :: vals' =>
             let '(rs, budget', stt) := do_batch cancel vars' (sub_env en1 key v) (values ++ [(key, v)]) ps' budget in
             match stt with
             | BOk => let '(rs2, budget'', st2) := loop vals' budget' in (rs ++ rs2, budget'', st2)
             | _ => (rs, budget', stt)
             end
         end) vals budget
  end.

(* Authorize: the checks before the enumeration *)
Definition batch_authorize (cancel : bool) (vars : list (str * list value)) (en : env) (ps : list (str * policy)) (budget : option nat)
  : list bresult * bstatus :=
  let finish (x : list bresult * option nat * bstatus) : list bresult * bstatus :=
      let '(rs, b, stt) := x in
      match stt, b with
      | BOk, Some O => if cancel then (rs, BCancelled) else (rs, BOk)   (* errors.Join(nil, ctx.Err()) *)
      | _, _ => (rs, stt)
      end in
  let found := find_vars (e_principal en) ++ find_vars (e_action en) ++ find_vars (e_resource en) ++ find_vars (e_context en) in
  if negb (forallb (fun k => smem k (List.map fst vars)) found) then ([], BUnbound)
  else if negb (forallb (fun kv => smem (fst kv) found) vars) then ([], BUnused)
  else if existsb (fun kv => match snd kv with [] => true | _ => false end) vars then ([], BOk)
  else
    match vars with
    | [] => let ps' := do_partial en ps in finish (do_batch cancel [] (fix_ignores en) [] ps' budget)
    | _ => finish (do_batch cancel vars en [] ps budget)
    end.
