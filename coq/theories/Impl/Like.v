(* types/pattern.go: NewPattern (component merging) and Pattern.Match (greedy chunk matcher). *)
From Coq Require Import ZArith List Bool.
Import ListNotations.
From Cedar Require Import Lang.Value.
Local Open Scope Z_scope.

Definition pcomp := (bool * str)%type.          (* Wildcard, Literal *)
Definition pattern := list pcomp.

(* raw components as given to NewPattern: None = Wildcard{}, Some s = a string *)
Fixpoint compile_rev (cs : list (option str)) (acc : list pcomp) : list pcomp :=
  match cs with
  | [] => acc
  | Some s :: cs' =>
      match acc with
      | [] => compile_rev cs' [(false, s)]
      | (w, l) :: acc' => compile_rev cs' ((w, l ++ s) :: acc')
      end
  | None :: cs' =>
      match acc with
      | [] => compile_rev cs' [(true, [])]
      | (w, l) :: _ =>
          if negb w || negb (match l with [] => true | _ => false end)
          then compile_rev cs' ((true, []) :: acc) else compile_rev cs' acc
      end
  end.

Definition compile_pattern (cs : list (option str)) : pattern := rev (compile_rev cs []).

Fixpoint match_chunk (chunk s : str) : option str :=
  match chunk with
  | [] => Some s
  | c :: chunk' => match s with
                   | [] => None
                   | x :: s' => if c =? x then match_chunk chunk' s' else None
                   end
  end.

Definition is_nil {A} (l : list A) : bool := match l with [] => true | _ => false end.

(* the inner for-loop of Match: try arg[1:], arg[2:], ... *)
Fixpoint scan (lit : str) (last : bool) (arg : str) : option str :=
  match arg with
  | [] => None
  | _ :: arg' =>
      match match_chunk lit arg' with
      | Some t => if last && negb (is_nil t) then scan lit last arg' else Some t
      | None => scan lit last arg'
      end
  end.

Fixpoint go_match (p : pattern) (arg : str) : bool :=
  match p with
  | [] => is_nil arg
  | (w, lit) :: p' =>
      let last := is_nil p' in
      if w && is_nil lit then true else
      let wild := if w then match scan lit last arg with Some t => go_match p' t | None => false end else false in
      match match_chunk lit arg with
      | Some t => if is_nil t || negb last then go_match p' t else wild
      | None => wild
      end
  end.
