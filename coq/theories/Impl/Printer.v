(* internal/parser/cedar_marshal.go and the MarshalCedar methods of the value types: the Cedar text of a policy, as a list of items -
   tokens and the blanks between them - so that both the exact bytes ([render]) and the token list the parser will see
   ([toks]) are available.  Parameters: the Unicode tables of the string escaper, the slot order of set values, the
   ipaddr printer. *)
From Coq Require Import ZArith List Bool String.
Import ListNotations.
From Cedar Require Import Base.Utf8 Base.Utf8Enc Lang.Value Impl.Like Lang.Expr Impl.Eval Impl.Text Impl.Decimal Impl.Duration Impl.Datetime
  Impl.Scanner Impl.Tokenizer Impl.Quote.
Local Open Scope Z_scope.

Inductive item := T (ty : toktype) (text : str) | Sp (text : str).

Definition render (l : list item) : str := flat_map (fun i => match i with T _ t => t | Sp t => t end) l.
Definition toks (l : list item) : list (toktype * str) :=
  flat_map (fun i => match i with T ty t => [(ty, t)] | Sp _ => [] end) l.

Definition op (s : string) : item := T TOperator (s_of s).
Definition kw (s : string) : item := T TReserved (s_of s).
Definition idt (s : string) : item := T TIdent (s_of s).
Definition sp : item := Sp [32].

(* split a path on "::" *)
Fixpoint split_path_acc (s : str) (cur : str) : list str :=
  match s with
  | [] => [cur]
  | 58 :: 58 :: r => cur :: split_path_acc r []
  | c :: r => split_path_acc r (cur ++ [c])
  end.
Definition split_path (s : str) : list str := split_path_acc s [].
Fixpoint path_items_of (cs : list str) : list item :=
  match cs with
  | [] => []
  | [c] => [T TIdent c]
  | c :: r => T TIdent c :: op "::" :: path_items_of r
  end.
Definition path_items (ty : str) : list item := path_items_of (split_path ty).

(* canMarshalAsIdent *)
Definition can_ident (s : str) : bool :=
  match s with
  | [] => false
  | c :: r => negb (is_reserved s) && is_ident_rune c true && forallb (fun x => is_ident_rune x false) r
  end.

Inductive prec := PIf | POr | PAnd | PRel | PAdd | PMul | PUnary | PAccess | PPrimary | PAbovePrimary.
Definition prec_n (p : prec) : nat :=
  match p with PIf => 0 | POr => 1 | PAnd => 2 | PRel => 3 | PAdd => 4 | PMul => 5 | PUnary => 6 | PAccess => 7 | PPrimary => 8 | PAbovePrimary => 9 end.
Definition prec_succ (p : prec) : prec :=
  match p with PIf => POr | POr => PAnd | PAnd => PRel | PRel => PAdd | PAdd => PMul | PMul => PUnary | PUnary => PAccess
             | PAccess => PPrimary | PPrimary => PAbovePrimary | PAbovePrimary => PAbovePrimary end.

Definition is_method (name : str) : bool := match ext_lookup name with Some (_, true) => true | _ => false end.

Definition prec_of (e : expr) : prec :=
  match e with
  | ELit (VLong z) => if z <? 0 then PUnary else PPrimary
  | ELit (VDecimal _) | ELit (VIP _ _ _) | ELit (VDatetime _) | ELit (VDuration _) => PAccess
  | ELit _ | EVar _ | ESet _ | ERecord _ => PPrimary
  | EIf _ _ _ => PIf | EOr _ _ => POr | EAnd _ _ => PAnd
  | ELt _ _ | ELe _ _ | EGt _ _ | EGe _ _ | ENe _ _ | EEq _ _ | EIn _ _ | EHas _ _ | ELike _ _ | EIs _ _ | EIsIn _ _ _ => PRel
  | EAdd _ _ | ESub _ _ => PAdd
  | EMul _ _ => PMul
  | ENeg _ | ENot _ => PUnary
  | EAccess _ _ | EHasTag _ _ | EGetTag _ _ | ECall _ _ | EContains _ _ | EContainsAll _ _ | EContainsAny _ _ | EIsEmpty _ => PAccess
  | EPartialError _ => PAccess
  end.

(* startsWithIntLiteral *)
Fixpoint starts_with_int (e : expr) : bool :=
  match e with
  | ELit (VLong z) => 0 <=? z
  | EAccess a _ | EContains a _ | EContainsAll a _ | EContainsAny a _ | EGetTag a _ | EHasTag a _ | EIsEmpty a => starts_with_int a
  | ECall name (a :: _) => if is_method name then starts_with_int a else false
  | _ => false
  end.

Section Print.
  Variable is_printable : Z -> bool.
  Variable is_gext : Z -> bool.
  Variable set_order : list value -> list nat.        (* the slot order in which Set.MarshalCedar lists the members: indices into the member list *)
  Variable print_ip : bool -> Z -> Z -> str.          (* IPAddr.String *)

  Definition str_item (s : str) : item := T TString (quote_string is_printable is_gext s).

  Fixpoint commas (l : list (list item)) : list item :=
    match l with
    | [] => []
    | [x] => x
    | x :: r => x ++ [op ","; sp] ++ commas r
    end.

  Definition ext_items (fn : string) (arg : str) : list item := [idt fn; op "("; T TString ([34] ++ arg ++ [34]); op ")"].

  (* Value.MarshalCedar *)
  Fixpoint value_items (v : value) : list item :=
    match v with
    | VBool true => [kw "true"] | VBool false => [kw "false"]
    | VLong z => if z <? 0 then [op "-"; T TInt (print_nat (- z))] else [T TInt (print_nat z)]
    | VString s => [str_item s]
    | VEntity ty id => path_items ty ++ [op "::"; str_item id]
    | VSet l => let fix go (l : list value) : list (list item) := match l with [] => [] | x :: r => value_items x :: go r end in
                [op "["] ++ commas (map (fun i => nth i (go l) []) (set_order l)) ++ [op "]"]
    | VRecord kvs =>
        let fix go (l : list (str * value)) : list (list item) :=
            match l with [] => [] | (k, x) :: r => ([str_item k; op ":"] ++ value_items x) :: go r end in
        [op "{"] ++ commas (go kvs) ++ [op "}"]
    | VDecimal z => ext_items "decimal" (print_decimal z)
    | VDatetime z => ext_items "datetime" (print_datetime z)
    | VDuration z => ext_items "duration" (print_duration z)
    | VIP v6 a p => ext_items "ip" (print_ip v6 a p)
    end.

  Definition var_item (x : var) : item :=
    match x with VPrincipal => idt "principal" | VAction => idt "action" | VResource => idt "resource" | VContext => idt "context" end.

  Definition parens (l : list item) : list item := [op "("] ++ l ++ [op ")"].

  (* marshalChildNode(thisPrec, child) given the child's rendering.  [extra] marks sub-expressions that get parentheses although
     they need none: cedar-go never adds any ([no_extra]); the parser theorems are proved for EVERY choice, which covers the fully
     parenthesised rendering, the minimal one and everything in between *)
  Definition child (extra : expr -> bool) (this : prec) (c : expr) (body : list item) : list item :=
    if Nat.ltb (prec_n (prec_of c)) (prec_n this) || extra c then parens body else body.

  Definition attr_items (k : str) : list item :=
    if can_ident k then [op "."; T TIdent k] else [op "["; str_item k; op "]"].

  Definition no_extra (e : expr) : bool := false.

  Section WithExtra.
  Variable extra : expr -> bool.
  Let child := child extra.

  Definition infix (lp rp : prec) (o : item) (a b : expr) (ia ib : list item) : list item :=
    child lp a ia ++ [sp; o; sp] ++ child rp b ib.

  Fixpoint expr_items (e : expr) : list item :=
    let args_items := fix go (this : prec) (l : list expr) : list (list item) :=
        match l with [] => [] | x :: r => child this x (expr_items x) :: go this r end in
    let method (a : expr) (name : string) (b : expr) :=
        child PAccess a (expr_items a) ++ [op "."; idt name; op "("] ++ child PAccess b (expr_items b) ++ [op ")"] in
    match e with
    | ELit v => value_items v
    | EVar x => [var_item x]
    | ENot a => [op "!"] ++ child PUnary a (expr_items a)
    | ENeg a => [op "-"] ++ (if starts_with_int a then child PAbovePrimary a (expr_items a) else child PUnary a (expr_items a))
    | EAccess a k => child PAccess a (expr_items a) ++ attr_items k
    | ECall name args =>
        if is_method name then
          match args with
          | [] => []                                          (* n.Args[0] panics: not renderable *)
          | a :: rest => child PAccess a (expr_items a) ++ [op "."; T TIdent name; op "("] ++ commas (args_items PAccess rest) ++ [op ")"]
          end
        else path_items name ++ [op "("] ++ commas (args_items PAccess args) ++ [op ")"]
    | EContains a b => method a "contains"%string b
    | EContainsAll a b => method a "containsAll"%string b
    | EContainsAny a b => method a "containsAny"%string b
    | EIsEmpty a => child PAccess a (expr_items a) ++ [op "."; idt "isEmpty"; op "("; op ")"]
    | EGetTag a b => method a "getTag"%string b
    | EHasTag a b => method a "hasTag"%string b
    | ESet es => [op "["] ++ commas (args_items PUnary es) ++ [op "]"]
    | ERecord kvs =>
        let fix go (l : list (str * expr)) : list (list item) :=
            match l with [] => [] | (k, x) :: r => ([str_item k; op ":"] ++ child PUnary x (expr_items x)) :: go r end in
        [op "{"] ++ commas (go kvs) ++ [op "}"]
    | EMul a b => infix PMul PUnary (op "*") a b (expr_items a) (expr_items b)
    | EAdd a b => infix PAdd PMul (op "+") a b (expr_items a) (expr_items b)
    | ESub a b => infix PAdd PMul (op "-") a b (expr_items a) (expr_items b)
    | ELt a b => infix PAdd PAdd (op "<") a b (expr_items a) (expr_items b)
    | ELe a b => infix PAdd PAdd (op "<=") a b (expr_items a) (expr_items b)
    | EGt a b => infix PAdd PAdd (op ">") a b (expr_items a) (expr_items b)
    | EGe a b => infix PAdd PAdd (op ">=") a b (expr_items a) (expr_items b)
    | EEq a b => infix PAdd PAdd (op "==") a b (expr_items a) (expr_items b)
    | ENe a b => infix PAdd PAdd (op "!=") a b (expr_items a) (expr_items b)
    | EIn a b => infix PAdd PAdd (kw "in") a b (expr_items a) (expr_items b)
    | EAnd a b => infix PAnd PRel (op "&&") a b (expr_items a) (expr_items b)
    | EOr a b => infix POr PAnd (op "||") a b (expr_items a) (expr_items b)
    | EHas a k => child PAdd a (expr_items a) ++ [sp; kw "has"; sp] ++ (if can_ident k then [T TIdent k] else [str_item k])
    | EIs a ty => child PAdd a (expr_items a) ++ [sp; kw "is"; sp] ++ path_items ty
    | EIsIn a ty b => child PAdd a (expr_items a) ++ [sp; kw "is"; sp] ++ path_items ty ++ [sp; kw "in"; sp] ++ child PAdd b (expr_items b)
    | ELike a p => child PAdd a (expr_items a) ++ [sp; kw "like"; sp; T TString (quote_pattern is_printable is_gext p)]
    | EIf c t f => [kw "if"; sp] ++ child PIf c (expr_items c) ++ [sp; kw "then"; sp] ++ child PIf t (expr_items t)
                   ++ [sp; kw "else"; sp] ++ child PIf f (expr_items f)
    | EPartialError _ => []
    end.
  End WithExtra.

  (* scopeToNode *)
  Definition scope_expr (x : var) (s : scope) : option expr :=
    match s with
    | SAll => None
    | SEq u => Some (EEq (EVar x) (ELit (VEntity (fst u) (snd u))))
    | SIn u => Some (EIn (EVar x) (ELit (VEntity (fst u) (snd u))))
    | SInSet us => Some (EIn (EVar x) (ESet (map (fun u : uid => ELit (VEntity (fst u) (snd u))) us)))
    | SIs ty => Some (EIs (EVar x) ty)
    | SIsIn ty u => Some (EIsIn (EVar x) ty (ELit (VEntity (fst u) (snd u))))
    end.
  Definition scope_items (x : var) (s : scope) : list item :=
    match scope_expr x s with None => [var_item x] | Some e => expr_items no_extra e end.

  Definition nl : item := Sp [10].
  Definition indent : item := Sp [10; 32; 32; 32; 32].

  Definition policy_items (extra : expr -> bool) (annots : list (str * str)) (p : policy) : list item :=
    flat_map (fun kv : str * str => [op "@"; T TIdent (fst kv); op "("; str_item (snd kv); op ")"; nl]) annots
    ++ [idt (if p_effect p then "permit" else "forbid"); sp]
    ++ (match p_principal p, p_action p, p_resource p with
        | SAll, SAll, SAll => [op "("; sp; idt "principal"; op ","; sp; idt "action"; op ","; sp; idt "resource"; sp; op ")"]
        | sp_, sa, sr => [op "("; indent] ++ scope_items VPrincipal sp_ ++ [op ","; indent] ++ scope_items VAction sa
                         ++ [op ","; indent] ++ scope_items VResource sr ++ [nl; op ")"]
        end)
    ++ flat_map (fun c : bool * expr => [nl; idt (if fst c then "when" else "unless"); sp; op "{"; sp] ++ expr_items extra (snd c) ++ [sp; op "}"]) (p_conds p)
    ++ [op ";"].
End Print.
