(* types/decimal.go: ParseDecimal, newDecimal, NewDecimal, Decimal.String *)
From Coq Require Import ZArith List Bool Lia.
Import ListNotations.
From Cedar Require Import Base.Int64 Lang.Value Impl.Text.
Local Open Scope Z_scope.

Definition new_decimal (intPart tenThousandths : Z) : option Z :=
  if (intPart >? 922337203685477) || ((intPart =? 922337203685477) && (tenThousandths >? 5807)) then None
  else if (intPart <? -922337203685477) || ((intPart =? -922337203685477) && (tenThousandths <? -5808)) then None
  else Some (intPart * 10000 + tenThousandths).

Definition parse_decimal (s : str) : option Z :=
  match index_of 46 s with
  | None => None
  | Some i =>
    match s with
    | 43 :: _ => None                                     (* leading '+' *)
    | _ =>
      match parse_signed (firstn i s) with
      | None => None
      | Some ip =>
        if negb (in64b ip) then None else
        let fs := skipn (S i) s in
        match parse_digits fs with
        | None => None
        | Some fp =>
          if fp >? 65535 then None
          else if Nat.ltb 4 (length fs) then None
          else
            let t := fp * 10 ^ (4 - Z.of_nat (length fs)) in
            let t := match s with 45 :: _ => - t | _ => t end in
            new_decimal ip t
        end
      end
    end
  end.

Fixpoint trim_zeros (n : nat) (rs : str) : str :=   (* on the reversed string *)
  match n, rs with
  | S n', 48 :: rs' => trim_zeros n' rs'
  | _, _ => rs
  end.

Definition print_decimal (v : Z) : str :=
  let res :=
    if v <? 0 then
      let integer := Z.quot v 10000 in
      let dec := integer * 10000 - v in
      45 :: print_nat (- integer) ++ 46 :: print_padded 4 dec
    else print_nat (v / 10000) ++ 46 :: print_padded 4 (v mod 10000) in
  rev (trim_zeros 3 (rev res)).

(* NewDecimal(i, exponent) after the fix: exact or error *)
Definition new_decimal_exp (i e : Z) : option Z :=
  if (e <? -4) || (e >? 14) then None
  else if e <=? 0 then
    let p := 10 ^ (- e) in
    new_decimal (Z.quot i p) (Z.rem i p * 10 ^ (4 + e))
  else
    let scale := 10 ^ e in
    if (i >? 0) && (i >? Z.quot max64 scale) then None
    else if (i <? 0) && (i <? Z.quot min64 scale) then None
    else new_decimal (i * scale) 0.
