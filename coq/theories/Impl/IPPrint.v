(* net/netip: Addr.String / Prefix.String as used by types.IPAddr.String (Go standard library: modelled, not verified). *)
From Coq Require Import ZArith List Bool.
Import ListNotations.
From Cedar Require Import Lang.Value Impl.Text Impl.Quote.
Local Open Scope Z_scope.

Definition dotted (a : Z) : str :=
  print_nat (a / 16777216 mod 256) ++ [46] ++ print_nat (a / 65536 mod 256) ++ [46] ++ print_nat (a / 256 mod 256) ++ [46] ++ print_nat (a mod 256).

(* the eight 16-bit fields of a 128-bit address, most significant first *)
Definition fields (a : Z) : list Z := map (fun i => (a / 2 ^ (16 * (7 - Z.of_nat i))) mod 65536) (seq 0 8).

(* longest run of zero fields: (start, length), the first of the longest, only runs of length >= 2 count *)
Fixpoint zero_runs (l : list Z) (i : nat) (cur_start cur_len : nat) (best : nat * nat) : nat * nat :=
  let better (b : nat * nat) (s n : nat) := if Nat.ltb (snd b) n then (s, n) else b in
  match l with
  | [] => better best cur_start cur_len
  | x :: r =>
      if x =? 0 then zero_runs r (S i) (if Nat.eqb cur_len 0 then i else cur_start) (S cur_len) best
      else zero_runs r (S i) 0%nat 0%nat (better best cur_start cur_len)
  end.

Fixpoint join_colon (l : list str) : str :=
  match l with [] => [] | [x] => x | x :: r => x ++ [58] ++ join_colon r end.

Definition v6_string (a : Z) : str :=
  if (a / 4294967296 =? 65535) then [58; 58; 102; 102; 102; 102; 58] ++ dotted (a mod 4294967296)    (* ::ffff:a.b.c.d *)
  else
    let fs := fields a in
    let '(s, n) := zero_runs fs 0 0 0 (0%nat, 0%nat) in
    if Nat.ltb n 2 then join_colon (map hex_lower fs)
    else join_colon (map hex_lower (firstn s fs)) ++ [58; 58] ++ join_colon (map hex_lower (skipn (s + n) fs)).

Definition print_ip (v6 : bool) (a p : Z) : str :=
  let addr := if v6 then v6_string a else dotted a in
  if p =? (if v6 then 128 else 32) then addr else addr ++ [47] ++ print_nat p.
