(* internal/eval/partial.go: partial evaluation of policies over an environment in which request parts
   (or values nested in the context) are unknown (variable markers) or ignored (ignore markers). *)
From Coq Require Import ZArith List Bool String.
Import ListNotations.
From Cedar Require Import Lang.Value Lang.Expr Impl.Like Impl.Eval.
Local Open Scope Z_scope.

Definition variable_type : str := s_of "__cedar::variable".
Definition ignore_type : str := s_of "__cedar::ignore".

Definition is_variable (v : value) : bool := match v with VEntity t _ => str_eqb t variable_type | _ => false end.
Definition is_ignore (v : value) : bool := match v with VEntity t _ => str_eqb t ignore_type | _ => false end.

(* hasMarker *)
Fixpoint has_marker (is : value -> bool) (v : value) {struct v} : bool :=
  match v with
  | VEntity _ _ => is v
  | VSet l => (fix any (l : list value) : bool := match l with [] => false | x :: l' => has_marker is x || any l' end) l
  | VRecord l => (fix any (l : list (str * value)) : bool :=
                    match l with [] => false | (_, x) :: l' => has_marker is x || any l' end) l
  | _ => false
  end.

(* result of partial(): (node, nil) | (node, errVariable) | (nil, errIgnore) | (nil, other error) *)
Inductive pres :=
| PNode (e : expr)
| PVar (e : expr)
| PIgnore
| PErr (k : errk).

(* state of the loop of tryPartialP *)
Inductive tp_state :=
| TPGo (ok : bool) (nodes : list expr) (values : list value)   (* nodes and values accumulated in reverse *)
| TPStop (r : pres).

Definition tp_step (projection : bool) (st : tp_state) (orig_and_res : expr * pres) : tp_state :=
  match st with
  | TPStop r => TPStop r
  | TPGo ok nodes values =>
    let '(orig, r) := orig_and_res in
    match r with
    | PVar _ => TPGo false (orig :: nodes) values
    | PIgnore => TPStop PIgnore
    | PErr k => TPStop (PErr k)
    | PNode n =>
      match n with
      | ELit v =>
        if negb projection && has_marker is_ignore v then TPStop PIgnore
        else if negb projection && has_marker is_variable v then TPGo false (orig :: nodes) values
        else TPGo ok (n :: nodes) (if ok then v :: values else values)
      | _ => TPGo false (n :: nodes) values
      end
    end
  end.

(* tryPartialP: [kids] original children, [rs] their partial results, [mk] rebuilds the node,
   [ev] evaluates the node rebuilt from literal children *)
Definition try_partial (projection : bool) (kids : list expr) (rs : list pres)
           (mk : list expr -> expr) (ev : expr -> res) : pres :=
  match fold_left (tp_step projection) (combine kids rs) (TPGo true [] []) with
  | TPStop r => r
  | TPGo ok nodes values =>
    if ok then
      match ev (mk (List.map ELit (rev values))) with
      | Err k => PErr k
      | Ok v => if is_variable v then PVar (mk kids) else if is_ignore v then PIgnore else PNode (ELit v)
      end
    else PNode (mk (rev nodes))
  end.

(* partialHasEval: like hasEval, but an attribute whose value is the ignore marker gives errIgnore *)
Definition partial_has (st : store) (v : value) (k : str) : sum res unit :=
  let look (l : list (str * value)) : sum res unit :=
    match rec_get k l with
    | Some x => if is_ignore x then inr tt else inl (vbool true)
    | None => inl (vbool false)
    end in
  match v with
  | VEntity t i => match lookup st (t, i) with Some e => look (e_attrs e) | None => inl (vbool false) end
  | VRecord l => look l
  | _ => inl (Err EType)
  end.

Definition is_true_lit (e : expr) : bool := match e with ELit (VBool true) => true | _ => false end.
Definition is_false_lit (e : expr) : bool := match e with ELit (VBool false) => true | _ => false end.
Definition is_nonbool_lit (e : expr) : bool := match e with ELit (VBool _) => false | ELit _ => true | _ => false end.

(* residualOperand *)
Definition residual_operand (r : pres) (orig : expr) : pres :=
  match r with
  | PNode (ELit v) => if has_marker is_ignore v then PIgnore
                      else if has_marker is_variable v then PNode orig else r
  | _ => r
  end.

(* rgt operand of and/or, branches of if, as embedded in the residual: Some node | None = errIgnore *)
Definition embed (r : pres) (orig : expr) : option expr :=
  match r with
  | PIgnore => None
  | PErr k => Some (EPartialError k)
  | PVar n => Some n
  | PNode _ => match residual_operand r orig with
               | PNode n => Some n
               | _ => None
               end
  end.

Fixpoint partial (en : env) (e : expr) {struct e} : pres :=
  let ev := eval en in
  let un (a : expr) (mk : expr -> expr) :=
      try_partial false [a] [partial en a] (fun l => mk (nth 0 l a)) ev in
  let bin (a b : expr) (mk : expr -> expr -> expr) :=
      try_partial false [a; b] [partial en a; partial en b] (fun l => mk (nth 0 l a) (nth 1 l b)) ev in
  match e with
  | ELit _ => PNode e
  | EVar x => try_partial false [] [] (fun _ => EVar x) ev
  | EPartialError k =>     (* an ExtensionCall named __cedar::partialError with one literal string argument *)
      PErr k
  | EAccess a k => try_partial true [a] [partial en a] (fun l => EAccess (nth 0 l a) k) ev
  | EHas a k => try_partial true [a] [partial en a] (fun l => EHas (nth 0 l a) k)
                  (fun n => match n with
                            | EHas (ELit v) _ => match partial_has (e_store en) v k with inl r => r | inr _ => Ok (VEntity ignore_type []) end
                            | _ => ev n end)
  | EGetTag a b => bin a b EGetTag
  | EHasTag a b => bin a b EHasTag
  | ELike a p => un a (fun x => ELike x p)
  | EIs a ty => un a (fun x => EIs x ty)
  | EIsIn a ty b =>
      (* partialIsIn: not strict in b — when the type test fails the result is false and b is never evaluated *)
      let mk := fun l : list expr => EIsIn (nth 0 l a) ty (nth 1 l b) in
      let finish (lft : expr) :=
          match embed (partial en b) b with
          | None => PIgnore
          | Some rgt => PNode (EIsIn lft ty rgt)
          end in
      match partial en a with
      | PVar lft => finish lft
      | PIgnore => PIgnore
      | PErr k => PErr k
      | PNode lft =>
          match lft with
          | ELit (VEntity t _) =>
              if negb (str_eqb t ty) then PNode (ELit (VBool false))
              else try_partial false [a; b] [partial en a; partial en b] mk ev
          | ELit _ => try_partial false [a; b] [partial en a; partial en b] mk ev
          | _ => finish lft
          end
      end
  | ECall n args => try_partial false args (List.map (partial en) args) (fun l => ECall n l) ev
  | ERecord kvs => try_partial false (List.map snd kvs) (List.map (fun kv => partial en (snd kv)) kvs)
                     (fun l => ERecord (combine (List.map fst kvs) l)) ev
  | ESet es => try_partial false es (List.map (partial en) es) (fun l => ESet l) ev
  | ENeg a => un a ENeg
  | ENot a => un a ENot
  | EIn a b => bin a b EIn
  | EEq a b => bin a b EEq | ENe a b => bin a b ENe
  | EGt a b => bin a b EGt | EGe a b => bin a b EGe | ELt a b => bin a b ELt | ELe a b => bin a b ELe
  | ESub a b => bin a b ESub | EAdd a b => bin a b EAdd | EMul a b => bin a b EMul
  | EContains a b => bin a b EContains | EContainsAll a b => bin a b EContainsAll | EContainsAny a b => bin a b EContainsAny
  | EIsEmpty a => un a EIsEmpty
  | EAnd a b =>
      let finish (lft : expr) :=
          match embed (partial en b) b with
          | None => PIgnore
          | Some rgt => PNode (EAnd lft rgt)
          end in
      match partial en a with
      | PVar lft => finish lft
      | PIgnore => PIgnore
      | PErr k => PErr k
      | PNode lft =>
          if is_nonbool_lit lft then PErr EType
          else if is_false_lit lft then PNode (ELit (VBool false))
          else if is_true_lit lft then
            try_partial false [ELit (VBool true); b] [PNode (ELit (VBool true)); partial en b]
                        (fun l => EAnd (nth 0 l (ELit (VBool true))) (nth 1 l b)) ev
          else finish lft
      end
  | EOr a b =>
      let finish (lft : expr) :=
          match embed (partial en b) b with
          | None => PIgnore
          | Some rgt => PNode (EOr lft rgt)
          end in
      match partial en a with
      | PVar lft => finish lft
      | PIgnore => PIgnore
      | PErr k => PErr k
      | PNode lft =>
          if is_nonbool_lit lft then PErr EType
          else if is_true_lit lft then PNode (ELit (VBool true))
          else if is_false_lit lft then
            try_partial false [ELit (VBool false); b] [PNode (ELit (VBool false)); partial en b]
                        (fun l => EOr (nth 0 l (ELit (VBool false))) (nth 1 l b)) ev
          else finish lft
      end
  | EIf c t f =>
      let finish (ifn : expr) :=
          match embed (partial en t) t with
          | None => PIgnore
          | Some tn => match embed (partial en f) f with
                       | None => PIgnore
                       | Some fn => PNode (EIf ifn tn fn)
                       end
          end in
      match partial en c with
      | PVar ifn => finish ifn
      | PIgnore => PIgnore
      | PErr k => PErr k
      | PNode ifn =>
          if is_nonbool_lit ifn then PErr EType
          else if is_true_lit ifn then partial en t
          else if is_false_lit ifn then partial en f
          else finish ifn
      end
  end.

(* partialScopeEval + partialPrincipal/Action/ResourceScope: Some s' = keep with scope s', None = drop *)
Definition scope_holds (st : store) (u : uid) (s : scope) : bool :=
  let srch o := match o with Some b => b | None => false end in
  match s with
  | SAll => true
  | SEq v => uid_eqb u v
  | SIn v => srch (in_one st u v)
  | SInSet vs => srch (in_set st u vs)
  | SIs ty => str_eqb (fst u) ty
  | SIsIn ty v => str_eqb (fst u) ty && srch (in_one st u v)
  end.

Definition partial_scope (st : store) (x : value) (s : scope) : option scope :=
  if is_variable x then Some s
  else if is_ignore x then Some SAll
  else match x with
       | VEntity t i => if scope_holds st (t, i) s then Some SAll else None
       | _ => Some s
       end.

(* the condition loop of PartialPolicy: conditions accumulated in reverse; None = drop the policy *)
Fixpoint partial_conds (en : env) (permit : bool) (cs : list (bool * expr)) (acc : list (bool * expr)) : option (list (bool * expr)) :=
  match cs with
  | [] => Some (rev acc)
  | (kind, body) :: cs' =>
    match partial en body with
    | PVar _ => partial_conds en permit cs' ((kind, body) :: acc)
    | PIgnore => if permit then partial_conds en permit cs' acc else None
    | PErr k => Some (rev ((kind, EPartialError k) :: acc))
    | PNode (ELit (VBool b)) => if Bool.eqb b kind then partial_conds en permit cs' acc else None
    | PNode (ELit _) => Some (rev ((kind, EPartialError EType) :: acc))
    | PNode n => partial_conds en permit cs' ((kind, n) :: acc)
    end
  end.

Definition partial_policy (en : env) (p : policy) : option policy :=
  match partial_scope (e_store en) (e_principal en) (p_principal p) with
  | None => None
  | Some sp =>
    match partial_scope (e_store en) (e_action en) (p_action p) with
    | None => None
    | Some sa =>
      match partial_scope (e_store en) (e_resource en) (p_resource p) with
      | None => None
      | Some sr =>
        match partial_conds en (p_effect p) (p_conds p) [] with
        | None => None
        | Some cs => Some {| p_effect := p_effect p; p_principal := sp; p_action := sa; p_resource := sr; p_conds := cs |}
        end
      end
    end
  end.
