(* types/ipaddr.go over net/netip.  netip is Go's standard library: its parsers are transcribed here
   (modelled, not verified); an address is an integer (32 or 128 bits) and a prefix length. *)
From Coq Require Import ZArith List Bool Lia.
Import ListNotations.
From Cedar Require Import Lang.Value Impl.Text.
Local Open Scope Z_scope.

(* ---- netip.parseIPv4Fields ---- *)
Fixpoint v4_loop (s : str) (first prevdot : bool) (val digLen pos acc : Z) : option Z :=
  match s with
  | [] => if pos <? 3 then None else if prevdot then None else Some (acc * 256 + val)
  | c :: s' =>
    if is_digit c then
      if (digLen =? 1) && (val =? 0) then None else
      let val' := val * 10 + digit_val c in
      if val' >? 255 then None else v4_loop s' false false val' (digLen + 1) pos acc
    else if c =? 46 then
      if first || prevdot || match s' with [] => true | _ => false end then None
      else if pos =? 3 then None
      else v4_loop s' false true 0 0 (pos + 1) (acc * 256 + val)
    else None
  end.

Definition parse_v4 (s : str) : option Z := v4_loop s true false 0 0 0 0.

(* ---- netip.parseIPv6 (zones and embedded IPv4 are rejected by types.ParseIPAddr) ---- *)
Definition hex_val (c : Z) : option Z :=
  if (48 <=? c) && (c <=? 57) then Some (c - 48)
  else if (97 <=? c) && (c <=? 102) then Some (c - 97 + 10)
  else if (65 <=? c) && (c <=? 70) then Some (c - 65 + 10)
  else None.

(* read up to 4 hex digits; returns (value, digits read, rest); a 5th hex digit is an error *)
Fixpoint hex_group (s : str) (acc : Z) (n : Z) : option (Z * Z * str) :=
  match s with
  | [] => Some (acc, n, [])
  | c :: s' =>
    match hex_val c with
    | Some h => if n >=? 4 then None else hex_group s' (acc * 16 + h) (n + 1)
    | None => Some (acc, n, s)
    end
  end.

(* state: groups read before the ellipsis (reversed), groups after it (reversed), whether an ellipsis was seen *)
Fixpoint v6_loop (fuel : nat) (s : str) (i : Z) (ell : bool) (before after : list Z) : option (Z * bool * list Z * list Z * str) :=
  match fuel with
  | O => Some (i, ell, before, after, s)
  | S fuel' =>
    if i >=? 8 then Some (i, ell, before, after, s) else
    match hex_group s 0 0 with
    | None => None
    | Some (acc, n, rest) =>
      if n =? 0 then None else
      match rest with
      | 46 :: _ => None                                   (* embedded IPv4 never admissible here *)
      | _ =>
        let before' := if ell then before else acc :: before in
        let after' := if ell then acc :: after else after in
        match rest with
        | [] => Some (i + 1, ell, before', after', [])
        | c :: r1 =>
          if negb (c =? 58) then None else
          match r1 with
          | [] => None
          | c2 :: r2 =>
            if c2 =? 58 then
              if ell then None else
              match r2 with
              | [] => Some (i + 1, true, before', after', [])
              | _ => v6_loop fuel' r2 (i + 1) true before' after'
              end
            else v6_loop fuel' r1 (i + 1) ell before' after'
          end
        end
      end
    end
  end.

Definition groups_to_Z (gs : list Z) : Z := fold_left (fun a g => a * 65536 + g) gs 0.

Definition parse_v6 (s : str) : option Z :=
  if 0 <? count_of 37 s then None else                      (* '%' : zone *)
  let '(s1, ell0) := match s with 58 :: 58 :: r => (r, true) | _ => (s, false) end in
  match s1, ell0 with
  | [], true => Some 0
  | _, _ =>
    match v6_loop 9 s1 0 ell0 [] [] with
    | None => None
    | Some (i, ell, before, after, rest) =>
      match rest with
      | _ :: _ => None
      | [] =>
        if i <? 8 then
          if negb ell then None
          else Some (groups_to_Z (rev before ++ repeat 0 (Z.to_nat (8 - i)) ++ rev after))
        else if ell then None
        else Some (groups_to_Z (rev before))
      end
    end
  end.

(* netip.ParseAddr: the first of '.', ':', '%' decides *)
Fixpoint addr_kind (s : str) : Z :=
  match s with
  | [] => 0
  | c :: s' => if c =? 46 then 4 else if c =? 58 then 6 else if c =? 37 then 0 else addr_kind s'
  end.

Definition parse_addr (s : str) : option (bool * Z) :=
  let k := addr_kind s in
  if k =? 4 then option_map (fun a => (false, a)) (parse_v4 s)
  else if k =? 6 then option_map (fun a => (true, a)) (parse_v6 s)
  else None.

(* netip.ParsePrefix *)
Definition parse_prefix (s : str) : option (bool * Z * Z) :=
  match last_index_of 47 s with
  | None => None
  | Some i =>
    match parse_addr (firstn i s) with
    | None => None
    | Some (v6, a) =>
      let bs := skipn (S i) s in
      match bs with
      | c :: _ :: _ => if (c <? 49) || (c >? 57) then None else
                       match parse_digits bs with
                       | Some b => if b >? (if v6 then 128 else 32) then None else Some (v6, a, b)
                       | None => None
                       end
      | _ => match parse_digits bs with
             | Some b => if b >? (if v6 then 128 else 32) then None else Some (v6, a, b)
             | None => None
             end
      end
    end
  end.

(* types.ParseIPAddr *)
Definition parse_ip (s : str) : option (bool * Z * Z) :=
  if (count_of 58 s >=? 2) && (count_of 46 s >=? 2) then None else
  match parse_prefix s with
  | Some p => Some p
  | None => match parse_addr s with
            | Some (v6, a) => Some (v6, a, if v6 then 128 else 32)
            | None => None
            end
  end.

(* ---- predicates ---- *)
Definition bitlen (v6 : bool) : Z := if v6 then 128 else 32.
(* top [bits] bits of an address *)
Definition top_bits (v6 : bool) (a bits : Z) : Z := a / 2 ^ (bitlen v6 - bits).
Definition masked (v6 : bool) (a bits : Z) : Z := top_bits v6 a bits * 2 ^ (bitlen v6 - bits).

Definition ip_is_loopback (v6 : bool) (a p : Z) : bool :=
  let m := masked v6 a p in
  if v6 then m =? 1 else (m / 16777216) =? 127.

Definition ip_is_multicast (v6 : bool) (a p : Z) : bool :=
  if v6 then ((a / 2 ^ 120) =? 255) && (p >=? 8)
  else ((a / 2 ^ 28) =? 14) && (p >=? 4).

(* i.Contains(o): o's address lies in i's prefix, and i is not longer than o *)
Definition ip_contains (v6 : bool) (a p : Z) (v6' : bool) (a' p' : Z) : bool :=
  Bool.eqb v6 v6' && (top_bits v6 a p =? top_bits v6 a' p) && (p <=? p').
