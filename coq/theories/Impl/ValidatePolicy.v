(* x/exp/schema/validate/policy.go + request_env.go: Validator.Policy - scope validation, action application, enumeration of the request
   environments from the schema's actions, filtering by the scope constraints, type checking of every condition in every remaining
   environment (Impl/TypeCheck.typeof).  Only the verdict (accept / reject) is modelled, not the messages.
   Go distinguishes nil slices ("no constraint") from empty ones: option lists here. *)
From Coq Require Import ZArith List Bool String.
Import ListNotations.
From Cedar Require Import Lang.Value Lang.Expr Impl.TypeCheck.
Local Open Scope Z_scope.

(* the appliesTo part of a resolved action: principal types, resource types, context record type; None = the action applies to nothing *)
Definition applies := option (list str * list str * list (str * (cty * bool))).

Section ValidatePolicy.
  Variable strict : bool.
  Variable sch : tschema.
  Variable acts : list (uid * applies).          (* resolved.Schema.Actions: every declared action once *)

  (* isKnownEntityType *)
  Definition known_ty (t : str) : bool :=
    match entity_of sch t with Some _ => true | None => smem t (ts_enums sch) end.

  (* validateScopeEntity / validateScopeType: Some = ok *)
  Definition scope_entity (u : uid) : bool :=
    known_ty (fst u) || (is_action_type (fst u) && umem u (ts_actions sch)).
  Definition scope_type (t : str) : bool := known_ty t.

  (* getEntityTypesIn: the target and every declared entity type with a path of parent types to it (used for membership only) *)
  Definition types_in (target : str) : list str :=
    target :: filter (fun n => is_descendant_ty sch n target) (map fst (ts_entities sch)).

  (* validatePrincipalScope / validateResourceScope: (constraint, ok); None = nil slice = no constraint *)
  Definition entity_scope (s : scope) : option (list str) * bool :=
    match s with
    | SAll => (None, true)
    | SEq u => if scope_entity u then (Some [fst u], true) else (Some [], false)
    | SIn u => if scope_entity u then (Some (types_in (fst u)), true) else (Some [], false)
    | SIs t => if scope_type t then (Some [t], true) else (Some [], false)
    | SIsIn t u =>
        if negb (scope_type t) then (Some [], false)
        else if negb (scope_entity u) then (Some [], false)
        else if smem t (types_in (fst u)) then (Some [t], true) else (Some [], true)
    | SInSet _ => (Some [], false)             (* not a principal / resource scope in the Go AST *)
    end.

  (* getActionsInSet *)
  Definition actions_in_set (us : list uid) : list uid :=
    flat_map (fun u => u :: filter (fun a => negb (uid_eqb a u) && fst (areach sch (S (List.length (ts_agraph sch))) a u [])) (map fst acts)) us.

  Definition declared (u : uid) : bool := umem u (map fst acts).

  (* validateAndGetActionUIDs *)
  Definition action_scope (s : scope) : option (list uid) * bool :=
    match s with
    | SAll => (None, true)
    | SEq u => (Some [u], declared u)
    | SIn u => (Some (actions_in_set [u]), declared u)
    | SInSet us => (Some (actions_in_set us), forallb declared us)
    | SIs _ | SIsIn _ _ => (Some [], false)    (* not an action scope in the Go AST *)
    end.

  Definition applies_of (u : uid) : option applies :=
    (fix go (l : list (uid * applies)) : option applies :=
       match l with [] => None | (a, ap) :: r => if uid_eqb a u then Some ap else go r end) acts.

  (* validateActionApplication *)
  Definition application_ok (pt rt : option (list str)) (au : option (list uid)) : bool :=
    match pt, rt, au with
    | None, None, None => true
    | _, _, _ =>
        let cands : option (list applies) :=
            match au with
            | None => Some (map snd acts)
            | Some us => (fix go (l : list uid) : option (list applies) :=
                            match l with
                            | [] => Some []
                            | u :: r => match applies_of u, go r with Some ap, Some rest => Some (ap :: rest) | _, _ => None end
                            end) us
            end in
        match cands with
        | None => false                                        (* hasUnknownAction *)
        | Some l =>
            existsb (fun ap : applies =>
                       match ap with
                       | None => false
                       | Some (ps, rs, _) =>
                           (match pt with None => true | Some l => existsb (fun t => smem t ps) l end) &&
                           (match rt with None => true | Some l => existsb (fun t => smem t rs) l end)
                       end) l
        end
    end.

  (* generateRequestEnvs *)
  Definition gen_envs : list tenv :=
    flat_map (fun a : uid * applies =>
                match snd a with
                | None => []
                | Some (ps, rs, ctx) =>
                    flat_map (fun p => map (fun r => {| tv_principal := p; tv_action := fst a; tv_resource := r; tv_context := ctx |}) rs) ps
                end) acts.

  (* filterEnvsForPolicy *)
  Definition env_matches (pt rt : option (list str)) (au : option (list uid)) (e : tenv) : bool :=
    (match pt with None => true | Some l => smem (tv_principal e) l end) &&
    (match rt with None => true | Some l => smem (tv_resource e) l end) &&
    (match au with None | Some [] => true | Some l => umem (tv_action e) l end).

  Definition is_bool_ty (t : cty) : bool := match t with CBool | CTrue | CFalse => true | _ => false end.

  (* typecheckConditions: every condition body has a Boolean type in every environment *)
  Definition conds_ok (envs : list tenv) (conds : list (bool * expr)) : bool :=
    forallb (fun c : bool * expr =>
               forallb (fun e => match typeof strict sch e (snd c) [] with TOk t _ => is_bool_ty t | _ => false end) envs) conds.

  (* Validator.Policy: true = no error *)
  Definition validate_policy (p : policy) : bool :=
    let '(pt, pok) := entity_scope (p_principal p) in
    let '(au, aok) := action_scope (p_action p) in
    let '(rt, rok) := entity_scope (p_resource p) in
    let app := application_ok pt rt au in
    let envs := filter (env_matches pt rt au) gen_envs in
    let empty_set_err := strict && match p_action p with SInSet [] => true | _ => false end in
    let cok := match envs with
               | [] => true
               | _ => match p_conds p with
                      | [] => true
                      | cs => if strict || app then conds_ok envs cs else true
                      end
               end in
    pok && aok && rok && app && negb empty_set_err && cok.
End ValidatePolicy.
