(* types/entity_uid.go: the text form of an entity uid outside policies.  EntityUID.String / MarshalCedar / MarshalBinary write
   Type, two colons, the quoted escaped id (rust.EscapeString, Impl/Quote.v); EntityUID.UnmarshalCedar / UnmarshalBinary is a parser of its own (it does not go
   through the policy parser): the type is everything before the FIRST occurrence of the three bytes colon colon double-quote (and must not be empty), the rest
   must start and end with a double quote, and what lies between is unquoted by rust.Unquote (nothing checks that it holds no bare quote). *)
From Coq Require Import ZArith List Bool.
Import ListNotations.
From Cedar Require Import Lang.Value Impl.Quote.
Local Open Scope Z_scope.

Fixpoint is_prefix (p s : str) : bool :=
  match p, s with
  | [], _ => true
  | x :: p', y :: s' => (x =? y) && is_prefix p' s'
  | _ :: _, [] => false
  end.

(* strings.Index *)
Fixpoint index_of (p s : str) : option nat :=
  if is_prefix p s then Some O else
  match s with
  | [] => None
  | _ :: s' => option_map S (index_of p s')
  end.

Definition uid_sep : str := [58; 58; 34].            (* colon colon double-quote *)

Definition parse_uid (s : str) : option uid :=
  match index_of uid_sep s with
  | Some (S n) =>
      let idx := S n in
      let typ := firstn idx s in
      let quoted := skipn (idx + 2) s in                 (* includes the leading quote *)
      match quoted with
      | 34 :: rest =>
          match rev rest with
          | 34 :: mid_rev => match unquote (rev mid_rev) false with Some (id, _) => Some (typ, id) | None => None end
          | _ => None                                     (* fewer than two bytes, or no closing quote *)
          end
      | _ => None
      end
  | _ => None                                             (* no separator, or an empty type *)
  end.

Section Print.
  Variable is_printable : Z -> bool.
  Variable is_gext : Z -> bool.
  Definition print_uid (u : uid) : str := fst u ++ [58; 58] ++ quote_string is_printable is_gext (snd u).
End Print.
