(* internal/parser/cedar_tokenize.go: nextToken and the scan* helpers, on top of Scanner.next. *)
From Coq Require Import ZArith List Bool String.
Import ListNotations.
From Cedar Require Import Base.Utf8 Lang.Value Impl.Scanner.
Local Open Scope Z_scope.

Inductive toktype := TEOF | TIdent | TInt | TReserved | TString | TOperator | TUnknown.

Record token := { t_type : toktype; t_off : Z; t_line : Z; t_col : Z; t_text : list Z }.

Definition reserved : list string := ["true"; "false"; "if"; "then"; "else"; "in"; "like"; "has"; "is"; "__cedar"]%string.
Definition is_reserved (t : list Z) : bool := existsb (fun k => str_eqb (s_of k) t) reserved.

Definition is_letter (c : Z) : bool := ((65 <=? c) && (c <=? 90)) || ((97 <=? c) && (c <=? 122)).
Definition is_num (c : Z) : bool := (48 <=? c) && (c <=? 57).
Definition is_ident_rune (c : Z) (first : bool) : bool := (c =? 95) || is_letter c || (is_num c && negb first).
Definition is_hex (c : Z) : bool := is_num c || ((97 <=? c) && (c <=? 102)) || ((65 <=? c) && (c <=? 70)).
Definition is_ws (c : Z) : bool := (c =? 9) || (c =? 10) || (c =? 13) || (c =? 32).

(* s.tokPos = -1: stop collecting token text (comments) *)
Definition token_stop (s : scanner) : scanner :=
  {| s_buf := s_buf s; s_pos := s_pos s; s_off := s_off s; s_line := s_line s; s_col := s_col s; s_lastLineLen := s_lastLineLen s;
     s_lastCharLen := s_lastCharLen s; s_tokBuf := s_tokBuf s; s_tokPos := None; s_tokEnd := s_tokEnd s;
     s_err := s_err s; s_rd := s_rd s |}.

(* The tokenizer only touches the scanner through these operations, so it is written over an abstract state type:
   it is instantiated below with the buffered scanner (Impl.Scanner) and, in the proofs, with a reader-free cursor
   over the whole byte string. *)
Section Tok.
  Variable scanner : Type.
  Variable nxt : scanner -> option (scanner * Z).      (* next(): None = the reader never delivers (out of fuel) *)
  Variable token_start token_stop set_err : scanner -> scanner.
  Variable token_position : scanner -> Z * Z * Z.
  Variable token_text : scanner -> list Z.
  Variable s_err : scanner -> bool.

  (* all loops are bounded by [fuel] characters; None = out of fuel (or the reader never delivers) *)
  Fixpoint scan_while (fuel : nat) (p : Z -> bool) (s : scanner) (ch : Z) : option (scanner * Z) :=
    match fuel with
    | O => None
    | S f => if p ch then match nxt s with Some (s', c) => scan_while f p s' c | None => None end else Some (s, ch)
    end.

  (* scanHexDigits(ch, min, max): consumes up to max hex digits; error if fewer than min *)
  Fixpoint scan_hex (n : nat) (maxd : nat) (s : scanner) (ch : Z) (count : nat) : option (scanner * Z * nat) :=
    match n with
    | O => Some (s, ch, count)
    | S n' => if Nat.ltb count maxd && is_hex ch
              then match nxt s with Some (s', c) => scan_hex n' maxd s' c (S count) | None => None end
              else Some (s, ch, count)
    end.

  Definition scan_escape (s : scanner) : option (scanner * Z) :=
    match nxt s with
    | None => None
    | Some (s1, ch) =>
      if existsb (Z.eqb ch) [110; 114; 116; 92; 48; 39; 34; 42] then nxt s1
      else if ch =? 120 then
        match nxt s1 with
        | None => None
        | Some (s2, c) => match scan_hex 3 2 s2 c 0 with
                          | None => None
                          | Some (s3, c', k) => Some (if Nat.ltb k 2 then set_err s3 else s3, c')
                          end
        end
      else if ch =? 117 then
        match nxt s1 with
        | None => None
        | Some (s2, c) =>
          if negb (c =? 123) then Some (set_err s2, c) else
          match nxt s2 with
          | None => None
          | Some (s3, c3) =>
            match scan_hex 7 6 s3 c3 0 with
            | None => None
            | Some (s4, c4, k) =>
              let s4' := if Nat.ltb k 1 then set_err s4 else s4 in
              if negb (c4 =? 125) then Some (set_err s4', c4) else nxt s4'
            end
          end
        end
      else Some (set_err s1, ch)
    end.

  (* scanString: after the opening quote; returns the state positioned ON the closing quote *)
  Fixpoint scan_string (fuel : nat) (s : scanner) (ch : Z) : option (scanner * Z) :=
    match fuel with
    | O => None
    | S f =>
      if ch =? 34 then Some (s, ch)
      else if (ch =? 10) || (ch <? 0) then Some (set_err s, ch)
      else if ch =? 92 then match scan_escape s with Some (s', c) => scan_string f s' c | None => None end
      else match nxt s with Some (s', c) => scan_string f s' c | None => None end
    end.

  Fixpoint scan_block_comment (fuel : nat) (s : scanner) (ch : Z) : option (scanner * Z) :=
    match fuel with
    | O => None
    | S f =>
      if ch <? 0 then Some (set_err s, ch)
      else match nxt s with
           | None => None
           | Some (s', c) => if (ch =? 42) && (c =? 47) then nxt s' else scan_block_comment f s' c
           end
    end.

  (* scanOperator(ch0, ch) *)
  Definition scan_operator (s : scanner) (ch0 ch : Z) : option (toktype * scanner * Z) :=
    let simple := existsb (Z.eqb ch0) [64; 46; 44; 59; 40; 41; 123; 125; 91; 93; 43; 45; 42] in
    if simple then Some (TOperator, s, ch)
    else if ch0 =? 58 then (if ch =? 58 then option_map (fun x => (TOperator, fst x, snd x)) (nxt s) else Some (TOperator, s, ch))
    else if (ch0 =? 33) || (ch0 =? 60) || (ch0 =? 62) then
      (if ch =? 61 then option_map (fun x => (TOperator, fst x, snd x)) (nxt s) else Some (TOperator, s, ch))
    else if ch0 =? 61 then (if ch =? 61 then option_map (fun x => (TOperator, fst x, snd x)) (nxt s) else Some (TUnknown, s, ch))
    else if ch0 =? 124 then (if ch =? 124 then option_map (fun x => (TOperator, fst x, snd x)) (nxt s) else Some (TUnknown, s, ch))
    else if ch0 =? 38 then (if ch =? 38 then option_map (fun x => (TOperator, fst x, snd x)) (nxt s) else Some (TUnknown, s, ch))
    else Some (TUnknown, s, ch).

  (* nextToken: [ch] is s.ch (the lookahead character); returns the token, the state and the new lookahead *)
  Fixpoint next_token (fuel : nat) (s : scanner) (ch : Z) : option (token * scanner * Z) :=
    match fuel with
    | O => None
    | S f =>
      match scan_while fuel is_ws s ch with
      | None => None
      | Some (s0, ch) =>
        let s1 := token_start s0 in
        let '(off, line, col) := token_position s1 in
        let finish (ty : toktype) (s' : scanner) (c : Z) :=
            let text := token_text s' in
            let ty2 := match ty with TIdent => if is_reserved text then TReserved else TIdent | _ => ty end in
            Some ({| t_type := ty2; t_off := off; t_line := line; t_col := col; t_text := text |}, s', c) in
        if ch =? rune_eof then finish TEOF s1 ch
        else if is_ident_rune ch true then
          match nxt s1 with
          | None => None
          | Some (s2, c) => match scan_while fuel (fun x => is_ident_rune x false) s2 c with
                            | Some (s3, c') => finish TIdent s3 c' | None => None end
          end
        else if is_num ch then
          match scan_while fuel is_num s1 ch with Some (s3, c') => finish TInt s3 c' | None => None end
        else if ch =? 34 then
          match nxt s1 with
          | None => None
          | Some (s2, c) =>
            match scan_string fuel s2 c with
            | None => None
            | Some (s3, _) => match nxt s3 with Some (s4, c') => finish TString s4 c' | None => None end
            end
          end
        else if ch =? 47 then
          match nxt s1 with
          | None => None
          | Some (s2, c) =>
            if c =? 47 then
              (* line comment: skip to end of line or EOF, then redo *)
              match nxt (token_stop s2) with
              | None => None
              | Some (s3, c3) =>
                match scan_while fuel (fun x => negb (x =? 10) && (0 <=? x)) s3 c3 with
                | Some (s4, c4) => next_token f s4 c4
                | None => None
                end
              end
            else if c =? 42 then
              match nxt (token_stop s2) with
              | None => None
              | Some (s3, c3) => match scan_block_comment fuel s3 c3 with Some (s4, c4) => next_token f s4 c4 | None => None end
              end
            else match scan_operator s2 ch c with Some (ty, s3, c') => finish ty s3 c' | None => None end
          end
        else
          match nxt s1 with
          | None => None
          | Some (s2, c) => match scan_operator s2 ch c with Some (ty, s3, c') => finish ty s3 c' | None => None end
          end
      end
    end.

  (* TokenizeReader: all tokens up to EOF, or None on a lexical / reader error (Some None) ... *)
  Fixpoint tokenize_loop (fuel : nat) (s : scanner) (ch : Z) (acc : list token) : option (option (list token)) :=
    match fuel with
    | O => None
    | S f =>
      match next_token fuel s ch with
      | None => None
      | Some (t, s', c) =>
        if s_err s' then Some None
        else match t_type t with
             | TEOF => Some (Some (rev (t :: acc)))
             | _ => tokenize_loop f s' c (t :: acc)
             end
      end
    end.
End Tok.

(* the whole pipeline: a reader -> tokens (Some (Some ts)), error (Some None), or out of fuel (None) *)
Definition tokenize (fuel bufLen : nat) (r : reader) : option (option (list token)) :=
  let nxt := next fuel bufLen in
  match nxt (init r) with
  | None => None
  | Some (s, ch) => tokenize_loop scanner nxt token_start token_stop set_err token_position token_text s_err fuel s ch []
  end.
