(* Model of cedar.Authorize (authorize.go) and batch.isAuthorized:
   one pass over the policies in iteration order, collecting forbids, permits, errors. *)
From Coq Require Import List Bool.
Import ListNotations.

Inductive effect := Permit | Forbid.
Inductive outcome := OTrue | OFalse | OErr.   (* BoolEvaler.Eval: (true,nil) | (false,nil) | (_,err) *)
Inductive decision := Allow | Deny.

Section Authorize.
  Variable P : Type.                 (* an (id, *Policy) pair as yielded by PolicyIterator.All *)
  Variable eff : P -> effect.
  Variable ev : P -> outcome.        (* po.eval.Eval(env) for the fixed env *)

  Record acc := { forbids : list P; permits : list P; errors : list P }.

  Definition step (a : acc) (p : P) : acc :=
    match ev p with
    | OErr => {| forbids := forbids a; permits := permits a; errors := errors a ++ [p] |}
    | OFalse => a
    | OTrue =>
      match eff p with
      | Forbid => {| forbids := forbids a ++ [p]; permits := permits a; errors := errors a |}
      | Permit => {| forbids := forbids a; permits := permits a ++ [p]; errors := errors a |}
      end
    end.

  Definition loop (ps : list P) : acc :=
    fold_left step ps {| forbids := []; permits := []; errors := [] |}.

  Record result := { dec : decision; reasons : list P; errs : list P }.

  Definition authorize (ps : list P) : result :=
    let a := loop ps in
    match forbids a with
    | _ :: _ => {| dec := Deny; reasons := forbids a; errs := errors a |}
    | [] =>
      match permits a with
      | _ :: _ => {| dec := Allow; reasons := permits a; errs := errors a |}
      | [] => {| dec := Deny; reasons := []; errs := errors a |}
      end
    end.

  (* ---- specification-side notions ---- *)
  Definition is_sat (p : P) : bool := match ev p with OTrue => true | _ => false end.
  Definition is_err (p : P) : bool := match ev p with OErr => true | _ => false end.
  Definition is_forbid (p : P) : bool := match eff p with Forbid => true | _ => false end.
  Definition is_permit (p : P) : bool := match eff p with Permit => true | _ => false end.
  Definition sat_forbid p := is_sat p && is_forbid p.
  Definition sat_permit p := is_sat p && is_permit p.
End Authorize.

Arguments forbids {P}. Arguments permits {P}. Arguments errors {P}.
Arguments dec {P}. Arguments reasons {P}. Arguments errs {P}.
