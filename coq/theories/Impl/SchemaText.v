(* x/exp/schema/internal/parser: the Cedar schema TEXT codec.
     token.go    lexer (newLexer, peek, advance, skipWhitespaceAndComments, scanIdent, scanString, next)
     parser.go   recursive descent producing x/exp/schema/ast values (ParseSchema and everything below)
     marshal.go  printer (MarshalSchema and everything below)
   The model follows the Go control flow function by function; every definition cites the Go function it mirrors.

   Shape of the model
   - The Go parser lexes on demand (parser.readToken -> lexer.next): the parser state [pst] is the current token plus the unread
     bytes (l.src[l.pos:]).  Positions (line, column, offset, file name) only occur in error messages and are not modelled;
     error messages are not modelled either: every `return ..., err` is [SErr].
   - Go maps (ast.Annotations, Entities, Enums, Actions, CommonTypes, Namespaces, RecordType) are key-sorted association lists
     (Lang/Value.v: rec_get / rec_insert / rec_of_list, byte order = Go string order = slices.Sorted(maps.Keys(..))).
     nil and empty maps / slices are identified (the parser's output and the printer's branches only use len(..) > 0 or != nil on
     values for which the two agree for everything a caller can build through x_schema; see [print_applies]).
   - The AST is Impl/SchemaJson.v's [x_schema]: the element named [] holds the bare declarations; [parse_schema] lists it only when
     it declares something (this is what harness/kinds_schemaast.go xschemaToSx shows of an ast.Schema).
   - Loops and the mutual recursion parseType / parseRecordType run on fuel.  Lexer loops get [S (length src)] locally (every
     iteration consumes a byte); the parser shares one fuel, decremented on every (re)entry of a recursive function;
     [parse_schema_fuel (length src)] is enough (every such entry is preceded by the consumption of a token, up to a constant).
     Out of fuel is [SFuel] (resp. [LFuel]), distinct from rejection.
   - Libraries: unicode/utf8.DecodeRune = Base/Utf8.decode_rune, `for _, r := range s` = Base/Utf8Enc.runes,
     internal/rust.Unquote = Impl/Quote.unquote, fmt's %x of a rune = Quote.hex_lower, cedarparser.IsReservedKeyword =
     Tokenizer.is_reserved.  With these NOTHING of the three files is outside the model: [SUnk] is part of the result type (the
     harness protocol has an `unmodelled` verdict) but no function below produces it. *)
From Coq Require Import ZArith List Bool String.
Import ListNotations.
From Cedar Require Import Base.Utf8 Base.Utf8Enc Lang.Value Impl.Tokenizer Impl.Quote Impl.PolicyJson Impl.SchemaJson.
Local Open Scope Z_scope.

(* ================================================================ token.go ================================================================ *)

(* tokenType *)
Inductive ttype := KEOF | KIdent | KString | KAt | KLBrace | KRBrace | KLBracket | KRBracket | KLAngle | KRAngle
                 | KLParen | KRParen | KComma | KSemicolon | KColon | KDoubleColon | KQuestion | KEquals | KReserved.
Scheme Equality for ttype.

(* token (Type, Text); Pos is not modelled *)
Record stok := { k_type : ttype; k_text : str }.

Inductive lres (A : Type) := LOk (a : A) | LErr | LFuel.
Arguments LOk {A}. Arguments LErr {A}. Arguments LFuel {A}.

(* lexer.peek on the unread bytes: -1 at the end, else the first rune (utf8.RuneError for an invalid encoding) *)
Definition lx_peek (s : str) : Z := match s with [] => -1 | _ => fst (decode_rune s) end.
(* the size lexer.advance moves by (0 at the end) *)
Definition lx_width (s : str) : nat := match s with [] => 0%nat | _ => snd (decode_rune s) end.
(* lexer.advance (line / col bookkeeping dropped) *)
Definition lx_advance (s : str) : str := skipn (lx_width s) s.
(* l.pos+1 < len(l.src) && l.src[l.pos+1] == c : a BYTE test *)
Definition byte1_is (s : str) (c : Z) : bool := match s with _ :: b :: _ => b =? c | _ => false end.

Definition is_space (r : Z) : bool := (r =? 32) || (r =? 9) || (r =? 13) || (r =? 10).

(* skipWhitespaceAndComments, line comment: for l.pos < len(l.src) && l.peek() != '\n' { l.advance() } *)
Fixpoint skip_line (fuel : nat) (s : str) : lres str :=
  match fuel with
  | O => LFuel
  | S f => match s with
           | [] => LOk s
           | _ => if lx_peek s =? 10 then LOk s else skip_line f (lx_advance s)
           end
  end.

(* skipWhitespaceAndComments, block comment after the opening "/*": runs to the first "*/"; the end of the input is an error *)
Fixpoint skip_block (fuel : nat) (s : str) : lres str :=
  match fuel with
  | O => LFuel
  | S f => match s with
           | [] => LErr
           | _ => if (lx_peek s =? 42) && byte1_is s 47 then LOk (lx_advance (lx_advance s)) else skip_block f (lx_advance s)
           end
  end.

(* skipWhitespaceAndComments *)
Fixpoint skip_ws (fuel : nat) (s : str) : lres str :=
  match fuel with
  | O => LFuel
  | S f =>
    match s with
    | [] => LOk s
    | _ =>
      let r := lx_peek s in
      if is_space r then skip_ws f (lx_advance s)
      else if (r =? 47) && byte1_is s 47 then
        match skip_line fuel (lx_advance (lx_advance s)) with LOk s' => skip_ws f s' | LErr => LErr | LFuel => LFuel end
      else if (r =? 47) && byte1_is s 42 then
        match skip_block fuel (lx_advance (lx_advance s)) with LOk s' => skip_ws f s' | LErr => LErr | LFuel => LFuel end
      else LOk s
    end
  end.

(* isIdentStart / isIdentContinue *)
Definition is_ident_start (r : Z) : bool := ((97 <=? r) && (r <=? 122)) || ((65 <=? r) && (r <=? 90)) || (r =? 95).
Definition is_ident_continue (r : Z) : bool := is_ident_start r || ((48 <=? r) && (r <=? 57)).

(* scanIdent: [start] is the input at the identifier's first byte, [n] the number of bytes taken so far (l.pos - start) *)
Fixpoint scan_ident_loop (fuel : nat) (start : str) (n : nat) (s : str) : lres (str * str) :=
  match fuel with
  | O => LFuel
  | S f => match s with
           | [] => LOk (firstn n start, s)
           | _ => if is_ident_continue (lx_peek s) then scan_ident_loop f start (n + lx_width s) (lx_advance s) else LOk (firstn n start, s)
           end
  end.
Definition scan_ident (fuel : nat) (s : str) : lres (str * str) := scan_ident_loop fuel s (lx_width s) (lx_advance s).

(* scanString: [start] is the input just after the opening quote, raw = l.src[start:l.pos] = firstn n start.
   The closing quote is the first double quote not preceded by an (unpaired) backslash; a newline before it, or the end of the input, is an
   error; the raw bytes then go through rust.Unquote(raw, false), whose failure is an error too. *)
Fixpoint scan_string_loop (fuel : nat) (start : str) (n : nat) (s : str) : lres (str * str) :=
  match fuel with
  | O => LFuel
  | S f =>
    match s with
    | [] => LErr                                                               (* unterminated string literal *)
    | _ =>
      let r := lx_peek s in
      if r =? 34 then
        match unquote (firstn n start) false with
        | Some (u, _) => LOk (u, lx_advance s)
        | None => LErr                                                         (* invalid string escape *)
        end
      else if r =? 10 then LErr
      else if r =? 92 then
        let s1 := lx_advance s in
        match s1 with
        | [] => LErr
        | _ => scan_string_loop f start (n + lx_width s + lx_width s1) (lx_advance s1)
        end
      else scan_string_loop f start (n + lx_width s) (lx_advance s)
    end
  end.
Definition scan_string (fuel : nat) (s : str) : lres (str * str) := let s1 := lx_advance s in scan_string_loop fuel s1 0 s1.

Definition mk_tok (ty : ttype) (text : str) : stok := {| k_type := ty; k_text := text |}.

(* lexer.next *)
Definition lex_next_fuel (fuel : nat) (s0 : str) : lres (stok * str) :=
  match skip_ws fuel s0 with
  | LErr => LErr
  | LFuel => LFuel
  | LOk s =>
    match s with
    | [] => LOk (mk_tok KEOF [], s)
    | _ =>
      let r := lx_peek s in
      if is_ident_start r then
        match scan_ident fuel s with
        | LOk (text, s') => LOk (mk_tok (if is_reserved text then KReserved else KIdent) text, s')
        | LErr => LErr
        | LFuel => LFuel
        end
      else if r =? 34 then
        match scan_string fuel s with
        | LOk (text, s') => LOk (mk_tok KString text, s')
        | LErr => LErr
        | LFuel => LFuel
        end
      else
        let s1 := lx_advance s in
        let one (ty : ttype) := LOk (mk_tok ty [r], s1) in
        if r =? 64 then one KAt
        else if r =? 123 then one KLBrace
        else if r =? 125 then one KRBrace
        else if r =? 91 then one KLBracket
        else if r =? 93 then one KRBracket
        else if r =? 60 then one KLAngle
        else if r =? 62 then one KRAngle
        else if r =? 40 then one KLParen
        else if r =? 41 then one KRParen
        else if r =? 44 then one KComma
        else if r =? 59 then one KSemicolon
        else if r =? 63 then one KQuestion
        else if r =? 61 then one KEquals
        else if r =? 58 then
          (if lx_peek s1 =? 58 then LOk (mk_tok KDoubleColon [58; 58], lx_advance s1) else one KColon)
        else LErr                                                              (* unexpected character *)
    end
  end.
Definition lex_next (s : str) : lres (stok * str) := lex_next_fuel (S (List.length s)) s.

(* ================================================================ parser.go ================================================================ *)

Inductive spres (A : Type) := SOk (a : A) | SErr | SFuel | SUnk.
Arguments SOk {A}. Arguments SErr {A}. Arguments SFuel {A}. Arguments SUnk {A}.

Definition sbind {A B} (r : spres A) (f : A -> spres B) : spres B :=
  match r with SOk a => f a | SErr => SErr | SFuel => SFuel | SUnk => SUnk end.
Local Notation "x <- e ;; f" := (sbind e (fun x => f)) (at level 61, e at next level, right associativity).
Local Notation "' p <- e ;; f" := (sbind e (fun p => f)) (at level 61, p pattern, e at next level, right associativity).

(* parser: the current token and the lexer's unread input *)
Record pst := { p_tok : stok; p_src : str }.

(* parser.readToken *)
Definition read_token (st : pst) : spres pst :=
  match lex_next (p_src st) with
  | LOk (t, s) => SOk {| p_tok := t; p_src := s |}
  | LErr => SErr
  | LFuel => SFuel
  end.

Definition is (st : pst) (ty : ttype) : bool := ttype_beq (k_type (p_tok st)) ty.
Definition txt (st : pst) : str := k_text (p_tok st).
Definition kw (st : pst) (s : string) : bool := str_eqb (s_of s) (txt st).

(* parser.expect *)
Definition expect (ty : ttype) (st : pst) : spres pst := if is st ty then read_token st else SErr.

(* `if p.tok.Type == tokenComma { readToken }` *)
Definition opt_comma (st : pst) : spres pst := if is st KComma then read_token st else SOk st.

Definition dcolon : str := [58; 58].
Definition has_key {A} (key : str) (m : list (str * A)) : bool := match rec_get key m with Some _ => true | None => false end.

(* reservedTypeNames *)
Definition reserved_type_names : list string := ["Bool"; "Boolean"; "Entity"; "Extension"; "Long"; "Record"; "Set"; "String"]%string.
Definition is_reserved_type_name (t : str) : bool := existsb (fun n => str_eqb (s_of n) t) reserved_type_names.

(* parseAnnotations: `@` key [ `(` string `)` ] ... ; the key may be an identifier or ANY reserved keyword; a missing value is the
   empty string; a repeated key is an error *)
Fixpoint parse_annotations (fuel : nat) (acc : annots) (st : pst) : spres (annots * pst) :=
  match fuel with
  | O => SFuel
  | S f =>
    if negb (is st KAt) then SOk (acc, st) else
    st1 <- read_token st ;;
    if negb (is st1 KIdent || is st1 KReserved) then SErr else
    let key := txt st1 in
    st2 <- read_token st1 ;;
    ' (value, st3) <- (if is st2 KLParen then
                         st3 <- read_token st2 ;;
                         if negb (is st3 KString) then SErr else
                         st4 <- read_token st3 ;;
                         st5 <- expect KRParen st4 ;;
                         SOk (txt st3, st5)
                       else SOk ([], st2)) ;;
    if has_key key acc then SErr else parse_annotations f (rec_insert key value acc) st3
  end.

(* the first token of parsePath / parsePathForRef: an identifier, or the reserved word __cedar *)
Definition path_start_ok (st : pst) : bool := is st KIdent || (is st KReserved && kw st "__cedar").

(* parsePath: IDENT { '::' IDENT } *)
Fixpoint path_rest (fuel : nat) (path : str) (st : pst) : spres (str * pst) :=
  match fuel with
  | O => SFuel
  | S f =>
    if negb (is st KDoubleColon) then SOk (path, st) else
    st1 <- read_token st ;;
    if negb (is st1 KIdent) then SErr else
    st2 <- read_token st1 ;;
    path_rest f (path ++ dcolon ++ txt st1) st2
  end.
Definition parse_path (fuel : nat) (st : pst) : spres (str * pst) :=
  if negb (path_start_ok st) then SErr else
  st1 <- read_token st ;;
  path_rest fuel (txt st) st1.

(* parsePathForRef: like parsePath, but a string after '::' ends the path: (path, string, qualified) *)
Fixpoint path_ref_rest (fuel : nat) (path : str) (st : pst) : spres (str * str * bool * pst) :=
  match fuel with
  | O => SFuel
  | S f =>
    if negb (is st KDoubleColon) then SOk (path, [], false, st) else
    st1 <- read_token st ;;
    if is st1 KString then (st2 <- read_token st1 ;; SOk (path, txt st1, true, st2))
    else if negb (is st1 KIdent) then SErr
    else st2 <- read_token st1 ;; path_ref_rest f (path ++ dcolon ++ txt st1) st2
  end.
Definition parse_path_for_ref (fuel : nat) (st : pst) : spres (str * str * bool * pst) :=
  if negb (path_start_ok st) then SErr else
  st1 <- read_token st ;;
  path_ref_rest fuel (txt st) st1.

(* parseIdents: IDENT { ',' IDENT } *)
Fixpoint idents_rest (fuel : nat) (acc : list str) (st : pst) : spres (list str * pst) :=
  match fuel with
  | O => SFuel
  | S f =>
    if negb (is st KComma) then SOk (acc, st) else
    st1 <- read_token st ;;
    if negb (is st1 KIdent) then SErr else
    st2 <- read_token st1 ;;
    idents_rest f (acc ++ [txt st1]) st2
  end.
Definition parse_idents (fuel : nat) (st : pst) : spres (list str * pst) :=
  if negb (is st KIdent) then SErr else
  st1 <- read_token st ;;
  idents_rest fuel [txt st] st1.

(* parseName: IDENT | __cedar | STR *)
Definition parse_name (st : pst) : spres (str * pst) :=
  if is st KIdent || (is st KReserved && kw st "__cedar") || is st KString
  then st1 <- read_token st ;; SOk (txt st, st1)
  else SErr.

(* parseNames: Name { ',' Name } *)
Fixpoint names_rest (fuel : nat) (acc : list str) (st : pst) : spres (list str * pst) :=
  match fuel with
  | O => SFuel
  | S f =>
    if negb (is st KComma) then SOk (acc, st) else
    st1 <- read_token st ;;
    ' (name, st2) <- parse_name st1 ;;
    names_rest f (acc ++ [name]) st2
  end.
Definition parse_names (fuel : nat) (st : pst) : spres (list str * pst) :=
  ' (name, st1) <- parse_name st ;;
  names_rest fuel [name] st1.

(* parseEntityTypes: Path | '[' [ Path { ',' Path } [','] ] ']' ; the loop after the '[' *)
Fixpoint entity_types_loop (fuel : nat) (acc : list str) (st : pst) : spres (list str * pst) :=
  match fuel with
  | O => SFuel
  | S f =>
    if is st KRBracket then (st1 <- read_token st ;; SOk (acc, st1)) else
    ' (path, st1) <- parse_path f st ;;
    if is st1 KComma then (st2 <- read_token st1 ;; entity_types_loop f (acc ++ [path]) st2)
    else if negb (is st1 KRBracket) then SErr
    else entity_types_loop f (acc ++ [path]) st1
  end.
Definition parse_entity_types (fuel : nat) (st : pst) : spres (list str * pst) :=
  if is st KLBracket then (st1 <- read_token st ;; entity_types_loop fuel [] st1)
  else ' (path, st1) <- parse_path fuel st ;; SOk ([path], st1).

(* parseQualName: STR | Path '::' STR | Path (a bare path is an action id, "::" included) ; ParentRef = (type or empty, id) *)
Definition parse_qual_name (fuel : nat) (st : pst) : spres ((str * str) * pst) :=
  if is st KString then (st1 <- read_token st ;; SOk (([], txt st), st1)) else
  ' (path, s, qualified, st1) <- parse_path_for_ref fuel st ;;
  if (qualified : bool) then SOk ((path, s), st1) else SOk (([], path), st1).

(* parseActionParents: QualName | '[' [ QualName { ',' QualName } [','] ] ']' *)
Fixpoint action_parents_loop (fuel : nat) (acc : list (str * str)) (st : pst) : spres (list (str * str) * pst) :=
  match fuel with
  | O => SFuel
  | S f =>
    if is st KRBracket then (st1 <- read_token st ;; SOk (acc, st1)) else
    ' (ref, st1) <- parse_qual_name f st ;;
    if is st1 KComma then (st2 <- read_token st1 ;; action_parents_loop f (acc ++ [ref]) st2)
    else if negb (is st1 KRBracket) then SErr
    else action_parents_loop f (acc ++ [ref]) st1
  end.
Definition parse_action_parents (fuel : nat) (st : pst) : spres (list (str * str) * pst) :=
  if is st KLBracket then (st1 <- read_token st ;; action_parents_loop fuel [] st1)
  else ' (ref, st1) <- parse_qual_name fuel st ;; SOk ([ref], st1).

(* parseType: '{' .. | 'Set' '<' Type '>' | Path (every path is an ast.TypeRef: the parser does not classify names)
   parseRecordType: '{' { Annotations Name ['?'] ':' Type [','] } '}' - the comma between attributes is OPTIONAL, and a repeated
   attribute name silently replaces the earlier one (rec[name] = ...) *)
Fixpoint parse_type (fuel : nat) (st : pst) {struct fuel} : spres (xty * pst) :=
  match fuel with
  | O => SFuel
  | S f =>
    if is st KLBrace then (' (fs, st1) <- parse_record_type f st ;; SOk (XRec fs, st1))
    else if is st KIdent && kw st "Set" then
      st1 <- read_token st ;;
      st2 <- expect KLAngle st1 ;;
      ' (elem, st3) <- parse_type f st2 ;;
      st4 <- expect KRAngle st3 ;;
      SOk (XSet elem, st4)
    else ' (path, st1) <- parse_path f st ;; SOk (XRef path, st1)
  end
with parse_record_type (fuel : nat) (st : pst) {struct fuel} : spres (xrec * pst) :=
  match fuel with
  | O => SFuel
  | S f => st1 <- expect KLBrace st ;; record_loop f [] st1
  end
with record_loop (fuel : nat) (rec : xrec) (st : pst) {struct fuel} : spres (xrec * pst) :=
  match fuel with
  | O => SFuel
  | S f =>
    if is st KRBrace then (st1 <- read_token st ;; SOk (rec, st1))
    else if is st KEOF then SErr
    else
      ' (an, st1) <- parse_annotations f [] st ;;
      ' (name, st2) <- parse_name st1 ;;
      ' (optional, st3) <- (if is st2 KQuestion then (st3 <- read_token st2 ;; SOk (true, st3)) else SOk (false, st2)) ;;
      st4 <- expect KColon st3 ;;
      ' (typ, st5) <- parse_type f st4 ;;
      st6 <- opt_comma st5 ;;
      record_loop f (rec_insert name (typ, optional, an) rec) st6
  end.

(* parseAppliesTo, the loop after the '{': principal / resource / context in any order, each at most once, commas optional;
   [pr] / [rs] / [cx] double as hasPrincipal / hasResource / hasContext (the lists are non-empty when present) *)
Fixpoint applies_loop (fuel : nat) (pr rs : option (list str)) (cx : option xty) (st : pst) : spres (x_applies * pst) :=
  match fuel with
  | O => SFuel
  | S f =>
    if is st KRBrace then
      match pr, rs with
      | Some p, Some r => st1 <- read_token st ;; SOk ({| xa_principals := p; xa_resources := r; xa_context := cx |}, st1)
      | _, _ => SErr
      end
    else if is st KEOF then SErr
    else if negb (is st KIdent) then SErr
    else if kw st "principal" then
      match pr with
      | Some _ => SErr
      | None =>
        st1 <- read_token st ;;
        st2 <- expect KColon st1 ;;
        ' (refs, st3) <- parse_entity_types f st2 ;;
        match refs with
        | [] => SErr
        | _ => st4 <- opt_comma st3 ;; applies_loop f (Some refs) rs cx st4
        end
      end
    else if kw st "resource" then
      match rs with
      | Some _ => SErr
      | None =>
        st1 <- read_token st ;;
        st2 <- expect KColon st1 ;;
        ' (refs, st3) <- parse_entity_types f st2 ;;
        match refs with
        | [] => SErr
        | _ => st4 <- opt_comma st3 ;; applies_loop f pr (Some refs) cx st4
        end
      end
    else if kw st "context" then
      match cx with
      | Some _ => SErr
      | None =>
        st1 <- read_token st ;;
        st2 <- expect KColon st1 ;;
        ' (ctx, st3) <- parse_type f st2 ;;
        st4 <- opt_comma st3 ;;
        applies_loop f pr rs (Some ctx) st4
      end
    else SErr
  end.
Definition parse_applies_to (fuel : nat) (st : pst) : spres (x_applies * pst) :=
  st1 <- expect KLBrace st ;; applies_loop fuel None None None st1.

(* the declarations collected so far (the ast.Schema behind the pointer, without Namespaces; an ast.Namespace with its annotations) *)
Definition empty_ns : x_ns := {| xs_annots := []; xs_entities := []; xs_enums := []; xs_commons := []; xs_actions := [] |}.
Definition set_entities (n : x_ns) (v : list (str * x_entity)) : x_ns :=
  {| xs_annots := xs_annots n; xs_entities := v; xs_enums := xs_enums n; xs_commons := xs_commons n; xs_actions := xs_actions n |}.
Definition set_enums (n : x_ns) (v : list (str * x_enum)) : x_ns :=
  {| xs_annots := xs_annots n; xs_entities := xs_entities n; xs_enums := v; xs_commons := xs_commons n; xs_actions := xs_actions n |}.
Definition set_commons (n : x_ns) (v : list (str * x_common)) : x_ns :=
  {| xs_annots := xs_annots n; xs_entities := xs_entities n; xs_enums := xs_enums n; xs_commons := v; xs_actions := xs_actions n |}.
Definition set_actions (n : x_ns) (v : list (str * x_action)) : x_ns :=
  {| xs_annots := xs_annots n; xs_entities := xs_entities n; xs_enums := xs_enums n; xs_commons := xs_commons n; xs_actions := v |}.
Definition set_annots (n : x_ns) (v : annots) : x_ns :=
  {| xs_annots := v; xs_entities := xs_entities n; xs_enums := xs_enums n; xs_commons := xs_commons n; xs_actions := xs_actions n |}.

(* `for _, name := range names { if declared { error }; m[name] = v }` with the names inserted so far visible to the test *)
Fixpoint add_entities (names : list str) (e : x_entity) (n : x_ns) : option x_ns :=
  match names with
  | [] => Some n
  | name :: r => if has_key name (xs_entities n) || has_key name (xs_enums n) then None
                 else add_entities r e (set_entities n (rec_insert name e (xs_entities n)))
  end.
Fixpoint add_enums (names : list str) (e : x_enum) (n : x_ns) : option x_ns :=
  match names with
  | [] => Some n
  | name :: r => if has_key name (xs_enums n) || has_key name (xs_entities n) then None
                 else add_enums r e (set_enums n (rec_insert name e (xs_enums n)))
  end.
Fixpoint add_actions (names : list str) (a : x_action) (n : x_ns) : option x_ns :=
  match names with
  | [] => Some n
  | name :: r => if has_key name (xs_actions n) then None
                 else add_actions r a (set_actions n (rec_insert name a (xs_actions n)))
  end.

(* parseEnumEntity, the loop after the '[': { STR [','] } ']' (no values at all is accepted) *)
Fixpoint enum_values_loop (fuel : nat) (acc : list str) (st : pst) : spres (list str * pst) :=
  match fuel with
  | O => SFuel
  | S f =>
    if is st KRBracket then (st1 <- read_token st ;; SOk (acc, st1)) else
    if negb (is st KString) then SErr else
    st1 <- read_token st ;;
    if is st1 KComma then (st2 <- read_token st1 ;; enum_values_loop f (acc ++ [txt st]) st2)
    else if negb (is st1 KRBracket) then SErr
    else enum_values_loop f (acc ++ [txt st]) st1
  end.
(* parseEnumEntity *)
Definition parse_enum_entity (fuel : nat) (an : annots) (names : list str) (n : x_ns) (st : pst) : spres (x_ns * pst) :=
  st1 <- expect KLBracket st ;;
  ' (values, st2) <- enum_values_loop fuel [] st1 ;;
  st3 <- expect KSemicolon st2 ;;
  match add_enums names {| xn_annots := an; xn_values := values |} n with
  | Some n' => SOk (n', st3)
  | None => SErr
  end.

(* parseEntity (after the keyword): Idents ( 'enum' ... | ['in' EntityTypes] [['='] RecordType] ['tags' Type] ';' ) *)
Definition parse_entity (fuel : nat) (an : annots) (n : x_ns) (st : pst) : spres (x_ns * pst) :=
  ' (names, st1) <- parse_idents fuel st ;;
  if is st1 KIdent && kw st1 "enum" then (st2 <- read_token st1 ;; parse_enum_entity fuel an names n st2) else
  ' (member_of, st2) <- (if is st1 KReserved && kw st1 "in" then (st2 <- read_token st1 ;; parse_entity_types fuel st2) else SOk ([], st1)) ;;
  ' (shape, st3) <- (if is st2 KEquals then
                       st3 <- read_token st2 ;; ' (fs, st4) <- parse_record_type fuel st3 ;; SOk (Some fs, st4)
                     else if is st2 KLBrace then
                       ' (fs, st4) <- parse_record_type fuel st2 ;; SOk (Some fs, st4)
                     else SOk (None, st2)) ;;
  ' (tags, st4) <- (if is st3 KIdent && kw st3 "tags" then
                      st4 <- read_token st3 ;; ' (t, st5) <- parse_type fuel st4 ;; SOk (Some t, st5)
                    else SOk (None, st3)) ;;
  st5 <- expect KSemicolon st4 ;;
  match add_entities names {| xe_annots := an; xe_parents := member_of; xe_shape := shape; xe_tags := tags |} n with
  | Some n' => SOk (n', st5)
  | None => SErr
  end.

(* parseAction (after the keyword): Names ['in' ActionParents] ['appliesTo' ..] ['attributes' '{' '}'] ';' *)
Definition parse_action (fuel : nat) (an : annots) (n : x_ns) (st : pst) : spres (x_ns * pst) :=
  ' (names, st1) <- parse_names fuel st ;;
  ' (member_of, st2) <- (if is st1 KReserved && kw st1 "in" then (st2 <- read_token st1 ;; parse_action_parents fuel st2) else SOk ([], st1)) ;;
  ' (applies, st3) <- (if is st2 KIdent && kw st2 "appliesTo" then
                         st3 <- read_token st2 ;; ' (at_, st4) <- parse_applies_to fuel st3 ;; SOk (Some at_, st4)
                       else SOk (None, st2)) ;;
  st4 <- (if is st3 KIdent && kw st3 "attributes" then
            st4 <- read_token st3 ;; st5 <- expect KLBrace st4 ;; expect KRBrace st5
          else SOk st3) ;;
  st5 <- expect KSemicolon st4 ;;
  match add_actions names {| xac_annots := an; xac_parents := member_of; xac_applies := applies |} n with
  | Some n' => SOk (n', st5)
  | None => SErr
  end.

(* parseTypeDecl (after the keyword): IDENT '=' Type ';' ; the name must not be one of reservedTypeNames *)
Definition parse_type_decl (fuel : nat) (an : annots) (n : x_ns) (st : pst) : spres (x_ns * pst) :=
  if negb (is st KIdent) then SErr else
  let name := txt st in
  if is_reserved_type_name name then SErr else
  st1 <- read_token st ;;
  st2 <- expect KEquals st1 ;;
  ' (typ, st3) <- parse_type fuel st2 ;;
  st4 <- expect KSemicolon st3 ;;
  if has_key name (xs_commons n) then SErr
  else SOk (set_commons n (rec_insert name {| xc_annots := an; xc_type := typ |} (xs_commons n)), st4).

(* parseDecl *)
Definition parse_decl (fuel : nat) (an : annots) (n : x_ns) (st : pst) : spres (x_ns * pst) :=
  if negb (is st KIdent) then SErr
  else if kw st "entity" then (st1 <- read_token st ;; parse_entity fuel an n st1)
  else if kw st "action" then (st1 <- read_token st ;; parse_action fuel an n st1)
  else if kw st "type" then (st1 <- read_token st ;; parse_type_decl fuel an n st1)
  else SErr.

(* strings.Split(path, "::") *)
Fixpoint split_dcolon (s cur : str) : list str :=
  match s with
  | [] => [cur]
  | c :: r =>
    match r with
    | c2 :: r2 => if (c =? 58) && (c2 =? 58) then cur :: split_dcolon r2 [] else split_dcolon r (cur ++ [c])
    | [] => split_dcolon r (cur ++ [c])
    end
  end.

(* parseNamespace, the loop after the '{': { Annotations Decl } '}' *)
Fixpoint namespace_loop (fuel : nat) (inner : x_ns) (st : pst) : spres (x_ns * pst) :=
  match fuel with
  | O => SFuel
  | S f =>
    if is st KRBrace then (st1 <- read_token st ;; SOk (inner, st1))
    else if is st KEOF then SErr
    else
      ' (an, st1) <- parse_annotations f [] st ;;
      ' (inner', st2) <- parse_decl f an inner st1 ;;
      namespace_loop f inner' st2
  end.
(* parseNamespace (after the keyword): Path '{' ... '}' ; no component of the path may be __cedar *)
Definition parse_namespace (fuel : nat) (an : annots) (st : pst) : spres (str * x_ns * pst) :=
  ' (path, st1) <- parse_path fuel st ;;
  if existsb (str_eqb (s_of "__cedar")) (split_dcolon path []) then SErr else
  st2 <- expect KLBrace st1 ;;
  ' (inner, st3) <- namespace_loop fuel empty_ns st2 ;;
  SOk (path, set_annots inner an, st3).

(* parseSchema: { Annotations ( 'namespace' Namespace | Decl ) } EOF ; [bare] = the schema's own declarations *)
Fixpoint schema_loop (fuel : nat) (bare : x_ns) (nss : list (str * x_ns)) (st : pst) : spres x_schema :=
  match fuel with
  | O => SFuel
  | S f =>
    if is st KEOF then SOk ((if has_decls bare then [([], bare)] else []) ++ nss) else
    ' (an, st1) <- parse_annotations f [] st ;;
    if is st1 KIdent && kw st1 "namespace" then
      st2 <- read_token st1 ;;
      ' (name, ns, st3) <- parse_namespace f an st2 ;;
      if has_key name nss then SErr else schema_loop f bare (rec_insert name ns nss) st3
    else
      ' (bare', st2) <- parse_decl f an bare st1 ;;
      schema_loop f bare' nss st2
  end.

(* enough fuel for an input of n bytes *)
Definition parse_schema_fuel (n : nat) : nat := 2 * n + 16.

(* ParseSchema (= Schema.UnmarshalCedar followed by Schema.AST) *)
Definition parse_schema (src : str) : spres x_schema :=
  st <- read_token {| p_tok := mk_tok KEOF []; p_src := src |} ;;
  schema_loop (parse_schema_fuel (List.length src)) empty_ns [] st.

(* ================================================================ marshal.go ================================================================ *)

(* marshaler.writeIndent *)
Definition tabs (ind : nat) : str := repeat 9 ind.

(* quoteCedar: backslash escapes for the double quote, the backslash, \n \r \t and \0 (NUL); printable ASCII as is; everything
   else (incl. U+FFFD for invalid bytes) as \u{hex} *)
Definition quote_cedar_rune (r : Z) : str :=
  if r =? 34 then [92; 34] else if r =? 92 then [92; 92] else if r =? 10 then [92; 110] else if r =? 13 then [92; 114]
  else if r =? 9 then [92; 116] else if r =? 0 then [92; 48]
  else if (32 <=? r) && (r <? 127) then [r]
  else [92; 117; 123] ++ hex_lower r ++ [125].
Definition quote_cedar (s : str) : str := [34] ++ flat_map quote_cedar_rune (runes s) ++ [34].

(* isValidIdent *)
Definition is_valid_ident (s : str) : bool :=
  match runes s with
  | [] => false
  | r :: rs => is_ident_start r && forallb is_ident_continue rs && negb (is_reserved s)
  end.

(* marshalActionName = marshalAttrName *)
Definition print_name (s : str) : str := if is_valid_ident s then s else quote_cedar s.

(* marshalAnnotations: one line per annotation in key order; an empty value prints as the bare key *)
Definition print_annotations (ind : nat) (a : annots) : str :=
  flat_map (fun kv : str * str =>
              tabs ind ++ [64] ++ fst kv ++ (match snd kv with [] => [] | v => [40] ++ quote_cedar v ++ [41] end) ++ [10])
           (rec_of_list a).

(* marshalRecordType on attributes whose types are already rendered as functions of the indentation *)
Fixpoint print_attrs (ind : nat) (l : list (str * ((nat -> str) * bool * annots))) : str :=
  match l with
  | [] => []
  | (key, (ty, opt, an)) :: r =>
      print_annotations ind an ++ tabs ind ++ print_name key ++ (if opt then [63] else []) ++ [58; 32] ++ ty ind
      ++ (match r with [] => [] | _ => [44] end) ++ [10] ++ print_attrs ind r
  end.
Definition print_record (ind : nat) (l : list (str * ((nat -> str) * bool * annots))) : str :=
  [123] ++ (match l with [] => [] | _ => [10] ++ print_attrs (S ind) l ++ tabs ind end) ++ [125].

(* shadowedBuiltins: the built-in type names that the schema also declares as an entity, enum or common type (in any namespace) *)
Definition builtin_type_names : list string := ["String"; "Long"; "Bool"; "ipaddr"; "decimal"; "datetime"; "duration"]%string.
Definition ns_declares (name : str) (n : x_ns) : bool :=
  existsb (fun kv => str_eqb (fst kv) name) (xs_entities n) || existsb (fun kv => str_eqb (fst kv) name) (xs_enums n)
  || existsb (fun kv => str_eqb (fst kv) name) (xs_commons n).
Definition shadowed_builtins (m : x_schema) (name : str) : bool :=
  existsb (fun b => str_eqb (s_of b) name) builtin_type_names && existsb (fun kv : str * x_ns => ns_declares name (snd kv)) m.
(* writeBuiltin: a shadowed built-in name is written __cedar::Name *)
Definition write_builtin (sh : str -> bool) (name : str) : str := (if sh name then s_of "__cedar::" else []) ++ name.

(* marshalType / marshalRecordType: the attributes are rendered first (structurally), then put in key order *)
Fixpoint print_type (sh : str -> bool) (t : xty) (ind : nat) : str :=
  match t with
  | XString => write_builtin sh (s_of "String")
  | XLong => write_builtin sh (s_of "Long")
  | XBool => write_builtin sh (s_of "Bool")
  | XExt n => write_builtin sh n
  | XSet e => s_of "Set<" ++ print_type sh e ind ++ [62]
  | XRec fs =>
      print_record ind (rec_of_list ((fix go (l : xrec) : list (str * ((nat -> str) * bool * annots)) :=
                                        match l with
                                        | [] => []
                                        | (key, (ty, opt, an)) :: r => (key, (print_type sh ty, opt, an)) :: go r
                                        end) fs))
  | XEnt r => r
  | XRef r => r
  end.

(* strings joined by ", " *)
Fixpoint join_comma (l : list str) : str :=
  match l with
  | [] => []
  | [x] => x
  | x :: r => x ++ [44; 32] ++ join_comma r
  end.

(* marshalEntityTypeRefs / marshalParentRefs: one element stands alone, otherwise a bracketed list *)
Definition print_list (l : list str) : str := match l with [x] => x | _ => [91] ++ join_comma l ++ [93] end.

(* marshalParentRef *)
Definition print_parent_ref (p : str * str) : str :=
  match fst p with [] => print_name (snd p) | ty => ty ++ dcolon ++ quote_cedar (snd p) end.

(* marshalAppliesTo; `at.Principals != nil` is "the list is not empty": a non-nil empty slice cannot be written in x_schema
   (nor built by the harness or the text parser; the JSON decoder can build one, it would print as `principal: []`) *)
Definition print_applies (sh : str -> bool) (ind : nat) (a : x_applies) : str :=
  let parts :=
      (match xa_principals a with [] => [] | l => [tabs (S ind) ++ s_of "principal: " ++ print_list l] end)
      ++ (match xa_resources a with [] => [] | l => [tabs (S ind) ++ s_of "resource: " ++ print_list l] end)
      ++ (match xa_context a with None => [] | Some t => [tabs (S ind) ++ s_of "context: " ++ print_type sh t (S ind)] end) in
  s_of " appliesTo {" ++ [10]
  ++ (fix go (l : list str) : str := match l with [] => [] | [x] => x ++ [10] | x :: r => x ++ [44; 10] ++ go r end) parts
  ++ tabs ind ++ [125].

(* marshalDecls: common types, entities, enums, actions, each in key order, separated by one empty line; [first] = *first *)
Definition print_common (sh : str -> bool) (ind : nat) (kv : str * x_common) : str :=
  print_annotations ind (xc_annots (snd kv)) ++ tabs ind ++ s_of "type " ++ fst kv ++ s_of " = " ++ print_type sh (xc_type (snd kv)) ind ++ [59; 10].
Definition print_entity (sh : str -> bool) (ind : nat) (kv : str * x_entity) : str :=
  let e := snd kv in
  print_annotations ind (xe_annots e) ++ tabs ind ++ s_of "entity " ++ fst kv
  ++ (match xe_parents e with [] => [] | l => s_of " in " ++ print_list l end)
  ++ (match xe_shape e with None => [] | Some fs => [32] ++ print_type sh (XRec fs) ind end)
  ++ (match xe_tags e with None => [] | Some t => s_of " tags " ++ print_type sh t ind end)
  ++ [59; 10].
Definition print_enum (ind : nat) (kv : str * x_enum) : str :=
  print_annotations ind (xn_annots (snd kv)) ++ tabs ind ++ s_of "entity " ++ fst kv ++ s_of " enum ["
  ++ join_comma (map quote_cedar (xn_values (snd kv))) ++ [93; 59; 10].
Definition print_action (sh : str -> bool) (ind : nat) (kv : str * x_action) : str :=
  let a := snd kv in
  print_annotations ind (xac_annots a) ++ tabs ind ++ s_of "action " ++ print_name (fst kv)
  ++ (match xac_parents a with [] => [] | l => s_of " in " ++ print_list (map print_parent_ref l) end)
  ++ (match xac_applies a with None => [] | Some ap => print_applies sh ind ap end)
  ++ [59; 10].

Definition decl_blocks (sh : str -> bool) (ind : nat) (n : x_ns) : list str :=
  map (print_common sh ind) (rec_of_list (xs_commons n)) ++ map (print_entity sh ind) (rec_of_list (xs_entities n))
  ++ map (print_enum ind) (rec_of_list (xs_enums n)) ++ map (print_action sh ind) (rec_of_list (xs_actions n)).

(* `if !*first { '\n' }; *first = false` in front of every block *)
Fixpoint join_blocks (first : bool) (l : list str) : str :=
  match l with
  | [] => []
  | b :: r => (if first then [] else [10]) ++ b ++ join_blocks false r
  end.

(* marshalSchema, one namespace *)
Definition print_namespace (sh : str -> bool) (kv : str * x_ns) : str :=
  print_annotations 0 (xs_annots (snd kv)) ++ s_of "namespace " ++ fst kv ++ s_of " {" ++ [10]
  ++ join_blocks true (decl_blocks sh 1 (snd kv)) ++ [125; 10].

(* MarshalSchema (= Schema.MarshalCedar of NewSchemaFromAST): the bare declarations (the element named [], a later one wins,
   its annotations are not part of the AST), then the namespaces in key order *)
Definition print_schema (s : x_schema) : str :=
  let m := rec_of_list s in
  let sh := shadowed_builtins m in
  let bare := match rec_get [] m with Some n => decl_blocks sh 0 n | None => [] end in
  let nss := filter (fun kv : str * x_ns => negb (is_nil (fst kv))) m in
  join_blocks true (bare ++ map (print_namespace sh) nss).
