(* internal/rust/rust.go: Unquote (string and pattern literals), EscapeString / EscapeCharAll; types.String.MarshalCedar,
   types.Pattern.MarshalCedar, internal/parser/pattern.go ParsePattern.
   The Unicode tables behind isPrintable / isGraphemeExtended are parameters: the round-trip theorems hold for ANY tables. *)
From Coq Require Import ZArith List Bool.
Import ListNotations.
From Cedar Require Import Base.Utf8 Base.Utf8Enc Lang.Value Impl.Like.
Local Open Scope Z_scope.

(* nextRune *)
Definition next_rune (b : list Z) : option (Z * list Z) :=
  let '(ch, w) := decode_rune b in
  if (ch =? rune_error) && Nat.leb w 1 then None else Some (ch, skipn w b).

Definition is_dec (ch : Z) : bool := (48 <=? ch) && (ch <=? 57).
(* lower(ch) = 0x20 | ch ; for the comparison with 'a'..'f' only the values 'A'..'F','a'..'f' qualify *)
Definition is_hexd (ch : Z) : bool := is_dec ch || ((97 <=? ch) && (ch <=? 102)) || ((65 <=? ch) && (ch <=? 70)).
Definition digit_val (ch : Z) : Z :=
  if is_dec ch then ch - 48 else if (97 <=? ch) && (ch <=? 102) then ch - 87 else if (65 <=? ch) && (ch <=? 70) then ch - 55 else 16.

Definition parse_hex_escape (b : list Z) : option (Z * list Z) :=
  match next_rune b with
  | None => None
  | Some (c1, b1) =>
    if negb (is_hexd c1) then None else
    match next_rune b1 with
    | None => None
    | Some (c2, b2) =>
      if negb (is_hexd c2) then None else
      let r := 16 * digit_val c1 + digit_val c2 in
      if 127 <? r then None else Some (r, b2)
    end
  end.

(* the digit loop of parseUnicodeEscape after the '{' *)
Fixpoint unicode_digits (fuel : nat) (b : list Z) (res : Z) (digits : nat) : option (Z * nat * list Z) :=
  match fuel with
  | O => None
  | S f =>
    match next_rune b with
    | None => None
    | Some (ch, b') =>
      if ch =? 125 then Some (res, digits, b')
      else if negb (is_hexd ch) then None
      else unicode_digits f b' (16 * res + digit_val ch) (S digits)
    end
  end.

Definition parse_unicode_escape (b : list Z) : option (Z * list Z) :=
  match next_rune b with
  | None => None
  | Some (ch, b1) =>
    if negb (ch =? 123) then None else
    match unicode_digits (S (length b1)) b1 0 0 with
    | None => None
    | Some (res, digits, b2) =>
      if Nat.eqb digits 0 || Nat.ltb 6 digits || negb (valid_rune res) then None else Some (res, b2)
    end
  end.

(* Unquote(b, star): the unquoted string (bytes) and the unconsumed rest (non-empty only when star and an unescaped '*' is met) *)
Fixpoint unquote_fuel (fuel : nat) (b : list Z) (star : bool) (acc : list Z) : option (list Z * list Z) :=
  match fuel with
  | O => None
  | S f =>
    match b with
    | [] => Some (acc, [])
    | _ =>
      match next_rune b with
      | None => None
      | Some (ch, b1) =>
        if star && (ch =? 42) then Some (acc, b)
        else if negb (ch =? 92) then unquote_fuel f b1 star (acc ++ encode_rune ch)
        else
          match next_rune b1 with
          | None => None
          | Some (e, b2) =>
            let lit (r : Z) := unquote_fuel f b2 star (acc ++ encode_rune r) in
            if e =? 110 then lit 10 else if e =? 114 then lit 13 else if e =? 116 then lit 9
            else if e =? 92 then lit 92 else if e =? 48 then lit 0 else if e =? 39 then lit 39 else if e =? 34 then lit 34
            else if e =? 120 then
              match parse_hex_escape b2 with Some (r, b3) => unquote_fuel f b3 star (acc ++ encode_rune r) | None => None end
            else if e =? 117 then
              match parse_unicode_escape b2 with Some (r, b3) => unquote_fuel f b3 star (acc ++ encode_rune r) | None => None end
            else if e =? 42 then (if star then lit 42 else None)
            else None
          end
      end
    end
  end.
Definition unquote (b : list Z) (star : bool) : option (list Z * list Z) := unquote_fuel (S (length b)) b star [].

(* strings.TrimPrefix / TrimSuffix of one double quote *)
Definition trim_quotes (s : list Z) : list Z :=
  let s1 := match s with 34 :: r => r | _ => s end in
  match rev s1 with 34 :: r => rev r | _ => s1 end.

(* Token.stringValue *)
Definition string_value (text : list Z) : option (list Z) :=
  match unquote (trim_quotes text) false with Some (s, _) => Some s | None => None end.

(* ParsePattern: raw components for NewPattern *)
Fixpoint strip_stars (fuel : nat) (b : list Z) (comps : list (option str)) : list Z * list (option str) :=
  match fuel, b with
  | S f, 42 :: b' => strip_stars f b' (comps ++ [None])
  | _, _ => (b, comps)
  end.
Fixpoint parse_pattern_fuel (fuel : nat) (b : list Z) (comps : list (option str)) : option (list (option str)) :=
  match fuel with
  | O => None
  | S f =>
    match b with
    | [] => Some comps
    | _ =>
      let '(b1, comps1) := strip_stars (length b) b comps in
      match unquote b1 true with
      | None => None
      | Some (lit, b2) => parse_pattern_fuel f b2 (comps1 ++ [Some lit])
      end
    end
  end.
Definition parse_pattern (v : list Z) : option pattern :=
  match parse_pattern_fuel (S (S (length v))) v [] with
  | None => None
  | Some [] => Some (compile_pattern [Some []])
  | Some comps => Some (compile_pattern comps)
  end.

(* ---- escaping ---- *)
Fixpoint hex_rev (fuel : nat) (z : Z) : list Z :=
  match fuel with
  | O => []
  | S f => let d := z mod 16 in
           let c := if d <? 10 then 48 + d else 87 + d in
           if z <? 16 then [c] else c :: hex_rev f (z / 16)
  end.
Definition hex_lower (z : Z) : list Z := rev (hex_rev 16 z).       (* fmt %x of a non-negative rune *)

Section Escape.
  Variable is_printable : Z -> bool.     (* rust.isPrintable: Unicode table *)
  Variable is_gext : Z -> bool.          (* rust.isGraphemeExtended: Unicode table *)

  Definition u_escape (r : Z) : list Z := [92; 117; 123] ++ hex_lower r ++ [125].

  Definition escape_rune (r : Z) (esc_gext : bool) : list Z :=
    if r =? 0 then [92; 48] else if r =? 9 then [92; 116] else if r =? 13 then [92; 114] else if r =? 10 then [92; 110]
    else if r =? 92 then [92; 92] else if r =? 34 then [92; 34] else if r =? 39 then [92; 39]
    else if esc_gext && is_gext r then u_escape r
    else if is_printable r then encode_rune r
    else u_escape r.

  (* EscapeString: the first rune escapes grapheme-extend characters, the others do not *)
  Definition escape_runes (rs : list Z) : list Z :=
    match rs with
    | [] => []
    | r :: rs' => escape_rune r true ++ flat_map (fun x => escape_rune x false) rs'
    end.
  Definition escape_string (s : list Z) : list Z := escape_runes (runes s).
  Definition escape_char_all (s : list Z) : list Z := flat_map (fun x => escape_rune x true) (runes s).

  (* types.String.MarshalCedar *)
  Definition quote_string (s : list Z) : list Z := [34] ++ escape_string s ++ [34].

  (* strings.ReplaceAll: every star becomes backslash star *)
  Definition escape_stars (q : list Z) : list Z := flat_map (fun c => if c =? 42 then [92; 42] else [c]) q.

  (* types.Pattern.MarshalCedar *)
  Definition quote_pattern (p : pattern) : list Z :=
    [34] ++ flat_map (fun c : pcomp => (if fst c then [42] else []) ++ escape_stars (escape_char_all (snd c))) p ++ [34].
End Escape.
