(* internal/json: the JSON (EST) codec of policies, on JSON trees (Base/Json.v).
   encode_* : exactly the tree json.Marshal produces (struct fields in declaration order, map keys sorted).
   decode_* : nodeJSON.UnmarshalJSON + ToNode on trees.  Go's struct decoding is modelled for exact-case keys; objects whose
              keys match a known key only up to case are outside the model (DUnk) and are not compared. *)
From Coq Require Import ZArith List Bool String.
Import ListNotations.
From Cedar Require Import Base.Int64 Base.Json Lang.Value Impl.Like Lang.Expr Impl.Eval Impl.Decimal Impl.ValueJson Impl.Parser.
Local Open Scope Z_scope.

Inductive dres (A : Type) := DOk (a : A) | DErr | DUnk | DFuel.     (* DUnk: outside the modelled domain; DFuel: out of fuel *)
Arguments DOk {A}. Arguments DErr {A}. Arguments DUnk {A}. Arguments DFuel {A}.

Definition k (s : string) : str := s_of s.
Definition obj1 (key : string) (v : json) : json := JObj [(k key, v)].

Definition is_key (key : str) (n : string) : bool := str_eqb (s_of n) key.

Section PolicyJson.
  Variable print_ip : bool -> Z -> Z -> str.
  Variable ord : list json -> list json.

  Definition enc_value := encode_value print_ip ord.
  Definition dec_value := decode_value.

  (* types.Pattern.MarshalJSON *)
  Definition enc_pattern (p : pattern) : json :=
    match p with
    | [] => JArr [obj1 "Literal" (JStr [])]
    | _ => JArr (flat_map (fun c : pcomp =>
                    (if fst c then [JStr (k "Wildcard")] else []) ++
                    (if negb (fst c) || negb (is_nil (snd c)) then [obj1 "Literal" (JStr (snd c))] else [])) p)
    end.

  Definition var_name (x : var) : str :=
    match x with VPrincipal => k "principal" | VAction => k "action" | VResource => k "resource" | VContext => k "context" end.

  Definition bin (key : string) (a b : json) : json := obj1 key (JObj [(k "left", a); (k "right", b)]).
  Definition una (key : string) (a : json) : json := obj1 key (JObj [(k "arg", a)]).

  Fixpoint enc_expr (e : expr) : json :=
    let fix go (l : list expr) : list json := match l with [] => [] | x :: r => enc_expr x :: go r end in
    let fix gokv (l : list (str * expr)) : list (str * json) := match l with [] => [] | (key, x) :: r => (key, enc_expr x) :: gokv r end in
    match e with
    | ELit (VDecimal z) => JObj [(k "decimal", JArr [obj1 "Value" (JStr (print_decimal z))])]
    | ELit (VIP v6 a p) => JObj [(k "ip", JArr [obj1 "Value" (JStr (print_ip v6 a p))])]
    | ELit v => obj1 "Value" (enc_value v)
    | EVar x => obj1 "Var" (JStr (var_name x))
    | ENot a => una "!" (enc_expr a) | ENeg a => una "neg" (enc_expr a) | EIsEmpty a => una "isEmpty" (enc_expr a)
    | EEq a b => bin "==" (enc_expr a) (enc_expr b) | ENe a b => bin "!=" (enc_expr a) (enc_expr b)
    | EIn a b => bin "in" (enc_expr a) (enc_expr b)
    | ELt a b => bin "<" (enc_expr a) (enc_expr b) | ELe a b => bin "<=" (enc_expr a) (enc_expr b)
    | EGt a b => bin ">" (enc_expr a) (enc_expr b) | EGe a b => bin ">=" (enc_expr a) (enc_expr b)
    | EAnd a b => bin "&&" (enc_expr a) (enc_expr b) | EOr a b => bin "||" (enc_expr a) (enc_expr b)
    | EAdd a b => bin "+" (enc_expr a) (enc_expr b) | ESub a b => bin "-" (enc_expr a) (enc_expr b) | EMul a b => bin "*" (enc_expr a) (enc_expr b)
    | EContains a b => bin "contains" (enc_expr a) (enc_expr b) | EContainsAll a b => bin "containsAll" (enc_expr a) (enc_expr b)
    | EContainsAny a b => bin "containsAny" (enc_expr a) (enc_expr b)
    | EGetTag a b => bin "getTag" (enc_expr a) (enc_expr b) | EHasTag a b => bin "hasTag" (enc_expr a) (enc_expr b)
    | EAccess a key => obj1 "." (JObj [(k "left", enc_expr a); (k "attr", JStr key)])
    | EHas a key => obj1 "has" (JObj [(k "left", enc_expr a); (k "attr", JStr key)])
    | ELike a p => obj1 "like" (JObj [(k "left", enc_expr a); (k "pattern", enc_pattern p)])
    | EIs a ty => obj1 "is" (JObj [(k "left", enc_expr a); (k "entity_type", JStr ty)])
    | EIsIn a ty b => obj1 "is" (JObj [(k "left", enc_expr a); (k "entity_type", JStr ty); (k "in", enc_expr b)])
    | EIf c t f => obj1 "if-then-else" (JObj [(k "if", enc_expr c); (k "then", enc_expr t); (k "else", enc_expr f)])
    | ESet es => obj1 "Set" (JArr (go es))
    | ERecord kvs => obj1 "Record" (JObj (rec_of_list (gokv kvs)))       (* a Go map: later duplicate wins, keys sorted *)
    | ECall name args => JObj [(name, JArr (go args))]
    | EPartialError _ => JNull
    end.

  Definition enc_uid (u : uid) : json := JObj [(k "type", JStr (fst u)); (k "id", JStr (snd u))].

  Definition enc_scope (s : scope) : json :=
    match s with
    | SAll => JObj [(k "op", JStr (k "All"))]
    | SEq u => JObj [(k "op", JStr (k "==")); (k "entity", enc_uid u)]
    | SIn u => JObj [(k "op", JStr (k "in")); (k "entity", enc_uid u)]
    | SInSet us => JObj ((k "op", JStr (k "in")) :: match us with [] => [] | _ => [(k "entities", JArr (map enc_uid us))] end)
    | SIs ty => JObj ((k "op", JStr (k "is")) :: match ty with [] => [] | _ => [(k "entity_type", JStr ty)] end)
    | SIsIn ty u => JObj ((k "op", JStr (k "is")) :: (match ty with [] => [] | _ => [(k "entity_type", JStr ty)] end)
                          ++ [(k "in", JObj [(k "entity", enc_uid u)])])
    end.

  Definition enc_policy (annots : list (str * str)) (p : policy) : json :=
    JObj ((match annots with [] => [] | _ => [(k "annotations", JObj (rec_of_list (map (fun kv : str * str => (fst kv, JStr (snd kv))) annots)))] end)
          ++ [(k "effect", JStr (if p_effect p then k "permit" else k "forbid"));
              (k "principal", enc_scope (p_principal p)); (k "action", enc_scope (p_action p)); (k "resource", enc_scope (p_resource p))]
          ++ (match p_conds p with [] => [] | cs =>
                [(k "conditions", JArr (map (fun c : bool * expr => JObj [(k "kind", JStr (if fst c then k "when" else k "unless")); (k "body", enc_expr (snd c))]) cs))] end)).

  (* ---- decoding ---- *)
  (* the typed fields of nodeJSON in the order ToNode examines them *)
  Definition node_keys : list string :=
    ["Value"; "Var"; "!"; "neg"; "=="; "!="; "in"; "<"; "<="; ">"; ">="; "&&"; "||"; "+"; "-"; "*"; "contains"; "containsAll"; "containsAny";
     "isEmpty"; "getTag"; "hasTag"; "."; "has"; "is"; "like"; "if-then-else"; "Set"; "Record"]%string.

  (* ASCII case folding is enough to decide "matches a known key up to case" for keys made of ASCII; keys with other characters that
     fold onto ASCII letters (dotless i, Kelvin sign, long s) are treated as outside the model *)
  Definition lower (c : Z) : Z := if (65 <=? c) && (c <=? 90) then c + 32 else c.
  Definition fold_eq (a b : str) : bool := str_eqb (map lower a) (map lower b).
  Definition exotic (s : str) : bool := existsb (fun c => 127 <? c) s.
  Definition known_exact (key : str) : bool := existsb (fun n => str_eqb (k n) key) node_keys.
  Definition known_fold (key : str) : bool := existsb (fun n => fold_eq (k n) key) node_keys.

  Definition members_exact (names : list string) (l : list (str * json)) : bool :=
    forallb (fun kv : str * json => existsb (fun n => str_eqb (k n) (fst kv)) names) l.
  Definition members_fold_only (names : list string) (l : list (str * json)) : bool :=
    existsb (fun kv : str * json => negb (existsb (fun n => str_eqb (k n) (fst kv)) names) && (existsb (fun n => fold_eq (k n) (fst kv)) names || exotic (fst kv))) l.

  (* encoding/json MERGES a repeated member into what an earlier occurrence decoded (for struct-typed targets), and decodes every typed
     member of a node object before ToNode picks one: objects with repeated keys at struct positions, and node objects with more than
     one member, are outside the model *)
  Definition has_dups (l : list (str * json)) : bool :=
    (fix go (l : list (str * json)) (seen : list str) : bool :=
       match l with [] => false | (key, _) :: r => existsb (str_eqb key) seen || go r (key :: seen) end) l [].

  (* a non-null member *)
  Definition field (key : string) (l : list (str * json)) : option json :=
    match jget (k key) l with Some JNull => None | x => x end.

  Definition dec_pattern (j : json) : dres pattern :=
    match j with
    | JArr [] => DErr
    | JArr l =>
        let comp (c : json) : option (option str) :=
            match c with
            | JStr s => if str_eqb s (k "Wildcard") then Some None else None
            | JObj [(key, JStr lit)] => if str_eqb key (k "Literal") then Some (Some lit) else None
            | _ => None
            end in
        match all_some (map comp l) with Some cs => DOk (compile_pattern cs) | None => DErr end
    | _ => DErr
    end.

  Definition dbind {A B} (x : dres A) (f : A -> dres B) : dres B := match x with DOk a => f a | DErr => DErr | DUnk => DUnk | DFuel => DFuel end.

  Fixpoint dall {A} (l : list (dres A)) : dres (list A) :=
    match l with
    | [] => DOk []
    | x :: r => dbind x (fun a => dbind (dall r) (fun rs => DOk (a :: rs)))
    end.

  Definition var_of_name (s : str) : option var := var_of s.

  Definition binop_of (key : str) : option (expr -> expr -> expr) :=
    if is_key key "==" then Some EEq else if is_key key "!=" then Some ENe else if is_key key "in" then Some EIn else if is_key key "<" then Some ELt else if is_key key "<=" then Some ELe
    else if is_key key ">" then Some EGt else if is_key key ">=" then Some EGe else if is_key key "&&" then Some EAnd else if is_key key "||" then Some EOr
    else if is_key key "+" then Some EAdd else if is_key key "-" then Some ESub else if is_key key "*" then Some EMul else if is_key key "contains" then Some EContains
    else if is_key key "containsAll" then Some EContainsAll else if is_key key "containsAny" then Some EContainsAny
    else if is_key key "getTag" then Some EGetTag else if is_key key "hasTag" then Some EHasTag else None.
  Definition unop_of (key : str) : option (expr -> expr) :=
    if is_key key "!" then Some ENot else if is_key key "neg" then Some ENeg else if is_key key "isEmpty" then Some EIsEmpty else None.

  (* the first typed field that is present (non-null), in ToNode's order *)
  Definition first_field (l : list (str * json)) : option (str * json) :=
    (fix go (names : list string) : option (str * json) :=
       match names with
       | [] => None
       | n :: r => match field n l with Some v => Some (k n, v) | None => go r end
       end) node_keys.

  Fixpoint dec_expr (fuel : nat) (j : json) {struct fuel} : dres expr :=
    match fuel with O => DFuel | S fuel' =>
    let dec_expr := dec_expr fuel' in
    let sub (names : list string) (v : json) (body : list (str * json) -> dres expr) : dres expr :=
        match v with
        | JObj m => if has_dups m then DUnk else if members_exact names m then body m else if members_fold_only names m then DUnk else DErr
        | _ => DErr
        end in
    let node (key : string) (m : list (str * json)) : dres expr :=
        match jget (k key) m with
        | Some (JObj _ as x) => dec_expr x
        | Some JNull | None => DErr           (* a zero nodeJSON: no field set, ExtensionCall empty *)
        | Some _ => DErr
        end in
    match j with
    | JObj l =>
      if Nat.ltb 1 (List.length l) then DUnk else
      if negb (forallb (fun kv : str * json => known_exact (fst kv)) l) then
        (* some key is not a typed field *)
        if existsb (fun kv : str * json => negb (known_exact (fst kv)) && (known_fold (fst kv) || exotic (fst kv))) l then DUnk
        else
          (* extension call object: every member must be an array of expression objects; exactly one distinct key *)
          match match l with [(name, JNull)] => [(name, JArr [])] | _ => l end with        (* a null array is an empty argument list *)
          | [(name, JArr args)] =>
              dbind (dall ((fix go (a : list json) : list (dres expr) := match a with [] => [] | x :: r => dec_expr x :: go r end) args)) (fun es =>
              match ext_lookup name with
              | None => DErr
              | Some (_, true) => match es with [] => DErr | _ => DOk (ECall name es) end
              | Some (_, false) => DOk (ECall name es)
              end)
          | [_] => DErr
          | _ => if Nat.ltb 1 (List.length l) then (if forallb (fun kv : str * json => match snd kv with JArr _ => true | _ => false end) l then DUnk else DErr) else DErr
          end
      else
        match first_field l with
        | None => DErr
        | Some (key, v) =>
          if str_eqb key (k "Value") then match dec_value v with Some x => DOk (ELit x) | None => DErr end
          else if str_eqb key (k "Var") then
            match v with JStr s => match var_of_name s with Some x => DOk (EVar x) | None => DErr end | _ => DErr end
          else match unop_of key with
          | Some f => sub ["arg"]%string v (fun m => dbind (node "arg"%string m) (fun a => DOk (f a)))
          | None =>
          match binop_of key with
          | Some f => sub ["left"; "right"]%string v (fun m => dbind (node "left"%string m) (fun a => dbind (node "right"%string m) (fun b => DOk (f a b))))
          | None =>
            if str_eqb key (k ".") || str_eqb key (k "has") then
              sub ["left"; "attr"]%string v (fun m =>
                dbind (node "left"%string m) (fun a =>
                match jget (k "attr") m with
                | Some (JStr s) => DOk (if str_eqb key (k ".") then EAccess a s else EHas a s)
                | None | Some JNull => DOk (if str_eqb key (k ".") then EAccess a [] else EHas a [])
                | Some _ => DErr
                end))
            else if str_eqb key (k "is") then
              sub ["left"; "entity_type"; "in"]%string v (fun m =>
                dbind (node "left"%string m) (fun a =>
                match jget (k "entity_type") m with
                | Some (JStr _) | None | Some JNull =>
                    let ty := match jget (k "entity_type") m with Some (JStr s) => s | _ => [] end in
                    match field "in" m with
                    | None => DOk (EIs a ty)
                    | Some (JObj _ as x) => dbind (dec_expr x) (fun b => DOk (EIsIn a ty b))
                    | Some _ => DErr
                    end
                | Some _ => DErr
                end))
            else if str_eqb key (k "like") then
              sub ["left"; "pattern"]%string v (fun m =>
                dbind (node "left"%string m) (fun a =>
                match jget (k "pattern") m with
                | Some p => dbind (dec_pattern p) (fun pat => DOk (ELike a pat))
                | None => DOk (ELike a [])              (* zero Pattern *)
                end))
            else if str_eqb key (k "if-then-else") then
              sub ["if"; "then"; "else"]%string v (fun m =>
                dbind (node "if"%string m) (fun c => dbind (node "then"%string m) (fun t => dbind (node "else"%string m) (fun f => DOk (EIf c t f)))))
            else if str_eqb key (k "Set") then
              match v with
              | JArr args => dbind (dall ((fix go (a : list json) : list (dres expr) := match a with [] => [] | x :: r => dec_expr x :: go r end) args))
                                   (fun es => DOk (ESet es))
              | _ => DErr
              end
            else if str_eqb key (k "Record") then
              match v with
              | JObj m =>
                  dbind (dall ((fix go (a : list (str * json)) : list (dres (str * expr)) :=
                                  match a with
                                  | [] => []
                                  | (key', JNull) :: r => DErr :: go r
                                  | (key', x) :: r => dbind (dec_expr x) (fun e => DOk (key', e)) :: go r
                                  end) (rec_of_list m)))
                        (fun kvs => DOk (ERecord kvs))
              | _ => DErr
              end
            else DErr
          end end
        end
    | _ => DErr
    end
    end.

  (* nesting depth of a JSON tree: enough fuel for dec_expr *)
  Fixpoint jdepth (j : json) : nat :=
    match j with
    | JArr l => S (fold_right (fun x acc => Nat.max (jdepth x) acc) 0%nat l)
    | JObj l => S ((fix go (l : list (str * json)) : nat := match l with [] => 0%nat | (_, x) :: r => Nat.max (jdepth x) (go r) end) l)
    | _ => 1%nat
    end.
  Definition decode_expr (j : json) : dres expr := dec_expr (S (jdepth j)) j.

  (* a struct decoded by encoding/json without DisallowUnknownFields: unknown members are ignored; members that match a field only up
     to case are outside the model *)
  Definition struct_ok (names : list string) (l : list (str * json)) : bool := negb (members_fold_only names l).

  (* string field: absent or null = "" *)
  Definition sfield (key : string) (l : list (str * json)) : dres str :=
    match jget (k key) l with None | Some JNull => DOk [] | Some (JStr s) => DOk s | Some _ => DErr end.

  (* ImplicitlyMarshaledEntityUID: a plain struct {Type, ID} *)
  Definition dec_uid (j : json) : dres uid :=
    match j with
    | JNull => DOk ([], [])
    | JObj m => if has_dups m then DUnk else if struct_ok ["type"; "id"]%string m then dbind (sfield "type" m) (fun t => dbind (sfield "id" m) (fun i => DOk (t, i))) else DUnk
    | _ => DErr
    end.

  Definition scope_fields : list string := ["op"; "entity"; "entities"; "entity_type"; "in"]%string.

  Definition dec_scope (action : bool) (j : json) : dres scope :=
    match j with
    | JObj m =>
      if has_dups m || negb (struct_ok scope_fields m) then DUnk else
      dbind (sfield "op" m) (fun op =>
      dbind (sfield "entity_type" m) (fun ty =>
      let entity : dres (option uid) := match field "entity" m with None => DOk None | Some x => dbind (dec_uid x) (fun u => DOk (Some u)) end in
      let entities : dres (list uid) := match field "entities" m with None => DOk [] | Some (JArr l) => dall (map dec_uid l) | Some _ => DErr end in
      let inn : dres (option uid) :=
          match field "in" m with
          | None => DOk None
          | Some (JObj mi) => if has_dups mi then DUnk else if struct_ok ["entity"]%string mi then
                                match field "entity" mi with None => DOk (Some ([], [])) | Some x => dbind (dec_uid x) (fun u => DOk (Some u)) end
                              else DUnk
          | Some _ => DErr
          end in
      dbind entity (fun e => dbind entities (fun es => dbind inn (fun i =>
      if is_key op "All" then DOk SAll
      else if is_key op "==" then match e with Some u => DOk (SEq u) | None => DErr end
      else if is_key op "in" then
        match e with
        | Some u => DOk (SIn u)
        | None => if action then DOk (SInSet es) else DErr
        end
      else if is_key op "is" then
        if action then DErr else match i with None => DOk (SIs ty) | Some u => DOk (SIsIn ty u) end
      else DErr)))))
    | _ => DErr
    end.

  Definition policy_fields : list string := ["annotations"; "effect"; "principal"; "action"; "resource"; "conditions"]%string.

  (* any object with a repeated key, anywhere in the document *)
  Fixpoint any_dups (fuel : nat) (j : json) : bool :=
    match fuel with
    | O => true
    | S f =>
      match j with
      | JArr l => existsb (any_dups f) l
      | JObj l => has_dups l || existsb (fun kv : str * json => any_dups f (snd kv)) l
      | _ => false
      end
    end.

  Definition dec_policy (j : json) : dres (list (str * str) * policy) :=
    if any_dups (S (jdepth j)) j then DUnk else
    match j with
    | JObj m =>
      if has_dups m || negb (struct_ok policy_fields m) then DUnk else
      dbind (sfield "effect" m) (fun eff =>
      let annots : dres (list (str * str)) :=
          match field "annotations" m with
          | None => DOk []
          | Some (JObj am) => dbind (dall (map (fun kv : str * json => match snd kv with JStr v => DOk (fst kv, v) | JNull => DOk (fst kv, []) | _ => DErr end) am))
                                    (fun kvs => DOk (rec_of_list kvs))
          | Some _ => DErr
          end in
      let scope_of (key : string) (action : bool) : dres scope :=
          match field key m with None => dec_scope action (JObj []) | Some x => dec_scope action x end in
      let conds : dres (list (bool * expr)) :=
          match field "conditions" m with
          | None => DOk []
          | Some (JArr cs) =>
              dall (map (fun c => match c with
                                  | JObj cm => if has_dups cm || negb (struct_ok ["kind"; "body"]%string cm) then DUnk else
                                               dbind (sfield "kind" cm) (fun kind =>
                                               dbind (match jget (k "body") cm with Some (JObj _ as b) => decode_expr b | _ => DErr end) (fun body =>
                                               if is_key kind "when" then DOk (true, body) else if is_key kind "unless" then DOk (false, body) else DErr))
                                  | _ => DErr
                                  end) cs)
          | Some _ => DErr
          end in
      dbind annots (fun a =>
      if negb (is_key eff "permit" || is_key eff "forbid") then
        (* json.Unmarshal of the whole document comes first: structural errors anywhere win over the effect check *)
        dbind (scope_of "principal"%string false) (fun _ => dbind (scope_of "action"%string true) (fun _ => dbind (scope_of "resource"%string false) (fun _ => dbind conds (fun _ => DErr))))
      else
      dbind (scope_of "principal"%string false) (fun sp => dbind (scope_of "action"%string true) (fun sa => dbind (scope_of "resource"%string false) (fun sr => dbind conds (fun cs =>
      DOk (a, {| p_effect := is_key eff "permit"; p_principal := sp; p_action := sa; p_resource := sr; p_conds := cs |})))))))
    | _ => DErr
    end.

  (* ---- policy sets: policy_set.go MarshalJSON / UnmarshalJSON over internal/json PolicySetJSON {"staticPolicies": {id: policy}} ---- *)
  Definition enc_policy_set (ps : list (str * (list (str * str) * policy))) : json :=
    JObj [(k "staticPolicies", JObj (rec_of_list (map (fun ip => (fst ip, enc_policy (fst (snd ip)) (snd (snd ip)))) ps)))].

  (* a null policy is rejected by name; anything else is Policy.UnmarshalJSON *)
  Definition dec_policy_set (j : json) : dres (list (str * (list (str * str) * policy))) :=
    if any_dups (S (jdepth j)) j then DUnk else
    match j with
    | JNull => DOk []
    | JObj m =>
        if negb (struct_ok ["staticPolicies"]%string m) then DUnk else
        match jget (k "staticPolicies") m with
        | None | Some JNull => DOk []
        | Some (JObj pm) =>
            dbind (dall (map (fun kv : str * json => match snd kv with
                                                      | JNull => DErr
                                                      | x => dbind (dec_policy x) (fun ap => DOk (fst kv, ap))
                                                      end) pm))
                  (fun l => DOk (rec_of_list l))
        | Some _ => DErr
        end
    | _ => DErr
    end.
End PolicyJson.
