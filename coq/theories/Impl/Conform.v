(* x/exp/schema/validate/check_value.go, entity.go, request.go: the conformance checkers - does a value inhabit a declared type, does an
   entity / an entity store / a request conform to the schema.  They are what stands between the soundness theorem of C15 (whose
   hypotheses env_ok / actions_conform / store_types_known / request_env SPECIFY conformance) and the data a caller actually passes.
   Verdicts only (conforms or not): which of several violations is reported, and whether it is classed as a deserialization or a
   conformance error, depends on Go's map iteration order.
   Types are the declared types of a resolved schema (Impl/TypeCheck.v cty: CBool, CLong, CString, CSet, CRec, CEnt [one name], CExt);
   `enums` lists the enumerated entity types with their declared ids (tschema keeps their names only); `acts` is resolved.Schema.Actions
   as in Impl/ValidatePolicy.v. *)
From Coq Require Import ZArith List Bool String.
Import ListNotations.
From Cedar Require Import Lang.Value Lang.Expr Impl.TypeCheck Impl.ValidatePolicy.
Local Open Scope Z_scope.

(* checkValue / checkRecord / checkExtensionValue *)
Fixpoint check_value (t : cty) (v : value) {struct t} : bool :=
  match t with
  | CString => match v with VString _ => true | _ => false end
  | CLong => match v with VLong _ => true | _ => false end
  | CBool => match v with VBool _ => true | _ => false end
  | CEnt [x] => match v with VEntity ty _ => str_eqb ty x | _ => false end
  | CEnt _ => false                                           (* not a declared type *)
  | CSet e => match v with VSet l => forallb (check_value e) l | _ => false end
  | CRec attrs =>
      match v with
      | VRecord kvs =>
          (* every declared attribute: present with a value of its type, or absent and optional *)
          (fix each (l : list (str * (cty * bool))) : bool :=
             match l with
             | [] => true
             | (name, (t', req)) :: r =>
                 (match rec_get name kvs with Some x => check_value t' x | None => negb req end) && each r
             end) attrs &&
          (* closed: no other attribute *)
          forallb (fun kv : str * value => match alookup (fst kv) attrs with Some _ => true | None => false end) kvs
      | _ => false
      end
  | CExt n =>
      if nm n "ipaddr" then match v with VIP _ _ _ => true | _ => false end
      else if nm n "decimal" then match v with VDecimal _ => true | _ => false end
      else if nm n "datetime" then match v with VDatetime _ => true | _ => false end
      else if nm n "duration" then match v with VDuration _ => true | _ => false end
      else true                                               (* an extension type the code does not know: nothing is checked *)
  | _ => true                                                 (* CNever / CTrue / CFalse are not declared types: the Go switch has no such case *)
  end.
Definition check_record (attrs : list (str * (cty * bool))) (kvs : list (str * value)) : bool := check_value (CRec attrs) (VRecord kvs).

Section Conform.
  Variable sch : tschema.
  Variable enums : list (str * list str).        (* enumerated entity types with their declared ids *)
  Variable acts : list (uid * applies).

  (* validateActionEntity: the transitive closure of the declared parents, by the same depth-first walk with one visited set *)
  Fixpoint cwalk (fuel : nat) (u : uid) (closure : list uid) : list uid :=
    match fuel with
    | O => closure
    | S f =>
      if umem u closure then closure
      else fold_left (fun acc p => cwalk f p acc) (match aparents sch u with Some ps => ps | None => [] end) (u :: closure)
    end.
  Definition action_closure (u : uid) : list uid :=
    fold_left (fun acc p => cwalk (S (S (List.length (ts_agraph sch)))) p acc) (match aparents sch u with Some ps => ps | None => [] end) [].

  Definition check_action_entity (ue : uid * entity) : bool :=
    umem (fst ue) (ts_actions sch) &&
    match e_attrs (snd ue) with [] => true | _ => false end &&
    match e_tags (snd ue) with [] => true | _ => false end &&
    (let cl := action_closure (fst ue) in
     forallb (fun p => umem p cl) (e_parents (snd ue)) && forallb (fun p => umem p (e_parents (snd ue))) cl).

  (* validateEntity *)
  Definition check_declared_entity (te : tentity) (e : entity) : bool :=
    forallb (fun p : uid => smem (fst p) (te_parents te)) (e_parents e) &&
    check_record (te_shape te) (e_attrs e) &&
    match te_tags te with
    | None => match e_tags e with [] => true | _ => false end
    | Some tg => forallb (fun kv : str * value => check_value tg (snd kv)) (e_tags e)
    end.

  (* Validator.Entity *)
  Definition check_entity (ue : uid * entity) : bool :=
    let u := fst ue in let e := snd ue in
    if is_action_type (fst u) then check_action_entity ue
    else match entity_of sch (fst u) with
         | Some te => check_declared_entity te e
         | None =>
             match alookup (fst u) enums with
             | Some ids => smem (snd u) ids &&
                           match e_parents e, e_attrs e, e_tags e with [], [], [] => true | _, _, _ => false end
             | None => false
             end
         end.

  (* Validator.Entities *)
  Definition check_entities (st : store) : bool := forallb check_entity st.

  (* Validator.Request *)
  Definition check_request (p a r : uid) (ctx : list (str * value)) : bool :=
    match applies_of acts a with
    | Some (Some (ps, rs, cty_ctx)) =>
        known_ty sch (fst p) && smem (fst p) ps && known_ty sch (fst r) && smem (fst r) rs && check_record cty_ctx ctx
    | _ => false
    end.
End Conform.
