(* types/datetime.go: ParseDatetime, Datetime.String.  time.Date / time.UnixMilli are Go's standard
   library: modelled here by the proleptic Gregorian calendar (days_from_civil / civil_from_days). *)
From Coq Require Import ZArith List Bool Lia.
Import ListNotations.
From Cedar Require Import Base.Int64 Lang.Value Impl.Text Generated.Tables.
Local Open Scope Z_scope.

(* days since 1970-01-01 of the civil date y-m-d (m in 1..12, d in 1..31) *)
Definition days_from_civil (y m d : Z) : Z :=
  let y' := if m <=? 2 then y - 1 else y in
  let era := y' / 400 in
  let yoe := y' - era * 400 in
  let mp := (m + 9) mod 12 in
  let doy := (153 * mp + 2) / 5 + d - 1 in
  let doe := yoe * 365 + yoe / 4 - yoe / 100 + doy in
  era * 146097 + doe - 719468.

Definition civil_from_days (z : Z) : Z * Z * Z :=
  let z' := z + 719468 in
  let era := z' / 146097 in
  let doe := z' - era * 146097 in
  let yoe := (doe - doe / 1460 + doe / 36524 - doe / 146096) / 365 in
  let y := yoe + era * 400 in
  let doy := doe - (365 * yoe + yoe / 4 - yoe / 100) in
  let mp := (5 * doy + 2) / 153 in
  let d := doy - (153 * mp + 2) / 5 + 1 in
  let m := if mp <? 10 then mp + 3 else mp - 9 in
  (if m <=? 2 then y + 1 else y, m, d).

Definition is_leap (y : Z) : bool := ((y mod 4 =? 0) && negb (y mod 100 =? 0)) || (y mod 400 =? 0).

Definition days_in_month (y m : Z) : Z :=
  if m =? 2 then (if is_leap y then 29 else 28)
  else if (m =? 4) || (m =? 6) || (m =? 9) || (m =? 11) then 30 else 31.

(* parseUint(s, chars, max): exactly [chars] digits, value <= max *)
Definition take_uint (s : str) (chars : nat) (maxv : Z) : option (Z * str) :=
  if Nat.ltb (length s) chars then None else
  match parse_digits (firstn chars s) with
  | None => None
  | Some v => if v >? maxv then None else Some (v, skipn chars s)
  end.

Definition expect_char (s : str) (c : Z) : option str :=
  match s with x :: s' => if x =? c then Some s' else None | [] => None end.

Definition min_datetime_bound : Z := min64 + 86400000.   (* minDatetime as declared in datetime.go (known finding F27) *)

Definition in_dt_range (ms : Z) : bool := (min_datetime_bound <=? ms) && (ms <=? max64).

Definition bind {A B} (o : option A) (f : A -> option B) : option B :=
  match o with Some x => f x | None => None end.
Notation "x <- o ;; k" := (bind o (fun x => k)) (at level 60, o at level 50, right associativity).

Definition parse_datetime (s0 : str) : option Z :=
  match s0 with
  | [] => None
  | c :: rest =>
    let '(ysign, ylen, ymax, s) :=
      if c =? 43 then (1, 9%nat, 999999999, rest)
      else if c =? 45 then (-1, 9%nat, 999999999, rest)
      else (1, 4%nat, 9999, s0) in
    if negb ((c =? 43) || (c =? 45) || is_digit c) then None else
    p <- take_uint s ylen ymax ;; let '(ay, s) := p in
    let year := ay * ysign in
    s <- expect_char s 45 ;;
    p <- take_uint s 2 12 ;; let '(month, s) := p in
    s <- expect_char s 45 ;;
    p <- take_uint s 2 31 ;; let '(day, s) := p in
    if (month <? 1) || (day <? 1) || (day >? days_in_month year month) then None else
    let days := days_from_civil year month day in
    match s with
    | [] => let ms := days * MillisPerDay in if in_dt_range ms then Some ms else None
    | _ =>
      s <- expect_char s 84 ;;
      p <- take_uint s 2 23 ;; let '(hour, s) := p in
      s <- expect_char s 58 ;;
      p <- take_uint s 2 59 ;; let '(minute, s) := p in
      s <- expect_char s 58 ;;
      p <- take_uint s 2 59 ;; let '(second, s) := p in
      match s with
      | [] => None
      | _ =>
        p <- (match s with
              | 46 :: s' => take_uint s' 3 999
              | _ => Some (0, s) end) ;; let '(milli, s) := p in
        match s with
        | [] => None
        | z :: s' =>
          p <- (if z =? 90 then Some (0, s')
                else if (z =? 43) || (z =? 45) then
                  q <- take_uint s' 2 23 ;; let '(hh, s2) := q in
                  q <- take_uint s2 2 59 ;; let '(mm, s3) := q in
                  let off := (hh * MillisPerHour + mm * MillisPerMinute) in
                  Some (if z =? 45 then - off else off, s3)
                else None) ;; let '(offset, s) := p in
          match s with
          | _ :: _ => None
          | [] =>
            let ms := days * MillisPerDay + hour * MillisPerHour + minute * MillisPerMinute
                      + second * MillisPerSecond + milli - offset in
            if in_dt_range ms then Some ms else None
          end
        end
      end
    end
  end.

Definition print_datetime (v : Z) : str :=
  let days := v / MillisPerDay in
  let rem := v mod MillisPerDay in
  let '(y, m, d) := civil_from_days days in
  let hh := rem / MillisPerHour in
  let mi := (rem mod MillisPerHour) / MillisPerMinute in
  let ss := (rem mod MillisPerMinute) / MillisPerSecond in
  let ms := rem mod MillisPerSecond in
  let ystr := if (0 <=? y) && (y <=? 9999) then print_padded 4 y
              else (if y <? 0 then 45 else 43) :: print_padded 9 (Z.abs y) in
  ystr ++ 45 :: print_padded 2 m ++ 45 :: print_padded 2 d ++ 84 :: print_padded 2 hh ++ 58 :: print_padded 2 mi
       ++ 58 :: print_padded 2 ss ++ 46 :: print_padded 3 ms ++ [90].
