(* x/exp/types/json.go: schema-guided coercion of decoded values.  Entity.UnmarshalJSONWithSchema / EntityMap.UnmarshalJSONWithSchema
   first decode without a schema (Impl/EntityJson.v), then rewrite every attribute and tag value along its declared type: at a position of
   an ENTITY type a record whose members "type" and "id" are strings becomes that entity uid (the implicit spelling {"type","id"} - the
   code does not require these to be the ONLY members); at a position of an EXTENSION type a string that parses as a literal of that type
   becomes the extension value; sets and records are rewritten member-wise (a set is rebuilt, so members that become equal collapse);
   everything else - values of the wrong kind, strings that do not parse, attributes the type does not declare - is left as it is (the
   validation that follows rejects what does not conform).
   Types are the declared types of a resolved schema: CBool, CLong, CString, CSet, CRec, CEnt, CExt of Impl/TypeCheck.v. *)
From Coq Require Import ZArith List Bool String.
Import ListNotations.
From Cedar Require Import Lang.Value Lang.Expr Impl.Decimal Impl.Duration Impl.Datetime Impl.IPAddr Impl.TypeCheck.
Local Open Scope Z_scope.

(* coerceEntityUID *)
Definition coerce_uid (v : value) : value :=
  match v with
  | VRecord kvs =>
      match rec_get (s_of "type") kvs, rec_get (s_of "id") kvs with
      | Some (VString t), Some (VString i) => VEntity t i
      | _, _ => v
      end
  | _ => v
  end.

(* coerceExtension *)
Definition coerce_ext (n : str) (v : value) : value :=
  match v with
  | VString s =>
      if nm n "ipaddr" then match parse_ip s with Some (v6, a, p) => VIP v6 a p | None => v end
      else if nm n "decimal" then match parse_decimal s with Some z => VDecimal z | None => v end
      else if nm n "datetime" then match parse_datetime s with Some z => VDatetime z | None => v end
      else if nm n "duration" then match parse_duration s with Some z => VDuration z | None => v end
      else v
  | _ => v
  end.

(* coerceValue / coerceSet / coerceRecord *)
Fixpoint coerce (t : cty) (v : value) {struct t} : value :=
  match t with
  | CEnt _ => coerce_uid v
  | CExt n => coerce_ext n v
  | CSet e => match v with VSet l => mk_set (map (coerce e) l) | _ => v end
  | CRec attrs =>
      match v with
      | VRecord kvs =>
          VRecord (map (fun kv : str * value =>
                          match (fix look (l : list (str * (cty * bool))) : option value :=
                                   match l with
                                   | [] => None
                                   | (k', (t', _)) :: r => if str_eqb (fst kv) k' then Some (coerce t' (snd kv)) else look r
                                   end) attrs with
                          | Some v' => (fst kv, v')
                          | None => kv
                          end) kvs)
      | _ => v
      end
  | _ => v
  end.

(* coerceTagValues: every tag value along the tag type *)
Definition coerce_tags (tt : option cty) (kvs : list (str * value)) : list (str * value) :=
  match tt with
  | None => kvs
  | Some t => map (fun kv : str * value => (fst kv, coerce t (snd kv))) kvs
  end.

(* coerceEntity: entities of a type the schema does not declare pass through *)
Definition coerce_entity (sch : tschema) (ue : uid * entity) : uid * entity :=
  match alookup (fst (fst ue)) (ts_entities sch) with
  | Some te =>
      (fst ue, {| e_parents := e_parents (snd ue);
                  e_attrs := match coerce (CRec (te_shape te)) (VRecord (e_attrs (snd ue))) with VRecord l => l | _ => e_attrs (snd ue) end;
                  e_tags := coerce_tags (te_tags te) (e_tags (snd ue)) |})
  | None => ue
  end.
