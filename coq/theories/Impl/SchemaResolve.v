(* x/exp/schema/resolved/resolve.go: Resolve - registration, shadowing check (RFC 70), common-type cycle detection (Kahn), resolution of
   type references with the namespace disambiguation rules, action membership validation (DFS with colours) - and
   x/exp/schema/validate/cedar_type.go: isEntityDescendant (DFS with a visited set).
   Go maps are lists; where Go iterates a map the model iterates the list (only which of several errors is reported depends on that). *)
From Coq Require Import ZArith List Bool String.
Import ListNotations.
From Cedar Require Import Lang.Value Impl.Printer.
Local Open Scope Z_scope.

(* ---- schema AST (x/exp/schema/ast) ---- *)
Inductive sty :=
| TyString | TyLong | TyBool | TyExt (n : str)
| TySet (t : sty)
| TyRec (fs : list (str * (sty * bool)))     (* attribute -> (type, optional) *)
| TyEnt (ref : str)                           (* EntityTypeRef *)
| TyRef (ref : str).                          (* TypeRef: common type, entity type or builtin, decided by the resolver *)

Record s_entity := { se_name : str; se_parents : list str; se_shape : option (list (str * (sty * bool))); se_tags : option sty }.
Record s_applies := { sa_principals : list str; sa_resources : list str; sa_context : option sty }.
Record s_action := { sac_name : str; sac_parents : list (str * str) (* (type ref or empty, id) *); sac_applies : option s_applies }.
Record s_ns := { sn_name : str; sn_entities : list s_entity; sn_enums : list str; sn_commons : list (str * sty); sn_actions : list s_action }.
Definition s_schema := list s_ns.            (* the empty namespace is the element named [] (at most one element per name) *)

(* ---- resolved types ---- *)
Inductive rty :=
| RString | RLong | RBool | RExt (n : str) | RSet (t : rty) | RRec (fs : list (str * (rty * bool))) | REnt (name : str).

Inductive rres (A : Type) := ROk (a : A) | RErr | RFuel.
Arguments ROk {A}. Arguments RErr {A}. Arguments RFuel {A}.
Definition rbind {A B} (x : rres A) (f : A -> rres B) : rres B := match x with ROk a => f a | RErr => RErr | RFuel => RFuel end.

Definition sep : str := [58; 58].
Definition qualify (ns name : str) : str := match ns with [] => name | _ => ns ++ sep ++ name end.
(* strings.Contains(s, "::") *)
Fixpoint has_sep (s : str) : bool := match s with 58 :: ((58 :: _) as r) => true | _ :: r => has_sep r | [] => false end.
Definition mem (x : str) (l : list str) : bool := existsb (str_eqb x) l.
Fixpoint assoc {A} (x : str) (l : list (str * A)) : option A :=
  match l with [] => None | (k, v) :: r => if str_eqb k x then Some v else assoc x r end.

(* d_commons: qualified path -> (declaring namespace, body).  The namespace is recorded at registration (commonTypeNS), never re-derived *)
Record decls := { d_ents : list str; d_enums : list str; d_commons : list (str * (str * sty)) }.

(* registerDecls: within one namespace an entity and an enum of the same name is an error; maps: a later common type of the same path wins *)
Definition register (s : s_schema) : option decls :=
  if existsb (fun ns => existsb (fun e => mem (se_name e) (sn_enums ns)) (sn_entities ns)) s then None else
  Some {| d_ents := flat_map (fun ns => map (fun e => qualify (sn_name ns) (se_name e)) (sn_entities ns)) s;
          d_enums := flat_map (fun ns => map (qualify (sn_name ns)) (sn_enums ns)) s;
          d_commons := flat_map (fun ns => map (fun c : str * sty => (qualify (sn_name ns) (fst c), (sn_name ns, snd c))) (sn_commons ns)) s |}.

(* checkShadowing *)
Definition is_nil_str (s : str) : bool := match s with [] => true | _ => false end.
Definition shadowing_ok (s : s_schema) : bool :=
  let bare := filter (fun ns => is_nil_str (sn_name ns)) s in
  let named := filter (fun ns => negb (is_nil_str (sn_name ns))) s in
  let bare_types := flat_map (fun ns => map se_name (sn_entities ns) ++ sn_enums ns ++ map fst (sn_commons ns)) bare in
  let bare_actions := flat_map (fun ns => map sac_name (sn_actions ns)) bare in
  negb (existsb (fun ns => existsb (fun n => mem n bare_types) (map se_name (sn_entities ns) ++ sn_enums ns ++ map fst (sn_commons ns))
                           || existsb (fun a => mem (sac_name a) bare_actions) (sn_actions ns)) named).

Definition is_entity (d : decls) (n : str) : bool := mem n (d_ents d) || mem n (d_enums d).
Definition common (d : decls) (p : str) : option (str * sty) := assoc p (rev (d_commons d)).       (* later registration wins *)

(* resolveTypeRefPath *)
Definition type_ref_path (d : decls) (ns ref : str) : str :=
  if has_sep ref then ref
  else match ns with
       | [] => ref
       | _ => let q := ns ++ sep ++ ref in match common d q with Some _ => q | None => ref end
       end.

(* collectTypeRefs *)
Fixpoint collect_refs (t : sty) : list str :=
  match t with
  | TyRef r => [r]
  | TySet e => collect_refs e
  | TyRec fs => (fix go (l : list (str * (sty * bool))) : list str := match l with [] => [] | (_, (x, _)) :: r => collect_refs x ++ go r end) fs
  | _ => []
  end.

(* the dependency graph of detectCommonTypeCycles: name -> the common types its body mentions (with multiplicity) *)
Definition common_names (d : decls) : list str := nodup (list_eq_dec Z.eq_dec) (map fst (d_commons d)).
Definition deps_of (d : decls) (name : str) : list str :=
  match common d name with
  | None => []
  | Some (ns, body) => filter (fun p => match common d p with Some _ => true | None => false end)
                             (map (type_ref_path d ns) (collect_refs body))
  end.

(* Kahn's algorithm on in-degrees; [fuel] bounds the number of dequeues *)
Definition indeg0 (d : decls) : list (str * nat) :=
  map (fun n => (n, List.length (filter (str_eqb n) (flat_map (deps_of d) (common_names d))))) (common_names d).
Fixpoint dec_all (ns : list str) (deg : list (str * nat)) (queue : list str) : list (str * nat) * list str :=
  match ns with
  | [] => (deg, queue)
  | n :: r =>
      let deg' := map (fun kv : str * nat => if str_eqb (fst kv) n then (fst kv, Nat.pred (snd kv)) else kv) deg in
      let q' := match assoc n deg' with Some O => queue ++ [n] | _ => queue end in
      dec_all r deg' q'
  end.
Fixpoint kahn (fuel : nat) (d : decls) (deg : list (str * nat)) (queue : list str) (visited : nat) : nat :=
  match fuel with
  | O => visited
  | S f => match queue with
           | [] => visited
           | node :: q => let '(deg', q') := dec_all (deps_of d node) deg q in kahn f d deg' q' (S visited)
           end
  end.
Definition cycle_free (d : decls) : bool :=
  let deg := indeg0 d in
  let queue := map fst (filter (fun kv : str * nat => Nat.eqb (snd kv) 0%nat) deg) in
  Nat.eqb (kahn (S (List.length (common_names d) + List.length (flat_map (deps_of d) (common_names d))))%nat d deg queue 0%nat) (List.length (common_names d)).

Definition builtin (p : str) : option rty :=
  let is n := str_eqb (s_of n) p in
  if str_eqb (s_of "String") p then Some RString else if str_eqb (s_of "Long") p then Some RLong
  else if str_eqb (s_of "Bool") p || str_eqb (s_of "Boolean") p then Some RBool
  else if str_eqb (s_of "ipaddr") p || str_eqb (s_of "decimal") p || str_eqb (s_of "datetime") p || str_eqb (s_of "duration") p then Some (RExt p)
  else None.

(* resolveEntityTypeRef *)
Definition resolve_entity_ref (d : decls) (ns ref : str) : option str :=
  if has_sep ref then (if is_entity d ref then Some ref else None)
  else
    let q := qualify ns ref in
    if negb (is_nil_str ns) && is_entity d q then Some q
    else if is_entity d ref then Some ref else None.

Definition cedar_prefix : str := s_of "__cedar::".
Fixpoint strip_prefix (p s : str) : option str :=
  match p, s with
  | [], _ => Some s
  | a :: p', b :: s' => if a =? b then strip_prefix p' s' else None
  | _, [] => None
  end.

(* resolveType / resolveTypeRef / resolveQualifiedTypeRef / resolveRecordType *)
Fixpoint resolve_type (fuel : nat) (d : decls) (ns : str) (t : sty) : rres rty :=
  match fuel with
  | O => RFuel
  | S f =>
    match t with
    | TyString => ROk RString | TyLong => ROk RLong | TyBool => ROk RBool | TyExt n => ROk (RExt n)
    | TySet e => rbind (resolve_type f d ns e) (fun r => ROk (RSet r))
    | TyRec fs =>
        rbind ((fix go (l : list (str * (sty * bool))) : rres (list (str * (rty * bool))) :=
                  match l with
                  | [] => ROk []
                  | (k, (x, opt)) :: r => rbind (resolve_type f d ns x) (fun rx => rbind (go r) (fun rr => ROk ((k, (rx, opt)) :: rr)))
                  end) fs) (fun rs => ROk (RRec rs))
    | TyEnt ref => match resolve_entity_ref d ns ref with Some e => ROk (REnt e) | None => RErr end
    | TyRef ref =>
        if has_sep ref then
          match strip_prefix cedar_prefix ref with
          | Some b => match builtin b with Some r => ROk r | None => RErr end
          | None =>
            match common d ref with
            | Some (cns, ct) => resolve_type f d cns ct
            | None => if is_entity d ref then ROk (REnt ref) else RErr
            end
          end
        else
          let q := ns ++ sep ++ ref in
          match (if is_nil_str ns then None else common d q) with
          | Some (cns, ct) => resolve_type f d cns ct
          | None =>
            if negb (is_nil_str ns) && is_entity d q then ROk (REnt q)
            else match common d ref with
                 | Some (cns, ct) => resolve_type f d cns ct
                 | None => if is_entity d ref then ROk (REnt ref)
                           else match builtin ref with Some r => ROk r | None => RErr end
                 end
          end
    end
  end.

(* sizes, for the fuel the top level hands out *)
Fixpoint sty_size (t : sty) : nat :=
  match t with
  | TySet e => S (sty_size e)
  | TyRec fs => S ((fix go (l : list (str * (sty * bool))) : nat := match l with [] => 0%nat | (_, (x, _)) :: r => (sty_size x + go r)%nat end) fs)
  | _ => 1%nat
  end.
Definition resolve_fuel (d : decls) (t : sty) : nat :=
  (S (sty_size t) * S (fold_right (fun c acc => (sty_size (snd (snd c)) + acc)%nat) 0%nat (d_commons d)) * S (List.length (d_commons d)))%nat.

(* ---- actions ---- *)
Definition action_type (ns : str) : str := qualify ns (s_of "Action").
Definition action_uid (ns : str) (a : s_action) : uid := (action_type ns, sac_name a).
Definition parent_uid (ns : str) (p : str * str) : uid := match fst p with [] => (action_type ns, snd p) | t => (t, snd p) end.

(* validateActionMembership: DFS with colours 0 = unvisited (absent), 1 = visiting, 2 = done; true = a cycle was met *)
Definition colour (u : uid) (vis : list (uid * nat)) : nat :=
  match find (fun kv : uid * nat => uid_eqb (fst kv) u) vis with Some kv => snd kv | None => 0%nat end.
Fixpoint visit (fuel : nat) (parents : uid -> list uid) (u : uid) (vis : list (uid * nat)) : option (bool * list (uid * nat)) :=
  match fuel with
  | O => None
  | S f =>
    match colour u vis with
    | 1%nat => Some (true, vis)
    | 2%nat => Some (false, vis)
    | _ =>
      let vis1 := (u, 1%nat) :: vis in
      (fix go (ps : list uid) (vis : list (uid * nat)) : option (bool * list (uid * nat)) :=
         match ps with
         | [] => Some (false, (u, 2%nat) :: vis)
         | p :: r => match visit f parents p vis with
                     | None => None
                     | Some (true, v) => Some (true, v)
                     | Some (false, v) => go r v
                     end
         end) (parents u) vis1
    end
  end.

Record resolved_summary := {
  rs_entities : list (str * (list str * option (list (str * (rty * bool))) * option rty));     (* name -> parents, shape, tags *)
  rs_actions : list (uid * (list uid * option (list str * list str * list (str * (rty * bool)))));
}.

Inductive verdict := VOk (r : resolved_summary) | VErr | VFuel.

Definition all_ok {A B} (f : A -> rres B) (l : list A) : rres (list B) :=
  fold_right (fun x acc => rbind (f x) (fun y => rbind acc (fun ys => ROk (y :: ys)))) (ROk []) l.

Definition resolve_schema (s : s_schema) : verdict :=
  match register s with
  | None => VErr
  | Some d =>
    if negb (shadowing_ok s) then VErr else
    if negb (cycle_free d) then VErr else
    let rt ns t := resolve_type (resolve_fuel d t) d ns t in
    let ent ns (e : s_entity) :=
        rbind (all_ok (fun r => match resolve_entity_ref d ns r with Some x => ROk x | None => RErr end) (se_parents e)) (fun ps =>
        rbind (match se_shape e with None => ROk None | Some fs => rbind (rt ns (TyRec fs)) (fun r => match r with RRec x => ROk (Some x) | _ => RErr end) end) (fun sh =>
        rbind (match se_tags e with None => ROk None | Some t => rbind (rt ns t) (fun r => ROk (Some r)) end) (fun tg =>
        ROk (qualify ns (se_name e), (ps, sh, tg))))) in
    let act ns (a : s_action) :=
        rbind (match sac_applies a with
               | None => ROk None
               | Some ap =>
                 rbind (all_ok (fun r => match resolve_entity_ref d ns r with Some x => ROk x | None => RErr end) (sa_principals ap)) (fun pr =>
                 rbind (all_ok (fun r => match resolve_entity_ref d ns r with Some x => ROk x | None => RErr end) (sa_resources ap)) (fun rr =>
                 rbind (match sa_context ap with
                        | None => ROk []
                        | Some t => rbind (rt ns t) (fun r => match r with RRec x => ROk x | _ => RErr end)
                        end) (fun cx => ROk (Some (pr, rr, cx)))))
               end) (fun ap => ROk (action_uid ns a, (map (parent_uid ns) (sac_parents a), ap))) in
    match all_ok (fun ns => all_ok (ent (sn_name ns)) (sn_entities ns)) s, all_ok (fun ns => all_ok (act (sn_name ns)) (sn_actions ns)) s with
    | ROk es, ROk acts =>
        let actions := List.concat acts in
        let uids := map fst actions in
        let parents (u : uid) : list uid := match find (fun kv : uid * (list uid * _) => uid_eqb (fst kv) u) (rev actions) with Some kv => fst (snd kv) | None => [] end in
        if existsb (fun a : uid * (list uid * _) => existsb (fun p => negb (existsb (uid_eqb p) uids)) (fst (snd a))) actions then VErr else
        let fuel := (S (List.length actions) * S (List.length actions) + 2)%nat in
        match fold_left (fun (st : option (bool * list (uid * nat))) (u : uid) =>
                           match st with
                           | None => None
                           | Some (true, v) => Some (true, v)
                           | Some (false, v) => visit fuel parents u v
                           end) uids (Some (false, [])) with
        | None => VFuel
        | Some (true, _) => VErr
        | Some (false, _) => VOk {| rs_entities := List.concat es; rs_actions := actions |}
        end
    | RFuel, _ | _, RFuel => VFuel
    | _, _ => VErr
    end
  end.

(* ---- validate: isEntityDescendant with a visited set ---- *)
Fixpoint is_descendant (fuel : nat) (parents : str -> list str) (child anc : str) (visited : list str) : option (bool * list str) :=
  match fuel with
  | O => None
  | S f =>
    if mem child visited then Some (false, visited) else
    (fix go (ps : list str) (vis : list str) : option (bool * list str) :=
       match ps with
       | [] => Some (false, vis)
       | p :: r => if str_eqb p anc then Some (true, vis)
                   else match is_descendant f parents p anc vis with
                        | None => None
                        | Some (true, v) => Some (true, v)
                        | Some (false, v) => go r v
                        end
       end) (parents child) (child :: visited)
  end.
