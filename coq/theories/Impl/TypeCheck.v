(* x/exp/schema/validate: the expression type checker (typechecker.go, cedar_type.go, capability.go, ext_funcs.go) in ONE request
   environment.  The Go code carries error-recovery types so that it can report several errors; whether an expression is accepted
   depends only on the error-free paths, which is what is modelled: TErr = some error is reported.  TUnk = outside the model
   (`in` whose left operand denotes an action: the code consults the action hierarchy there). *)
From Coq Require Import ZArith List Bool String.
Import ListNotations.
From Cedar Require Import Lang.Value Impl.Like Lang.Expr Impl.Decimal Impl.Duration Impl.Datetime Impl.IPAddr.
Local Open Scope Z_scope.

Inductive cty :=
| CNever | CTrue | CFalse | CBool | CLong | CString
| CSet (e : cty)
| CRec (attrs : list (str * (cty * bool)))      (* attribute -> (type, required); a Go map: at most one entry per key *)
| CEnt (lub : list str)                          (* sorted, duplicate-free, non-empty *)
| CExt (name : str).

Record tentity := { te_parents : list str; te_shape : list (str * (cty * bool)); te_tags : option cty }.
Record tschema := {
  ts_entities : list (str * tentity);
  ts_enums : list str;
  ts_actions : list uid;
  ts_agraph : list (uid * list uid);       (* every declared action with its DIRECT parents (action groups), as the resolved schema lists them *)
}.
Record tenv := { tv_principal : str; tv_action : uid; tv_resource : str; tv_context : list (str * (cty * bool)) }.

Definition cap := (str * str * bool)%type.        (* capability key of the base expression, attribute or tag key, is-tag *)
Definition cap_eqb (a b : cap) : bool :=
  str_eqb (fst (fst a)) (fst (fst b)) && str_eqb (snd (fst a)) (snd (fst b)) && Bool.eqb (snd a) (snd b).
Definition cap_has (cs : list cap) (c : cap) : bool := existsb (cap_eqb c) cs.
Definition cap_inter (a b : list cap) : list cap := filter (cap_has b) a.

Inductive tres := TOk (t : cty) (caps : list cap) | TErr | TUnk.

Fixpoint alookup {A} (k : str) (l : list (str * A)) : option A :=
  match l with [] => None | (k', v) :: r => if str_eqb k' k then Some v else alookup k r end.
Definition smem (x : str) (l : list str) : bool := existsb (str_eqb x) l.

Definition is_bool_ty (t : cty) : bool := match t with CTrue | CFalse | CBool => true | _ => false end.
Definition is_ent_ty (t : cty) : bool := match t with CEnt _ => true | _ => false end.
Definition is_ent_or_rec (t : cty) : bool := match t with CEnt _ | CRec _ => true | _ => false end.
Definition is_ent_or_set_of_ent (t : cty) : bool :=
  match t with CEnt _ => true | CSet CNever => true | CSet (CEnt _) => true | _ => false end.

(* sorted duplicate-free union of two sorted lists of names *)
Fixpoint sinsert (x : str) (l : list str) : list str :=
  match l with
  | [] => [x]
  | y :: r => if str_eqb x y then l else if str_ltb x y then x :: l else y :: sinsert x r
  end.
Definition union_lub (a b : list str) : list str := fold_left (fun acc x => sinsert x acc) b a.
Definition lubs_related (a b : list str) : bool := existsb (fun x => smem x b) a.
Definition lubs_disjoint (a b : list str) : bool := negb (lubs_related a b).

Definition types_disjoint (a b : cty) : bool :=
  match a, b with CEnt x, CEnt y => lubs_disjoint x y | _, _ => false end.

Definition nm (name : str) (n : string) : bool := str_eqb (s_of n) name.
Definition xt (n : string) : cty := CExt (s_of n).

Section Check.
  Variable strict : bool.
  Variable sch : tschema.

  Definition entity_of (n : str) : option tentity := alookup n (ts_entities sch).
  Definition known_entity_type (n : str) : bool := match entity_of n with Some _ => true | None => smem n (ts_enums sch) end.

  (* leastUpperBound / lubRecord; None = incompatible *)
  Fixpoint lub (fuel : nat) (a b : cty) : option cty :=
    match fuel with
    | O => None
    | S f =>
      match b with
      | CNever => Some a
      | _ =>
        match a with
        | CNever => Some b
        | CTrue => match b with CTrue => Some CTrue | CFalse | CBool => Some CBool | _ => None end
        | CFalse => match b with CFalse => Some CFalse | CTrue | CBool => Some CBool | _ => None end
        | CBool => if is_bool_ty b then Some CBool else None
        | CLong => match b with CLong => Some CLong | _ => None end
        | CString => match b with CString => Some CString | _ => None end
        | CSet ea => match b with CSet eb => option_map CSet (lub f ea eb) | _ => None end
        | CRec ra =>
            match b with
            | CRec rb =>
                if strict && negb (Nat.eqb (List.length ra) (List.length rb) && forallb (fun kv : str * (cty * bool) => match alookup (fst kv) rb with Some _ => true | None => false end) ra)
                then None
                else
                  (* attributes of a (in both: lub or - permissive only - dropped; only in a: optional), then those only in b (optional) *)
                  let fix go (l : list (str * (cty * bool))) : option (list (str * (cty * bool))) :=
                      match l with
                      | [] => Some []
                      | (k, (ta, qa)) :: r =>
                          match alookup k rb with
                          | Some (tb, qb) =>
                              match lub f ta tb with
                              | Some t => option_map (cons (k, (t, qa && qb))) (go r)
                              | None => if strict then None else go r
                              end
                          | None => option_map (cons (k, (ta, false))) (go r)
                          end
                      end in
                  match go ra with
                  | None => None
                  | Some common =>
                      Some (CRec (common ++ map (fun kv : str * (cty * bool) => (fst kv, (fst (snd kv), false)))
                                                (filter (fun kv : str * (cty * bool) => match alookup (fst kv) ra with Some _ => false | None => true end) rb)))
                  end
            | _ => None
            end
        | CEnt la => match b with CEnt lb => Some (CEnt (union_lub la lb)) | _ => None end
        | CExt na => match b with CExt nb => if str_eqb na nb then Some a else None | _ => None end
        end
      end
    end.

  Fixpoint cty_size (t : cty) : nat :=
    match t with
    | CSet e => S (cty_size e)
    | CRec l => S ((fix go (l : list (str * (cty * bool))) : nat := match l with [] => 0%nat | (_, (x, _)) :: r => (cty_size x + go r)%nat end) l)
    | _ => 1%nat
    end.
  Definition lub' (a b : cty) : option cty := lub (S (cty_size a + cty_size b)) a b.

  (* checkStrictEntityLUB: false = error *)
  Definition strict_ent_lub_ok (a b : cty) : bool :=
    if negb strict then true else
    match a, b with
    | CNever, _ => true
    | CEnt x, CEnt y => lubs_related x y
    | _, _ => true
    end.

  (* lookupAttributeType *)
  Definition lookup_entity_attr (l : list str) (attr : str) : option (cty * bool) :=
    (fix go (l : list str) (acc : option (cty * bool)) : option (cty * bool) :=
       match l with
       | [] => acc
       | et :: r =>
           match entity_of et with
           | None => None                      (* an entity type without a declaration (enum / action type): no attributes *)
           | Some e =>
               match alookup attr (te_shape e) with
               | None => None
               | Some (t, q) =>
                   match acc with
                   | None => go r (Some (t, q))
                   | Some (ta, qa) => match lub' ta t with Some tl => go r (Some (tl, qa && q)) | None => None end
                   end
               end
           end
       end) l None.
  Definition lookup_attr (t : cty) (attr : str) : option (cty * bool) :=
    match t with CRec l => alookup attr l | CEnt l => lookup_entity_attr l attr | _ => None end.

  Definition has_result_type (t : cty) (attr : str) : cty :=
    match t with
    | CRec l => match alookup attr l with None => CFalse | Some (_, true) => CTrue | Some (_, false) => CBool end
    | CEnt l => if existsb (fun et => match entity_of et with Some e => match alookup attr (te_shape e) with Some _ => true | None => false end | None => false end) l
                then CBool else CFalse
    | _ => CBool
    end.

  (* entityHasTags: SOME member type declares tags *)
  Definition entity_has_tags (l : list str) : bool :=
    existsb (fun et => match entity_of et with Some e => match te_tags e with Some _ => true | None => false end | None => false end) l.
  (* entityTagType: the lub of the tag types of the member types that declare tags; None = incompatible tag types (error) *)
  Definition entity_tag_type (l : list str) : option cty :=
    (fix go (l : list str) (acc : cty) : option cty :=
       match l with
       | [] => Some acc
       | et :: r =>
           match entity_of et with
           | Some e => match te_tags e with
                       | None => go r acc              (* a member type without tags: skipped *)
                       | Some t => match lub' acc t with Some x => go r x | None => None end
                       end
           | None => go r acc
           end
       end) l CNever.

  (* isEntityDescendant over the schema's parent types (visited set; fuel = number of entity types + 1) *)
  Fixpoint desc (fuel : nat) (child anc : str) (visited : list str) : bool * list str :=
    match fuel with
    | O => (false, visited)
    | S f =>
      if smem child visited then (false, visited) else
      (fix go (ps : list str) (vis : list str) : bool * list str :=
         match ps with
         | [] => (false, vis)
         | p :: r => if str_eqb p anc then (true, vis)
                     else let '(b, v) := desc f p anc vis in if b then (true, v) else go r v
         end) (match entity_of child with Some e => te_parents e | None => [] end) (child :: visited)
    end.
  Definition is_descendant_ty (child anc : str) : bool := fst (desc (S (List.length (ts_entities sch))) child anc []).
  Definition is_action_type (et : str) : bool :=
    str_eqb et (s_of "Action") ||
    (let suffix := s_of "::Action" in
     let n := List.length et in let m := List.length suffix in
     Nat.leb m n && str_eqb (skipn (n - m) et) suffix).

  (* isActionTypeDescendant: some action of entity type [child] is, transitively, a member of a group of entity type [anc] (groups may
     live in another namespace, so their entity type can differ).  One visited set for the whole search, as in the Go code. *)
  Definition umem (u : uid) (l : list uid) : bool := existsb (uid_eqb u) l.
  Definition aparents (u : uid) : option (list uid) :=
    (fix go (l : list (uid * list uid)) : option (list uid) :=
       match l with [] => None | (a, ps) :: r => if uid_eqb a u then Some ps else go r end) (ts_agraph sch).
  Fixpoint awalk (fuel : nat) (u : uid) (anc : str) (visited : list uid) : bool * list uid :=
    match fuel with
    | O => (false, visited)
    | S f =>
      if umem u visited then (false, visited) else
      match aparents u with
      | None => (false, u :: visited)
      | Some ps =>
        (fix go (ps : list uid) (vis : list uid) : bool * list uid :=
           match ps with
           | [] => (false, vis)
           | p :: r => if str_eqb (fst p) anc then (true, vis)
                       else let '(b, v) := awalk f p anc vis in if b then (true, v) else go r v
           end) ps (u :: visited)
      end
    end.
  Definition is_action_ty_desc (child anc : str) : bool :=
    is_action_type child && is_action_type anc &&
    fst ((fix go (l : list (uid * list uid)) (vis : list uid) : bool * list uid :=
            match l with
            | [] => (false, vis)
            | (a, _) :: r => if str_eqb (fst a) child
                             then let '(b, v) := awalk (S (List.length (ts_agraph sch))) a anc vis in if b then (true, v) else go r v
                             else go r vis
            end) (ts_agraph sch) []).

  Definition any_descendant (l r : list str) : bool :=
    existsb (fun lt => existsb (fun rt => str_eqb lt rt || is_descendant_ty lt rt || is_action_ty_desc lt rt) r) l.

  (* typeOfEntityUID: None = error *)
  Definition type_of_uid (u : uid) : option cty :=
    if known_entity_type (fst u) then Some (CEnt [fst u])
    else if is_action_type (fst u) && existsb (uid_eqb u) (ts_actions sch) then Some (CEnt [fst u])
    else None.

  Definition type_of_value (v : value) : option cty :=
    match v with
    | VBool true => Some CTrue | VBool false => Some CFalse
    | VLong _ => Some CLong | VString _ => Some CString
    | VEntity t i => type_of_uid (t, i)
    | VDecimal _ => Some (CExt (s_of "decimal")) | VIP _ _ _ => Some (CExt (s_of "ipaddr"))
    | VDatetime _ => Some (CExt (s_of "datetime")) | VDuration _ => Some (CExt (s_of "duration"))
    | VSet _ | VRecord _ => None
    end.

  (* validateEntityRefs: every entity literal in a dead branch must still name a known type; true = ok *)
  Fixpoint refs_ok (e : expr) : bool :=
    let fix go (l : list expr) : bool := match l with [] => true | x :: r => refs_ok x && go r end in
    let fix gokv (l : list (str * expr)) : bool := match l with [] => true | (_, x) :: r => refs_ok x && gokv r end in
    match e with
    | ELit (VEntity t i) => match type_of_uid (t, i) with Some _ => true | None => false end
    | ELit _ | EVar _ | EPartialError _ => true
    | EAnd a b | EOr a b | EEq a b | ENe a b | ELt a b | ELe a b | EGt a b | EGe a b | EAdd a b | ESub a b | EMul a b | EIn a b
    | EContains a b | EContainsAll a b | EContainsAny a b | EHasTag a b | EGetTag a b => refs_ok a && refs_ok b
    | ENeg a | ENot a | EIsEmpty a | EHas a _ | EAccess a _ | ELike a _ | EIs a _ => refs_ok a
    | EIsIn a _ b => refs_ok a && refs_ok b
    | EIf c t f => refs_ok c && refs_ok t && refs_ok f
    | ESet es => go es
    | ERecord kvs => gokv kvs
    | ECall _ args => go args
    end.

  Definition var_name (x : var) : str :=
    match x with VPrincipal => s_of "principal" | VAction => s_of "action" | VResource => s_of "resource" | VContext => s_of "context" end.

  (* exprVarName <> "" ; exprCapKey: the path with every attribute name quoted.  strconv.Quote is injective; the model quotes by
     length-prefixing, which is injective too (only equality of keys is ever observed) *)
  Fixpoint cap_key (e : expr) : option str :=
    match e with
    | EVar x => Some (var_name x)
    | EAccess a k => match cap_key a with Some p => Some (p ++ [46] ++ s_of "#" ++ Text.print_nat (Z.of_nat (List.length k)) ++ [58] ++ k) | None => None end
    | _ => None
    end.

  Definition ext_sig (name : str) : option (bool * list cty * cty) :=
    if nm name "ip" then Some (true, [CString], xt "ipaddr") else if nm name "decimal" then Some (true, [CString], xt "decimal")
    else if nm name "datetime" then Some (true, [CString], xt "datetime") else if nm name "duration" then Some (true, [CString], xt "duration")
    else if nm name "lessThan" || nm name "lessThanOrEqual" || nm name "greaterThan" || nm name "greaterThanOrEqual" then Some (false, [xt "decimal"; xt "decimal"], CBool)
    else if nm name "isIpv4" || nm name "isIpv6" || nm name "isLoopback" || nm name "isMulticast" then Some (false, [xt "ipaddr"], CBool)
    else if nm name "isInRange" then Some (false, [xt "ipaddr"; xt "ipaddr"], CBool)
    else if nm name "toDate" then Some (false, [xt "datetime"], xt "datetime") else if nm name "toTime" then Some (false, [xt "datetime"], xt "duration")
    else if nm name "offset" then Some (false, [xt "datetime"; xt "duration"], xt "datetime")
    else if nm name "durationSince" then Some (false, [xt "datetime"; xt "datetime"], xt "duration")
    else if nm name "toDays" || nm name "toHours" || nm name "toMinutes" || nm name "toSeconds" || nm name "toMilliseconds" then Some (false, [xt "duration"], CLong)
    else None.

  (* isSubtype as used for extension arguments *)
  Definition arg_subtype (a b : cty) : bool :=
    match b with
    | CString => match a with CString => true | _ => false end
    | CExt nb => match a with CExt na => str_eqb na nb | _ => false end
    | _ => false
    end.

  Definition ext_literal_ok (name arg : str) : bool :=
    if str_eqb (s_of "ip") name then match parse_ip arg with Some _ => true | None => false end
    else if str_eqb (s_of "decimal") name then match parse_decimal arg with Some _ => true | None => false end
    else if str_eqb (s_of "datetime") name then match parse_datetime arg with Some _ => true | None => false end
    else if str_eqb (s_of "duration") name then match parse_duration arg with Some _ => true | None => false end
    else true.

  Definition comparable (t : cty) : bool :=
    match t with CLong => true | CExt n => str_eqb n (s_of "datetime") || str_eqb n (s_of "duration") | _ => false end.
  Definition same_comparable (a b : cty) : bool :=
    match a, b with CLong, CLong => true | CExt x, CExt y => str_eqb x y | _, _ => false end.

  Definition denotes_action (env : tenv) (e : expr) : bool :=
    match e with
    | EVar VAction => true
    | ELit (VEntity t i) => existsb (uid_eqb (t, i)) (ts_actions sch)
    | _ => false
    end.

  (* exprToActionEUID: the action variable, or a literal that is a declared action *)
  Definition action_euid (env : tenv) (e : expr) : option uid :=
    match e with
    | EVar VAction => Some (tv_action env)
    | ELit (VEntity t i) => if umem (t, i) (ts_actions sch) then Some (t, i) else None
    | _ => None
    end.
  (* exprToActionEUIDs: a single one, or a set LITERAL EXPRESSION all of whose elements are the action variable or entity literals
     (an empty set expression yields a nil slice, i.e. nothing) *)
  Definition action_euids (env : tenv) (e : expr) : option (list uid) :=
    match action_euid env e with
    | Some u => Some [u]
    | None =>
        match e with
        | ESet [] => None
        | ESet els =>
            (fix go (l : list expr) : option (list uid) :=
               match l with
               | [] => Some []
               | x :: r =>
                   match (match action_euid env x with
                          | Some u => Some u
                          | None => match x with ELit (VEntity t i) => Some (t, i) | _ => None end
                          end) with
                   | Some u => match go r with Some us => Some (u :: us) | None => None end
                   | None => None
                   end
               end) els
        | _ => None
        end
    end.
  (* isActionDescendant (with the visited set of the repaired code): target reachable from u through declared parents *)
  Fixpoint areach (fuel : nat) (u target : uid) (visited : list uid) : bool * list uid :=
    match fuel with
    | O => (false, visited)
    | S f =>
      if umem u visited then (false, visited) else
      match aparents u with
      | None => (false, u :: visited)
      | Some ps =>
        (fix go (ps : list uid) (vis : list uid) : bool * list uid :=
           match ps with
           | [] => (false, vis)
           | p :: r => if uid_eqb p target then (true, vis)
                       else let '(b, v) := areach f p target vis in if b then (true, v) else go r v
           end) ps (u :: visited)
      end
    end.
  (* isActionInSet minus the reflexive case: a is a declared action and a strict descendant of some target *)
  Definition action_below (a : uid) (targets : list uid) : bool :=
    existsb (fun t => negb (uid_eqb a t) && umem a (ts_actions sch) && fst (areach (S (List.length (ts_agraph sch))) a t [])) targets.

  Definition lit_eq (a b : expr) : option bool := match a, b with ELit x, ELit y => Some (veq x y) | _, _ => None end.

  Fixpoint typeof (env : tenv) (e : expr) (caps : list cap) {struct e} : tres :=
    let b1 (a : expr) (k : cty -> list cap -> tres) : tres :=
        match typeof env a caps with TOk t c => k t c | TErr => TErr | TUnk => TUnk end in
    let both (a b : expr) (k : cty -> cty -> tres) : tres :=
        match typeof env a caps, typeof env b caps with
        | TOk ta _, TOk tb _ => k ta tb
        | TUnk, _ | _, TUnk => TUnk
        | _, _ => TErr
        end in
    let arith (a b : expr) : tres := both a b (fun ta tb => match ta, tb with CLong, CLong => TOk CLong caps | _, _ => TErr end) in
    let cmp (a b : expr) : tres := both a b (fun ta tb => if comparable ta && comparable tb && same_comparable ta tb then TOk CBool caps else TErr) in
    let equality (a b : expr) (negated : bool) : tres :=
        both a b (fun ta tb =>
          let sing (r : bool) := TOk (if xorb r negated then CTrue else CFalse) caps in
          match a, b with
          | EVar x, EVar y => if str_eqb (var_name x) (var_name y) then sing true else
                              if types_disjoint ta tb then sing false else
                              if strict && negb (match lub' ta tb with Some _ => true | None => false end) then TErr else TOk CBool caps
          | _, _ =>
            match lit_eq a b with
            | Some r => sing r
            | None =>
              if types_disjoint ta tb then sing false
              else if strict && negb (match lub' ta tb with Some _ => true | None => false end) then TErr else TOk CBool caps
            end
          end) in
    match e with
    | ELit v => match type_of_value v with Some t => TOk t caps | None => TErr end
    | EVar VPrincipal => TOk (CEnt [tv_principal env]) caps
    | EVar VAction => TOk (CEnt [fst (tv_action env)]) caps
    | EVar VResource => TOk (CEnt [tv_resource env]) caps
    | EVar VContext => TOk (CRec (tv_context env)) caps
    | EAnd a b =>
        b1 a (fun lt lcaps =>
          if negb (is_bool_ty lt) then TErr else
          match lt with
          | CFalse => if refs_ok b then TOk CFalse caps else TErr
          | _ =>
            match typeof env b (lcaps ++ caps) with
            | TOk rt rcaps =>
                if negb (is_bool_ty rt) then TErr else
                match lt, rt with
                | CTrue, _ => TOk rt rcaps
                | _, CFalse => TOk CFalse rcaps
                | _, _ => TOk CBool rcaps
                end
            | r => r
            end
          end)
    | EOr a b =>
        b1 a (fun lt lcaps =>
          if negb (is_bool_ty lt) then TErr else
          match lt with
          | CTrue => if refs_ok b then TOk CTrue lcaps else TErr
          | _ =>
            match typeof env b caps with
            | TOk rt rcaps =>
                if negb (is_bool_ty rt) then TErr else
                match lt, rt with
                | CFalse, _ => TOk rt rcaps
                | _, CTrue => TOk CTrue rcaps
                | _, CFalse => TOk lt lcaps
                | _, _ => TOk CBool (cap_inter lcaps rcaps)
                end
            | r => r
            end
          end)
    | ENot a => b1 a (fun t _ => match t with CTrue => TOk CFalse caps | CFalse => TOk CTrue caps | CBool => TOk CBool caps | _ => TErr end)
    | EIf c t f =>
        b1 c (fun ct ccaps =>
          if negb (is_bool_ty ct) then TErr else
          match ct with
          | CFalse => if refs_ok t then typeof env f caps else TErr
          | CTrue => if refs_ok f then typeof env t (ccaps ++ caps) else TErr
          | _ =>
            match typeof env t (ccaps ++ caps), typeof env f caps with
            | TOk tt_ tc, TOk ft fc =>
                if negb (strict_ent_lub_ok tt_ ft) then TErr else
                match lub' tt_ ft with Some r => TOk r (cap_inter tc fc) | None => TErr end
            | TUnk, _ | _, TUnk => TUnk
            | _, _ => TErr
            end
          end)
    | EEq a b => equality a b false
    | ENe a b => equality a b true
    | ELt a b | ELe a b | EGt a b | EGe a b => cmp a b
    | EAdd a b | ESub a b | EMul a b => arith a b
    | ENeg a => b1 a (fun t _ => match t with CLong => TOk CLong caps | _ => TErr end)
    | EIn a b =>
        both a b (fun lt rt =>
          if negb (is_ent_ty lt && is_ent_or_set_of_ent rt) then TErr else
          let general :=
            match lt with
            | CEnt ll =>
                let rl := match rt with CEnt x => Some x | CSet (CEnt x) => Some x | _ => None end in
                match rl with
                | Some r => if any_descendant ll r then TOk CBool caps else TOk CFalse caps
                | None => TOk CBool caps
                end
            | _ => TOk CBool caps
            end in
          (* the left side denotes a known action and the right side action / entity literals: decided from the action hierarchy.
             Reflexive membership is True; membership in a group is Bool (it needs the action entity in the store); otherwise False *)
          match action_euid env a with
          | Some l =>
              match action_euids env b with
              | Some rs =>
                  let ra := filter (fun u => umem u (ts_actions sch)) rs in
                  match ra with
                  | [] => TOk CFalse caps
                  | _ => if umem l ra then TOk CTrue caps else if action_below l ra then TOk CBool caps else TOk CFalse caps
                  end
              | None => general
              end
          | None => general
          end)
    | EContains a b =>
        both a b (fun lt rt =>
          match lt with
          | CSet el =>
              match el with
              | CNever => TOk CBool caps
              | _ => if strict && negb ((match lub' el rt with Some _ => true | None => false end) && strict_ent_lub_ok el rt) then TErr else TOk CBool caps
              end
          | _ => TErr
          end)
    | EContainsAll a b | EContainsAny a b =>
        both a b (fun lt rt =>
          match lt, rt with
          | CSet el, CSet er => if strict && negb (match lub' el er with Some _ => true | None => false end) then TErr else TOk CBool caps
          | _, _ => TErr
          end)
    | EIsEmpty a => b1 a (fun t _ => match t with CSet _ => TOk CBool caps | _ => TErr end)
    | ELike a _ => b1 a (fun t _ => match t with CString => TOk CBool caps | _ => TErr end)
    | EIs a ty =>
        b1 a (fun t _ =>
          match t with
          | CEnt l => if negb (smem ty l) then TOk CFalse caps
                      else match l with [x] => TOk CTrue caps | _ => TOk CBool caps end
          | _ => TErr
          end)
    | EIsIn a _ b => both a b (fun lt rt => if is_ent_ty lt && is_ent_or_set_of_ent rt then TOk CBool caps else TErr)
    | EHas a k =>
        b1 a (fun t _ =>
          if negb (is_ent_or_rec t) then TErr else
          let rt := has_result_type t k in
          match cap_key a with
          | Some key =>
              let rt' := match rt with CBool => if cap_has caps (key, k, false) then CTrue else CBool | x => x end in
              TOk rt' ((key, k, false) :: caps)
          | None => TOk rt caps
          end)
    | EAccess a k =>
        b1 a (fun t _ =>
          if negb (is_ent_or_rec t) then TErr else
          match lookup_attr t k with
          | None => TErr
          | Some (at_, required) =>
              if required then TOk at_ caps
              else match cap_key a with
                   | Some key => if cap_has caps (key, k, false) then TOk at_ caps else TErr
                   | None => TErr
                   end
          end)
    | EHasTag a b =>
        both a b (fun lt rt =>
          match lt, rt with
          | CEnt l, CString =>
              if negb (entity_has_tags l) then TOk CFalse caps else
              match cap_key a, b with
              | Some key, ELit (VString s) => (match s with [] => TOk CBool caps | _ => TOk CBool ((key, s, true) :: caps) end)
              | _, _ => TOk CBool caps
              end
          | _, _ => TErr
          end)
    | EGetTag a b =>
        both a b (fun lt rt =>
          match lt, rt with
          | CEnt l, CString =>
              match entity_tag_type l with
              | None => TErr
              | Some tagt =>
                  match cap_key a, b with
                  | Some key, ELit (VString s) => (match s with [] => TErr | _ => if cap_has caps (key, s, true) then TOk tagt caps else TErr end)
                  | _, _ => TErr
                  end
              end
          | _, _ => TErr
          end)
    | ERecord kvs =>
        (fix go (l : list (str * expr)) (acc : list (str * (cty * bool))) : tres :=
           match l with
           | [] => TOk (CRec acc) caps
           | (k, x) :: r =>
               match typeof env x caps with
               | TOk t _ => go r ((k, (t, true)) :: filter (fun kv : str * (cty * bool) => negb (str_eqb (fst kv) k)) acc)
               | TErr => match go r acc with TUnk => TUnk | _ => TErr end
               | TUnk => TUnk
               end
           end) kvs []
    | ESet es =>
        match es with
        | [] => if strict then TErr else TOk (CSet CNever) caps
        | _ =>
          (fix go (l : list expr) (acc : cty) (bad : bool) : tres :=
             match l with
             | [] => if bad then TErr else TOk (CSet acc) caps
             | x :: r =>
                 match typeof env x caps with
                 | TOk t _ =>
                     if bad then go r acc true else
                     if negb (strict_ent_lub_ok acc t) then go r acc true else
                     match lub' acc t with Some u => go r u false | None => go r acc true end
                 | TErr => go r acc true
                 | TUnk => TUnk
                 end
             end) es CNever false
        end
    | ECall name args =>
        match ext_sig name with
        | None => TErr
        | Some (ctor, argtys, ret) =>
            if negb (Nat.eqb (List.length args) (List.length argtys)) then
              (if existsb (fun x => match typeof env x caps with TUnk => true | _ => false end) args then TUnk else TErr)
            else
            let lit_problem :=
                ctor && match args with
                        | [ELit (VString s)] => negb (ext_literal_ok name s)
                        | [ELit _] => false
                        | [_] => strict
                        | _ => false
                        end in
            (fix go (l : list expr) (tys : list cty) (bad : bool) : tres :=
               match l, tys with
               | x :: r, ty :: tr =>
                   match typeof env x caps with
                   | TOk t _ => go r tr (bad || negb (arg_subtype t ty))
                   | TErr => go r tr true
                   | TUnk => TUnk
                   end
               | _, _ => if bad || lit_problem then TErr else TOk ret caps
               end) args argtys false
        end
    | EPartialError _ => TErr
    end.
End Check.
