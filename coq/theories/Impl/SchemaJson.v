(* x/exp/schema/internal/json/json.go: the JSON codec of schema ASTs, on JSON trees (Base/Json.v).
   The Go code goes through intermediate structs (jsonNamespace, jsonEntityType, jsonType, ...) that encoding/json fills and prints;
   the model has the same two stages for types (raw_of_type / json_of_raw, raw_of_json / type_of_raw) because encoding/json checks the
   shape of EVERY member before unmarshalType looks at the "type" member, and one stage for the flat structs.
   Go maps are key-sorted association lists (rec_of_list: a later duplicate wins), the order json.Marshal prints them in.
   encoding/json specifics modelled: `omitempty` (nil pointer, empty map / slice / string omitted), a nil slice without omitempty
   prints as null, null decodes to the zero value, unknown members are ignored; outside the model (DUnk): documents with a repeated key
   anywhere, struct members whose key matches a field name only up to case. *)
From Coq Require Import ZArith List Bool String.
Import ListNotations.
From Cedar Require Import Base.Json Lang.Value Impl.PolicyJson Impl.SchemaResolve.
Local Open Scope Z_scope.

Definition annots := list (str * str).

(* ---- the schema AST with everything the codec carries (x/exp/schema/ast) ---- *)
Inductive xty :=
| XString | XLong | XBool | XExt (n : str)
| XSet (t : xty)
| XRec (fs : list (str * (xty * bool * annots)))      (* attribute -> (type, optional, annotations) *)
| XEnt (r : str) | XRef (r : str).
Definition xrec := list (str * (xty * bool * annots)).

Record x_entity := { xe_annots : annots; xe_parents : list str; xe_shape : option xrec; xe_tags : option xty }.
Record x_enum := { xn_annots : annots; xn_values : list str }.
Record x_common := { xc_annots : annots; xc_type : xty }.
Record x_applies := { xa_principals : list str; xa_resources : list str; xa_context : option xty }.
Record x_action := { xac_annots : annots; xac_parents : list (str * str) (* (type or empty, id) *); xac_applies : option x_applies }.
Record x_ns := { xs_annots : annots; xs_entities : list (str * x_entity); xs_enums : list (str * x_enum);
                 xs_commons : list (str * x_common); xs_actions : list (str * x_action) }.
Definition x_schema := list (str * x_ns).       (* the element named [] holds the bare declarations (its annotations are not part of the AST) *)

(* ---- the intermediate struct jsonType / jsonAttr ---- *)
Inductive rawty := RawTy (ty : str) (el : option rawty) (attrs : list (str * (rawty * option bool * annots))) (name : str).

(* ---- encoding ---- *)
Definition jstr_list (l : list str) : json := match l with [] => JNull | _ => JArr (map JStr l) end.     (* a nil []string without omitempty *)
Definition opt_member (key : string) (present : bool) (v : json) : list (str * json) := if present then [(k key, v)] else [].
Definition is_nil {A} (l : list A) : bool := match l with [] => true | _ => false end.
Definition enc_annots (a : annots) : list (str * json) :=
  opt_member "annotations" (negb (is_nil a)) (JObj (map (fun kv : str * str => (fst kv, JStr (snd kv))) (rec_of_list a))).

(* marshalIsType / marshalRecordType *)
Fixpoint raw_of_type (t : xty) : rawty :=
  match t with
  | XString => RawTy (k "String") None [] []
  | XLong => RawTy (k "Long") None [] []
  | XBool => RawTy (k "Boolean") None [] []
  | XExt n => RawTy (k "Extension") None [] n
  | XSet e => RawTy (k "Set") (Some (raw_of_type e)) [] []
  | XRec fs =>
      RawTy (k "Record") None
            (rec_of_list ((fix go (l : xrec) : list (str * (rawty * option bool * annots)) :=
                             match l with
                             | [] => []
                             | (key, (ty, opt, an)) :: r => (key, (raw_of_type ty, if opt then Some false else None, rec_of_list an)) :: go r
                             end) fs)) []
  | XEnt r => RawTy (k "Entity") None [] r
  | XRef r => RawTy (k "EntityOrCommon") None [] r
  end.

(* json.Marshal of jsonType / jsonAttr (embedded jsonType first, then required, annotations) *)
Fixpoint json_members_of_raw (r : rawty) : list (str * json) :=
  match r with
  | RawTy ty el attrs name =>
      [(k "type", JStr ty)]
      ++ match el with Some e => [(k "element", JObj (json_members_of_raw e))] | None => [] end
      ++ match attrs with
         | [] => []
         | _ => [(k "attributes",
                  JObj ((fix go (l : list (str * (rawty * option bool * annots))) : list (str * json) :=
                           match l with
                           | [] => []
                           | (key, (t, req, an)) :: rest =>
                               (key, JObj (json_members_of_raw t
                                           ++ match req with Some b => [(k "required", JBool b)] | None => [] end
                                           ++ enc_annots an)) :: go rest
                           end) attrs))]
         end
      ++ opt_member "name" (negb (is_nil name)) (JStr name)
  end.
Definition enc_type (t : xty) : json := JObj (json_members_of_raw (raw_of_type t)).

(* sort.Strings: insertion sort by byte order, duplicates kept *)
Fixpoint str_insert (s : str) (l : list str) : list str :=
  match l with [] => [s] | x :: r => if str_ltb x s then x :: str_insert s r else s :: l end.
Definition sort_strs (l : list str) : list str := fold_right str_insert [] l.

Definition enc_entity (e : x_entity) : json :=
  JObj (opt_member "memberOfTypes" (negb (is_nil (xe_parents e))) (JArr (map JStr (sort_strs (xe_parents e))))
        ++ match xe_shape e with Some r => [(k "shape", enc_type (XRec r))] | None => [] end
        ++ match xe_tags e with Some t => [(k "tags", enc_type t)] | None => [] end
        ++ enc_annots (xe_annots e)).
(* an enumerated type prints its values even when there are none: that member is what tells it from an ordinary entity type *)
Definition enc_enum (e : x_enum) : json :=
  JObj (enc_annots (xn_annots e) ++ [(k "enum", JArr (map JStr (xn_values e)))]).
Definition enc_common (c : x_common) : json :=
  JObj (json_members_of_raw (raw_of_type (xc_type c)) ++ enc_annots (xc_annots c)).
Definition enc_applies (a : x_applies) : json :=
  JObj ([(k "principalTypes", jstr_list (xa_principals a)); (k "resourceTypes", jstr_list (xa_resources a))]
        ++ match xa_context a with Some t => [(k "context", enc_type t)] | None => [] end).
Definition enc_action (a : x_action) : json :=
  JObj (opt_member "memberOf" (negb (is_nil (xac_parents a)))
                   (JArr (map (fun p : str * str => JObj [(k "id", JStr (snd p)); (k "type", JStr (fst p))]) (xac_parents a)))
        ++ match xac_applies a with Some ap => [(k "appliesTo", enc_applies ap)] | None => [] end
        ++ enc_annots (xac_annots a)).

Definition mapv {A B} (f : A -> B) (l : list (str * A)) : list (str * B) := map (fun kv => (fst kv, f (snd kv))) l.

(* marshalNamespace: enumerated types are written after the ordinary ones into the same map (an enum of the same name wins) *)
Definition enc_ns (bare : bool) (n : x_ns) : json :=
  JObj ([(k "entityTypes", JObj (rec_of_list (mapv enc_entity (xs_entities n) ++ mapv enc_enum (xs_enums n))));
         (k "actions", JObj (rec_of_list (mapv enc_action (xs_actions n))))]
        ++ opt_member "commonTypes" (negb (is_nil (xs_commons n))) (JObj (rec_of_list (mapv enc_common (xs_commons n))))
        ++ (if bare then [] else enc_annots (xs_annots n))).

Definition has_decls (n : x_ns) : bool :=
  negb (is_nil (xs_entities n) && is_nil (xs_enums n) && is_nil (xs_actions n) && is_nil (xs_commons n)).

(* Schema.MarshalJSON: the bare declarations go under "" only if there are any *)
Definition enc_schema (s : x_schema) : json :=
  JObj (rec_of_list (flat_map (fun kv : str * x_ns =>
                                 match fst kv with
                                 | [] => if has_decls (snd kv) then [([], enc_ns true (snd kv))] else []
                                 | name => [(name, enc_ns false (snd kv))]
                                 end) s)).

(* ---- decoding ---- *)
Definition type_fields : list string := ["type"; "element"; "attributes"; "name"]%string.
Definition attr_fields : list string := ["type"; "element"; "attributes"; "name"; "required"; "annotations"]%string.

(* map[string]string *)
Definition dec_annots_map (j : option json) : dres annots :=
  match j with
  | None | Some JNull => DOk []
  | Some (JObj m) => dbind (dall (map (fun kv : str * json => match snd kv with JStr v => DOk (fst kv, v) | JNull => DOk (fst kv, []) | _ => DErr end) m))
                           (fun kvs => DOk (rec_of_list kvs))
  | Some _ => DErr
  end.
(* []string *)
Definition dec_strs (j : option json) : dres (list str) :=
  match j with
  | None | Some JNull => DOk []
  | Some (JArr l) => dall (map (fun x => match x with JStr s => DOk s | JNull => DOk [] | _ => DErr end) l)
  | Some _ => DErr
  end.

(* json.Unmarshal into jsonType (MType), jsonAttr (MAttr: + required, annotations) or jsonCommonType (MCommon: + annotations) *)
Inductive rmode := MType | MAttr | MCommon.
Definition common_fields : list string := ["type"; "element"; "attributes"; "name"; "annotations"]%string.
Definition mode_fields (m : rmode) : list string := match m with MType => type_fields | MAttr => attr_fields | MCommon => common_fields end.
Fixpoint raw_of_json (fuel : nat) (attr : rmode) (j : json) {struct fuel} : dres (rawty * option bool * annots) :=
  match fuel with
  | O => DFuel
  | S f =>
    match j with
    | JNull => DOk (RawTy [] None [] [], None, [])
    | JObj m =>
        if negb (struct_ok (mode_fields attr) m) then DUnk else
        dbind (sfield "type" m) (fun ty =>
        dbind (sfield "name" m) (fun name =>
        dbind (match field "element" m with None => DOk None
               | Some e => dbind (raw_of_json f MType e) (fun r => DOk (Some (fst (fst r)))) end) (fun el =>
        dbind (match field "attributes" m with
               | None => DOk []
               | Some (JObj am) =>
                   dbind (dall ((fix go (l : list (str * json)) : list (dres (str * (rawty * option bool * annots))) :=
                                   match l with [] => [] | (key, x) :: r => dbind (raw_of_json f MAttr x) (fun a => DOk (key, a)) :: go r end) am))
                         (fun kvs => DOk (rec_of_list kvs))
               | Some _ => DErr
               end) (fun attrs =>
        match attr with
        | MType => DOk (RawTy ty el attrs name, None, [])
        | MAttr =>
          dbind (match field "required" m with None => DOk None | Some (JBool b) => DOk (Some b) | Some _ => DErr end) (fun req =>
          dbind (dec_annots_map (jget (k "annotations") m)) (fun an => DOk (RawTy ty el attrs name, req, an)))
        | MCommon => dbind (dec_annots_map (jget (k "annotations") m)) (fun an => DOk (RawTy ty el attrs name, None, an))
        end))))
    | _ => DErr
    end
  end.

(* unmarshalType / unmarshalRecordType *)
Fixpoint type_of_raw (r : rawty) : dres xty :=
  match r with
  | RawTy ty el attrs name =>
      if str_eqb ty (k "String") then DOk XString
      else if str_eqb ty (k "Long") then DOk XLong
      else if str_eqb ty (k "Boolean") then DOk XBool
      else if str_eqb ty (k "Extension") then DOk (XExt name)
      else if str_eqb ty (k "Set") then
        match el with None => DErr | Some e => dbind (type_of_raw e) (fun t => DOk (XSet t)) end
      else if str_eqb ty (k "Record") then
        dbind (dall ((fix go (l : list (str * (rawty * option bool * annots))) : list (dres (str * (xty * bool * annots))) :=
                        match l with
                        | [] => []
                        | (key, (t, req, an)) :: rest =>
                            dbind (type_of_raw t) (fun t' => DOk (key, (t', match req with Some false => true | _ => false end, an))) :: go rest
                        end) attrs))
              (fun fs => DOk (XRec fs))
      else if str_eqb ty (k "Entity") then DOk (XEnt name)
      else if str_eqb ty (k "EntityOrCommon") then DOk (XRef name)
      else DOk (XRef ty)
  end.

Definition dec_type (j : json) : dres xty :=
  dbind (raw_of_json (S (jdepth j)) MType j) (fun r => type_of_raw (fst (fst r))).
(* a *jsonType member: absent or null = nil *)
Definition dec_type_opt (j : option json) : dres (option xty) :=
  match j with None | Some JNull => DOk None | Some x => dbind (dec_type x) (fun t => DOk (Some t)) end.
Definition entity_fields : list string := ["memberOfTypes"; "shape"; "tags"; "annotations"; "enum"]%string.
Definition action_fields : list string := ["memberOf"; "appliesTo"; "annotations"]%string.
Definition applies_fields : list string := ["principalTypes"; "resourceTypes"; "context"]%string.
Definition parent_fields : list string := ["id"; "type"]%string.
Definition ns_fields : list string := ["entityTypes"; "actions"; "commonTypes"; "annotations"]%string.

(* json.Unmarshal into jsonEntityType, then the enum / entity split of unmarshalNamespace *)
Definition dec_entity_type (j : json) : dres (x_entity + x_enum) :=
  match j with
  | JNull => DOk (inl {| xe_annots := []; xe_parents := []; xe_shape := None; xe_tags := None |})
  | JObj m =>
      if negb (struct_ok entity_fields m) then DUnk else
      dbind (dec_strs (jget (k "memberOfTypes") m)) (fun parents =>
      dbind (dec_annots_map (jget (k "annotations") m)) (fun an =>
      (* the struct decode checks both pointers' shapes whether or not the entry turns out to be an enum *)
      dbind (match jget (k "shape") m with None | Some JNull => DOk None
             | Some x => dbind (raw_of_json (S (jdepth x)) MType x) (fun r => DOk (Some (fst (fst r)))) end) (fun shape_raw =>
      dbind (match jget (k "tags") m with None | Some JNull => DOk None
             | Some x => dbind (raw_of_json (S (jdepth x)) MType x) (fun r => DOk (Some (fst (fst r)))) end) (fun tags_raw =>
      match jget (k "enum") m with
      | Some (JArr vs) =>
          dbind (dec_strs (Some (JArr vs))) (fun values => DOk (inr {| xn_annots := an; xn_values := values |}))
      | None | Some JNull =>
          dbind (match shape_raw with
                 | None => DOk None
                 | Some (RawTy ty el attrs name) =>
                     dbind (type_of_raw (RawTy (k "Record") el attrs name)) (fun t => match t with XRec fs => DOk (Some fs) | _ => DErr end)
                 end) (fun shape =>
          dbind (match tags_raw with None => DOk None | Some r => dbind (type_of_raw r) (fun t => DOk (Some t)) end) (fun tags =>
          DOk (inl {| xe_annots := an; xe_parents := parents; xe_shape := shape; xe_tags := tags |})))
      | Some _ => DErr
      end))))
  | _ => DErr
  end.

Definition dec_parent (j : json) : dres (str * str) :=
  match j with
  | JNull => DOk ([], [])
  | JObj m => if negb (struct_ok parent_fields m) then DUnk else
              dbind (sfield "id" m) (fun i => dbind (sfield "type" m) (fun t => DOk (t, i)))
  | _ => DErr
  end.

Definition dec_applies (j : json) : dres x_applies :=
  match j with
  | JObj m => if negb (struct_ok applies_fields m) then DUnk else
              dbind (dec_strs (jget (k "principalTypes") m)) (fun ps =>
              dbind (dec_strs (jget (k "resourceTypes") m)) (fun rs =>
              dbind (dec_type_opt (jget (k "context") m)) (fun cx =>
              DOk {| xa_principals := ps; xa_resources := rs; xa_context := cx |})))
  | _ => DErr
  end.

Definition dec_action (j : json) : dres x_action :=
  match j with
  | JNull => DOk {| xac_annots := []; xac_parents := []; xac_applies := None |}
  | JObj m =>
      if negb (struct_ok action_fields m) then DUnk else
      dbind (match jget (k "memberOf") m with None | Some JNull => DOk [] | Some (JArr l) => dall (map dec_parent l) | Some _ => DErr end) (fun ps =>
      dbind (match jget (k "appliesTo") m with None | Some JNull => DOk None | Some x => dbind (dec_applies x) (fun a => DOk (Some a)) end) (fun ap =>
      dbind (dec_annots_map (jget (k "annotations") m)) (fun an =>
      DOk {| xac_annots := an; xac_parents := ps; xac_applies := ap |})))
  | _ => DErr
  end.

Definition dec_common (j : json) : dres x_common :=
  dbind (raw_of_json (S (jdepth j)) MCommon j) (fun r =>
  dbind (type_of_raw (fst (fst r))) (fun t => DOk {| xc_annots := snd r; xc_type := t |})).
Definition dec_map {A} (f : json -> dres A) (j : option json) : dres (list (str * A)) :=
  match j with
  | None | Some JNull => DOk []
  | Some (JObj m) => dbind (dall (map (fun kv : str * json => dbind (f (snd kv)) (fun a => DOk (fst kv, a))) m)) (fun kvs => DOk (rec_of_list kvs))
  | Some _ => DErr
  end.

Fixpoint split_sum {A B} (l : list (str * (A + B))) : list (str * A) * list (str * B) :=
  match l with
  | [] => ([], [])
  | (key, inl a) :: r => let '(x, y) := split_sum r in ((key, a) :: x, y)
  | (key, inr b) :: r => let '(x, y) := split_sum r in (x, (key, b) :: y)
  end.

Definition dec_ns (j : json) : dres x_ns :=
  match j with
  | JNull => DOk {| xs_annots := []; xs_entities := []; xs_enums := []; xs_commons := []; xs_actions := [] |}
  | JObj m =>
      if negb (struct_ok ns_fields m) then DUnk else
      dbind (dec_map dec_entity_type (jget (k "entityTypes") m)) (fun ets =>
      dbind (dec_map dec_action (jget (k "actions") m)) (fun acts =>
      dbind (dec_map dec_common (jget (k "commonTypes") m)) (fun cts =>
      dbind (dec_annots_map (jget (k "annotations") m)) (fun an =>
      let '(es, ens) := split_sum ets in
      DOk {| xs_annots := an; xs_entities := es; xs_enums := ens; xs_commons := cts; xs_actions := acts |}))))
  | _ => DErr
  end.

(* Schema.UnmarshalJSON: map[string]json.RawMessage, then each namespace; the annotations of the "" entry are dropped *)
Definition dec_schema (j : json) : dres x_schema :=
  if any_dups (S (jdepth j)) j then DUnk else
  match j with
  | JNull => DOk []
  | JObj m =>
      dbind (dall (map (fun kv : str * json =>
                          dbind (dec_ns (snd kv)) (fun n =>
                          DOk (fst kv, match fst kv with
                                       | [] => {| xs_annots := []; xs_entities := xs_entities n; xs_enums := xs_enums n;
                                                  xs_commons := xs_commons n; xs_actions := xs_actions n |}
                                       | _ => n end))) m))
            (fun nss => DOk (rec_of_list nss))
  | _ => DErr
  end.

(* ---- what the resolver sees of this AST (Impl/SchemaResolve.v) ---- *)
Fixpoint erase_ty (t : xty) : sty :=
  match t with
  | XString => TyString | XLong => TyLong | XBool => TyBool | XExt n => TyExt n
  | XSet e => TySet (erase_ty e)
  | XRec fs => TyRec ((fix go (l : xrec) : list (str * (sty * bool)) :=
                         match l with [] => [] | (key, (ty, opt, _)) :: r => (key, (erase_ty ty, opt)) :: go r end) fs)
  | XEnt r => TyEnt r | XRef r => TyRef r
  end.
Definition erase_rec (fs : xrec) : list (str * (sty * bool)) :=
  match erase_ty (XRec fs) with TyRec l => l | _ => [] end.
Definition erase_ns (kv : str * x_ns) : s_ns :=
  let n := snd kv in
  {| sn_name := fst kv;
     sn_entities := map (fun e : str * x_entity => {| se_name := fst e; se_parents := xe_parents (snd e);
                                                       se_shape := option_map erase_rec (xe_shape (snd e));
                                                       se_tags := option_map erase_ty (xe_tags (snd e)) |}) (xs_entities n);
     sn_enums := map fst (xs_enums n);
     sn_commons := map (fun c : str * x_common => (fst c, erase_ty (xc_type (snd c)))) (xs_commons n);
     sn_actions := map (fun a : str * x_action =>
                          {| sac_name := fst a; sac_parents := xac_parents (snd a);
                             sac_applies := option_map (fun ap => {| sa_principals := xa_principals ap; sa_resources := xa_resources ap;
                                                                      sa_context := option_map erase_ty (xa_context ap) |}) (xac_applies (snd a)) |})
                       (xs_actions n) |}.
Definition erase (s : x_schema) : s_schema := map erase_ns s.
