(* internal/parser/cedar_unmarshal.go: the recursive-descent parser over the token list (fromCedar and everything below).
   Every call decrements one shared fuel; PFuel = out of fuel (excluded by the theorems, never produced by the code). *)
From Coq Require Import ZArith List Bool String.
Import ListNotations.
From Cedar Require Import Base.Int64 Lang.Value Impl.Like Lang.Expr Impl.Eval Impl.Scanner Impl.Tokenizer Impl.Quote.
Local Open Scope Z_scope.

Inductive pres (A : Type) := POk (a : A) (rest : list token) | PErr | PFuel.
Arguments POk {A}. Arguments PErr {A}. Arguments PFuel {A}.

Definition eof_token : token := {| t_type := TEOF; t_off := 0; t_line := 0; t_col := 0; t_text := [] |}.
Definition peek (ts : list token) : token := match ts with t :: _ => t | [] => eof_token end.
(* advance(): does not move past the last token *)
Definition adv (ts : list token) : list token := match ts with _ :: (_ :: _) as r => r | _ => ts end.

Definition tx (t : token) (s : string) : bool := str_eqb (s_of s) (t_text t).
Definition is_ident (t : token) : bool := match t_type t with TIdent => true | _ => false end.
Definition is_int (t : token) : bool := match t_type t with TInt => true | _ => false end.
Definition is_string (t : token) : bool := match t_type t with TString => true | _ => false end.
Definition is_reserved_tok (t : token) : bool := match t_type t with TReserved => true | _ => false end.

(* exact(tok) *)
Definition exact (ts : list token) (s : string) : option (list token) := if tx (peek ts) s then Some (adv ts) else None.

(* strconv.ParseInt(text, 10, 64) for a digit string, optionally negated *)
Definition digits_val (text : list Z) : Z := fold_left (fun acc c => acc * 10 + (c - 48)) text 0.
Definition int_value (neg : bool) (text : list Z) : option Z :=
  let v := if neg then - digits_val text else digits_val text in
  if in64b v then Some v else None.

Definition path_sep : str := [58; 58].

(* entityFirstPathPreread: after the first path component *)
Fixpoint entity_rest (fuel : nat) (ty : str) (ts : list token) : pres uid :=
  match fuel with
  | O => PFuel
  | S f =>
    match exact ts "::" with
    | None => PErr
    | Some ts1 =>
      let t := peek ts1 in
      let ts2 := adv ts1 in
      if is_ident t then entity_rest f (ty ++ path_sep ++ t_text t) ts2
      else if is_string t then match string_value (t_text t) with Some id => POk (ty, id) ts2 | None => PErr end
      else PErr
    end
  end.
Definition p_entity (fuel : nat) (ts : list token) : pres uid :=
  let t := peek ts in if is_ident t then entity_rest fuel (t_text t) (adv ts) else PErr.

(* pathFirstPathPreread *)
Fixpoint path_rest (fuel : nat) (ty : str) (ts : list token) : pres str :=
  match fuel with
  | O => PFuel
  | S f =>
    if negb (tx (peek ts) "::") then POk ty ts else
    let ts1 := adv ts in
    let t := peek ts1 in
    if is_ident t then path_rest f (ty ++ path_sep ++ t_text t) (adv ts1) else PErr
  end.
Definition p_path (fuel : nat) (ts : list token) : pres str :=
  let t := peek ts in if is_ident t then path_rest fuel (t_text t) (adv ts) else PErr.

(* entlist: up to (not including) the closing bracket *)
Fixpoint p_entlist (fuel : nat) (ts : list token) (acc : list uid) : pres (list uid) :=
  match fuel with
  | O => PFuel
  | S f =>
    if tx (peek ts) "]" then POk acc ts else
    match p_entity f ts with
    | POk e ts1 =>
      if tx (peek ts1) "," then p_entlist f (adv ts1) (acc ++ [e])
      else if tx (peek ts1) "]" then p_entlist f ts1 (acc ++ [e])
      else PErr
    | PErr => PErr | PFuel => PFuel
    end
  end.

(* principal / resource scope (after the variable name) ; action scope *)
Definition p_scope_pr (fuel : nat) (ts : list token) : pres scope :=
  let t := peek ts in
  if tx t "==" then match p_entity fuel (adv ts) with POk e r => POk (SEq e) r | PErr => PErr | PFuel => PFuel end
  else if tx t "is" then
    match p_path fuel (adv ts) with
    | POk ty r =>
      if tx (peek r) "in" then match p_entity fuel (adv r) with POk e r2 => POk (SIsIn ty e) r2 | PErr => PErr | PFuel => PFuel end
      else POk (SIs ty) r
    | PErr => PErr | PFuel => PFuel
    end
  else if tx t "in" then match p_entity fuel (adv ts) with POk e r => POk (SIn e) r | PErr => PErr | PFuel => PFuel end
  else POk SAll ts.

Definition p_scope_action (fuel : nat) (ts : list token) : pres scope :=
  let t := peek ts in
  if tx t "==" then match p_entity fuel (adv ts) with POk e r => POk (SEq e) r | PErr => PErr | PFuel => PFuel end
  else if tx t "in" then
    let ts1 := adv ts in
    if tx (peek ts1) "[" then
      match p_entlist fuel (adv ts1) [] with POk es r => POk (SInSet es) (adv r) | PErr => PErr | PFuel => PFuel end
    else match p_entity fuel ts1 with POk e r => POk (SIn e) r | PErr => PErr | PFuel => PFuel end
  else POk SAll ts.

(* ---- expressions ---- *)
Definition var_of (text : list Z) : option var :=
  if str_eqb (s_of "principal") text then Some VPrincipal else if str_eqb (s_of "action") text then Some VAction
  else if str_eqb (s_of "resource") text then Some VResource else if str_eqb (s_of "context") text then Some VContext else None.

Definition relop (t : token) : option (expr -> expr -> expr) :=
  if tx t "<" then Some ELt else if tx t "<=" then Some ELe else if tx t ">" then Some EGt else if tx t ">=" then Some EGe
  else if tx t "!=" then Some ENe else if tx t "==" then Some EEq else if tx t "in" then Some EIn else None.

(* the unary operator prefix: true = '-' ; in source order *)
Fixpoint unary_ops (fuel : nat) (ts : list token) (acc : list bool) : option (list bool * list token) :=
  match fuel with
  | O => None
  | S f =>
    let t := peek ts in
    if tx t "-" then unary_ops f (adv ts) (acc ++ [true])
    else if tx t "!" then unary_ops f (adv ts) (acc ++ [false])
    else Some (acc, ts)
  end.
(* for i := len(ops)-1; i >= 0; i-- : innermost operator is the last one *)
Definition apply_ops (ops : list bool) (e : expr) : expr := fold_right (fun (neg : bool) acc => if neg then ENeg acc else ENot acc) e ops.

Definition method_call (name : str) (lhs : expr) (args : list expr) : option expr :=
  let one (f : expr -> expr -> expr) := match args with [a] => Some (f lhs a) | _ => None end in
  if str_eqb (s_of "contains") name then one EContains
  else if str_eqb (s_of "containsAll") name then one EContainsAll
  else if str_eqb (s_of "containsAny") name then one EContainsAny
  else if str_eqb (s_of "hasTag") name then one EHasTag
  else if str_eqb (s_of "getTag") name then one EGetTag
  else if str_eqb (s_of "isEmpty") name then match args with [] => Some (EIsEmpty lhs) | _ => None end
  else match ext_lookup name with
       | Some (_, true) => Some (ECall name (lhs :: args))
       | _ => None
       end.

Definition key_mem (k : str) (kvs : list (str * expr)) : bool := existsb (fun kv => str_eqb (fst kv) k) kvs.

Fixpoint p_expression (n : nat) (ts : list token) {struct n} : pres expr :=
  match n with
  | O => PFuel
  | S f =>
    if tx (peek ts) "if" then
      match p_expression f (adv ts) with
      | POk c r1 =>
        match exact r1 "then" with
        | None => PErr
        | Some r2 =>
          match p_expression f r2 with
          | POk a r3 =>
            match exact r3 "else" with
            | None => PErr
            | Some r4 => match p_expression f r4 with POk b r5 => POk (EIf c a b) r5 | PErr => PErr | PFuel => PFuel end
            end
          | PErr => PErr | PFuel => PFuel
          end
        end
      | PErr => PErr | PFuel => PFuel
      end
    else p_or f ts
  end
with p_or (n : nat) (ts : list token) {struct n} : pres expr :=
  match n with
  | O => PFuel
  | S f => match p_and f ts with POk lhs r => p_or_loop f lhs r | PErr => PErr | PFuel => PFuel end
  end
with p_or_loop (n : nat) (lhs : expr) (ts : list token) {struct n} : pres expr :=
  match n with
  | O => PFuel
  | S f =>
    if tx (peek ts) "||" then
      match p_and f (adv ts) with POk rhs r => p_or_loop f (EOr lhs rhs) r | PErr => PErr | PFuel => PFuel end
    else POk lhs ts
  end
with p_and (n : nat) (ts : list token) {struct n} : pres expr :=
  match n with
  | O => PFuel
  | S f => match p_relation f ts with POk lhs r => p_and_loop f lhs r | PErr => PErr | PFuel => PFuel end
  end
with p_and_loop (n : nat) (lhs : expr) (ts : list token) {struct n} : pres expr :=
  match n with
  | O => PFuel
  | S f =>
    if tx (peek ts) "&&" then
      match p_relation f (adv ts) with POk rhs r => p_and_loop f (EAnd lhs rhs) r | PErr => PErr | PFuel => PFuel end
    else POk lhs ts
  end
with p_relation (n : nat) (ts : list token) {struct n} : pres expr :=
  match n with
  | O => PFuel
  | S f =>
    match p_add f ts with
    | POk lhs r =>
      let t := peek r in
      if tx t "has" then
        (* has(lhs) *)
        let r1 := adv r in
        let t1 := peek r1 in
        if is_ident t1 then p_has_chain f (EHas lhs (t_text t1)) (EAccess lhs (t_text t1)) (adv r1)
        else if is_string t1 then match string_value (t_text t1) with Some s => POk (EHas lhs s) (adv r1) | None => PErr end
        else PErr
      else if tx t "like" then
        let r1 := adv r in
        let t1 := peek r1 in
        if is_string t1 then match parse_pattern (trim_quotes (t_text t1)) with Some p => POk (ELike lhs p) (adv r1) | None => PErr end
        else PErr
      else if tx t "is" then
        match p_path f (adv r) with
        | POk ty r2 =>
          if tx (peek r2) "in" then
            match p_add f (adv r2) with POk b r3 => POk (EIsIn lhs ty b) r3 | PErr => PErr | PFuel => PFuel end
          else POk (EIs lhs ty) r2
        | PErr => PErr | PFuel => PFuel
        end
      else match relop t with
           | Some op => match p_add f (adv r) with POk rhs r2 => POk (op lhs rhs) r2 | PErr => PErr | PFuel => PFuel end
           | None => POk lhs r
           end
    | PErr => PErr | PFuel => PFuel
    end
  end
with p_has_chain (n : nat) (result cur : expr) (ts : list token) {struct n} : pres expr :=
  match n with
  | O => PFuel
  | S f =>
    if tx (peek ts) "." then
      let r1 := adv ts in
      let t := peek r1 in
      if is_ident t then p_has_chain f (EAnd result (EHas cur (t_text t))) (EAccess cur (t_text t)) (adv r1) else PErr
    else POk result ts
  end
with p_add (n : nat) (ts : list token) {struct n} : pres expr :=
  match n with
  | O => PFuel
  | S f => match p_mult f ts with POk lhs r => p_add_loop f lhs r | PErr => PErr | PFuel => PFuel end
  end
with p_add_loop (n : nat) (lhs : expr) (ts : list token) {struct n} : pres expr :=
  match n with
  | O => PFuel
  | S f =>
    let t := peek ts in
    if tx t "+" then match p_mult f (adv ts) with POk rhs r => p_add_loop f (EAdd lhs rhs) r | PErr => PErr | PFuel => PFuel end
    else if tx t "-" then match p_mult f (adv ts) with POk rhs r => p_add_loop f (ESub lhs rhs) r | PErr => PErr | PFuel => PFuel end
    else POk lhs ts
  end
with p_mult (n : nat) (ts : list token) {struct n} : pres expr :=
  match n with
  | O => PFuel
  | S f => match p_unary f ts with POk lhs r => p_mult_loop f lhs r | PErr => PErr | PFuel => PFuel end
  end
with p_mult_loop (n : nat) (lhs : expr) (ts : list token) {struct n} : pres expr :=
  match n with
  | O => PFuel
  | S f =>
    if tx (peek ts) "*" then
      match p_unary f (adv ts) with POk rhs r => p_mult_loop f (EMul lhs rhs) r | PErr => PErr | PFuel => PFuel end
    else POk lhs ts
  end
with p_unary (n : nat) (ts : list token) {struct n} : pres expr :=
  match n with
  | O => PFuel
  | S f =>
    match unary_ops (S (List.length ts)) ts [] with
    | None => PFuel
    | Some (ops, r) =>
      let tok := peek r in
      match rev ops with
      | true :: ops_rev' =>
        if is_int tok then
          match int_value true (t_text tok) with
          | Some i => POk (apply_ops (rev ops_rev') (ELit (VLong i))) (adv r)
          | None => PErr
          end
        else match p_member f r with POk e r2 => POk (apply_ops ops e) r2 | PErr => PErr | PFuel => PFuel end
      | _ => match p_member f r with POk e r2 => POk (apply_ops ops e) r2 | PErr => PErr | PFuel => PFuel end
      end
    end
  end
with p_member (n : nat) (ts : list token) {struct n} : pres expr :=
  match n with
  | O => PFuel
  | S f => match p_primary f ts with POk e r => p_access_loop f e r | PErr => PErr | PFuel => PFuel end
  end
with p_access_loop (n : nat) (lhs : expr) (ts : list token) {struct n} : pres expr :=
  match n with
  | O => PFuel
  | S f =>
    let t := peek ts in
    if tx t "." then
      let r1 := adv ts in
      let t1 := peek r1 in
      if negb (is_ident t1) then PErr else
      let r2 := adv r1 in
      if tx (peek r2) "(" then
        match p_expressions f ")" (adv r2) [] with
        | POk args r3 =>
          match method_call (t_text t1) lhs args with
          | Some e => p_access_loop f e (adv r3)
          | None => PErr
          end
        | PErr => PErr | PFuel => PFuel
        end
      else p_access_loop f (EAccess lhs (t_text t1)) r2
    else if tx t "[" then
      let r1 := adv ts in
      let t1 := peek r1 in
      if negb (is_string t1) then PErr else
      match string_value (t_text t1) with
      | None => PErr
      | Some name => match exact (adv r1) "]" with Some r3 => p_access_loop f (EAccess lhs name) r3 | None => PErr end
      end
    else POk lhs ts
  end
with p_primary (n : nat) (ts : list token) {struct n} : pres expr :=
  match n with
  | O => PFuel
  | S f =>
    let t := peek ts in
    let r := adv ts in
    if is_int t then match int_value false (t_text t) with Some i => POk (ELit (VLong i)) r | None => PErr end
    else if is_string t then match string_value (t_text t) with Some s => POk (ELit (VString s)) r | None => PErr end
    else if tx t "true" then POk (ELit (VBool true)) r
    else if tx t "false" then POk (ELit (VBool false)) r
    else if is_ident t then
      let nx := peek r in
      if tx nx "::" || tx nx "(" then p_entity_or_extfun f (t_text t) r
      else match var_of (t_text t) with Some x => POk (EVar x) r | None => PErr end
    else if tx t "(" then
      match p_expression f r with
      | POk e r1 => match exact r1 ")" with Some r2 => POk e r2 | None => PErr end
      | PErr => PErr | PFuel => PFuel
      end
    else if tx t "[" then
      match p_expressions f "]" r [] with POk es r1 => POk (ESet es) (adv r1) | PErr => PErr | PFuel => PFuel end
    else if tx t "{" then p_record f r []
    else PErr
  end
with p_entity_or_extfun (n : nat) (prefix : str) (ts : list token) {struct n} : pres expr :=
  match n with
  | O => PFuel
  | S f =>
    let t := peek ts in
    let r := adv ts in
    if tx t "::" then
      let t1 := peek r in
      let r1 := adv r in
      if is_ident t1 then p_entity_or_extfun f (prefix ++ path_sep ++ t_text t1) r1
      else if is_string t1 then match string_value (t_text t1) with Some id => POk (ELit (VEntity prefix id)) r1 | None => PErr end
      else PErr
    else if tx t "(" then
      match ext_lookup prefix with
      | Some (_, false) =>
        match p_expressions f ")" r [] with POk args r1 => POk (ECall prefix args) (adv r1) | PErr => PErr | PFuel => PFuel end
      | _ => PErr
      end
    else PErr
  end
with p_expressions (n : nat) (close : string) (ts : list token) (acc : list expr) {struct n} : pres (list expr) :=
  match n with
  | O => PFuel
  | S f =>
    if tx (peek ts) close then POk acc ts else
    match p_expression f ts with
    | POk e r =>
      if tx (peek r) "," then p_expressions f close (adv r) (acc ++ [e])
      else if tx (peek r) close then p_expressions f close r (acc ++ [e])
      else PErr
    | PErr => PErr | PFuel => PFuel
    end
  end
with p_record (n : nat) (ts : list token) (acc : list (str * expr)) {struct n} : pres expr :=
  match n with
  | O => PFuel
  | S f =>
    let t := peek ts in
    if tx t "}" then POk (ERecord acc) (adv ts) else
    let key := if is_ident t then Some (t_text t) else if is_string t then string_value (t_text t) else None in
    match key with
    | None => PErr
    | Some k =>
      match exact (adv ts) ":" with
      | None => PErr
      | Some r1 =>
        match p_expression f r1 with
        | POk v r2 =>
          if key_mem k acc then PErr else
          if tx (peek r2) "," then p_record f (adv r2) (acc ++ [(k, v)])
          else if tx (peek r2) "}" then p_record f r2 (acc ++ [(k, v)])
          else PErr
        | PErr => PErr | PFuel => PFuel
        end
      end
    end
  end.

(* ---- policies ---- *)
Record ppolicy := { pp_annots : list (str * str); pp_pos : Z * Z * Z; pp_policy : policy }.

Fixpoint p_annotations (fuel : nat) (ts : list token) (acc : list (str * str)) : pres (list (str * str)) :=
  match fuel with
  | O => PFuel
  | S f =>
    if negb (tx (peek ts) "@") then POk acc ts else
    let r := adv ts in
    let t := peek r in
    if negb (is_ident t || is_reserved_tok t) then PErr else
    match exact (adv r) "(" with
    | None => PErr
    | Some r1 =>
      if existsb (fun kv => str_eqb (fst kv) (t_text t)) acc then PErr else
      let tv := peek r1 in
      if negb (is_string tv) then PErr else
      match string_value (t_text tv) with
      | None => PErr
      | Some v => match exact (adv r1) ")" with Some r3 => p_annotations f r3 (acc ++ [(t_text t, v)]) | None => PErr end
      end
    end
  end.

Fixpoint p_conditions (fuel : nat) (ts : list token) (acc : list (bool * expr)) : pres (list (bool * expr)) :=
  match fuel with
  | O => PFuel
  | S f =>
    let t := peek ts in
    let kind := if tx t "when" then Some true else if tx t "unless" then Some false else None in
    match kind with
    | None => POk acc ts
    | Some k =>
      match exact (adv ts) "{" with
      | None => PErr
      | Some r1 =>
        match p_expression f r1 with
        | POk e r2 => match exact r2 "}" with Some r3 => p_conditions f r3 (acc ++ [(k, e)]) | None => PErr end
        | PErr => PErr | PFuel => PFuel
        end
      end
    end
  end.

Definition bind {A B} (x : pres A) (k : A -> list token -> pres B) : pres B :=
  match x with POk a r => k a r | PErr => PErr | PFuel => PFuel end.
Definition bexact {B} (ts : list token) (s : string) (k : list token -> pres B) : pres B :=
  match exact ts s with Some r => k r | None => PErr end.

(* fromCedar *)
Definition p_policy (fuel : nat) (ts : list token) : pres ppolicy :=
  let first := peek ts in
  bind (p_annotations fuel ts []) (fun annots r0 =>
  let t := peek r0 in
  let eff := if tx t "permit" then Some true else if tx t "forbid" then Some false else None in
  match eff with
  | None => PErr
  | Some effect =>
    bexact (adv r0) "(" (fun r1 =>
    bexact r1 "principal" (fun r2 =>
    bind (p_scope_pr fuel r2) (fun sp r3 =>
    bexact r3 "," (fun r4 =>
    bexact r4 "action" (fun r5 =>
    bind (p_scope_action fuel r5) (fun sa r6 =>
    bexact r6 "," (fun r7 =>
    bexact r7 "resource" (fun r8 =>
    bind (p_scope_pr fuel r8) (fun sr r9 =>
    let r10 := if tx (peek r9) "," then adv r9 else r9 in
    bexact r10 ")" (fun r11 =>
    bind (p_conditions fuel r11 []) (fun conds r12 =>
    bexact r12 ";" (fun r13 =>
    POk {| pp_annots := annots; pp_pos := (t_off first, t_line first, t_col first);
           pp_policy := {| p_effect := effect; p_principal := sp; p_action := sa; p_resource := sr; p_conds := conds |} |} r13))))))))))))
  end).

(* PolicySlice.UnmarshalCedar / Decoder: policies until the EOF token *)
Fixpoint p_policies (fuel : nat) (ts : list token) (acc : list ppolicy) : pres (list ppolicy) :=
  match fuel with
  | O => PFuel
  | S f =>
    match t_type (peek ts) with
    | TEOF => POk acc ts
    | _ => bind (p_policy fuel ts) (fun p r => p_policies f r (acc ++ [p]))
    end
  end.
