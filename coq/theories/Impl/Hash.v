(* Value.hash() of types/*.go: FNV-1 (hash/fnv New64) for strings, entity uids, records and ip addresses,
   the two's complement bit pattern for long/decimal/datetime/duration, 0/1 for booleans, the sum of the
   member hashes for sets.  hash/fnv is Go's standard library: modelled, not verified. *)
From Coq Require Import ZArith List Bool.
Import ListNotations.
From Cedar Require Import Base.Int64 Lang.Value.
Local Open Scope Z_scope.

Definition fnv_offset : Z := 14695981039346656037.
Definition fnv_prime : Z := 1099511628211.

Definition fnv_write (h : Z) (bytes : list Z) : Z :=
  fold_left (fun h b => Z.lxor (wrapu64 (h * fnv_prime)) b) bytes h.

Fixpoint le_bytes (n : nat) (z : Z) : list Z :=
  match n with O => [] | S n' => (z mod 256) :: le_bytes n' (z / 256) end.

Fixpoint be_bytes (n : nat) (z : Z) : list Z :=      (* big-endian, n bytes *)
  match n with O => [] | S n' => (z / 256 ^ Z.of_nat n') mod 256 :: be_bytes n' z end.

Fixpoint vhash (v : value) {struct v} : Z :=
  match v with
  | VBool b => if b then 1 else 0
  | VLong z => wrapu64 z
  | VString s => fnv_write fnv_offset s
  | VEntity t i => fnv_write (fnv_write fnv_offset t) i
  | VSet l => (fix sum (l : list value) : Z := match l with [] => 0 | x :: l' => wrapu64 (vhash x + sum l') end) l
  | VRecord l =>
      match l with
      | [] => 0
      | _ => (fix go (l : list (str * value)) (h : Z) : Z :=
                match l with
                | [] => h
                | (k, x) :: l' => go l' (fnv_write (fnv_write h k) (le_bytes 8 (vhash x)))
                end) l fnv_offset
      end
  | VDecimal z => wrapu64 z
  | VDatetime z => wrapu64 z
  | VDuration z => wrapu64 z
  | VIP v6 a p => fnv_write fnv_offset (be_bytes (if v6 then 16 else 4) a ++ [p])
  end.
