(* types/authorize.go: the JSON codecs of Request, Decision and Diagnostic on JSON trees.
   Request{Principal, Action, Resource EntityUID; Context Record} is encoded by encoding/json's struct encoding: the three uids in the
   EXPLICIT spelling {"__entity":{"type","id"}} (EntityUID.MarshalJSON), the context as a record of explicitly encoded values.  Decoding is
   struct decoding: unknown members ignored; a missing member leaves the zero value; EntityUID.UnmarshalJSON (both spellings; null is an
   error) and Record.UnmarshalJSON (null = the empty record) are called for the members that are present.
   Diagnostic{Reasons []DiagnosticReason `omitempty`; Errors []DiagnosticError `omitempty`}: plain structs of strings and ints
   (Position{filename, offset, line, column}); an empty list is OMITTED by the encoder; null decodes to the zero value at every level; an int
   member must be a number written as an integer that fits 64 bits.
   Decision: "allow" / "deny"; Decision.UnmarshalJSON never fails: everything that is not exactly the text "allow" is Deny (at tree level:
   everything but the string allow; a differently ESCAPED spelling of that string is below the level of this model).
   Outside the model (DUnk): a repeated key anywhere, members that match a field name only up to case. *)
From Coq Require Import ZArith List Bool String.
Import ListNotations.
From Cedar Require Import Base.Int64 Base.Json Lang.Value Lang.Expr Impl.ValueJson Impl.PolicyJson Impl.EntityJson.
Local Open Scope Z_scope.

Record request := { rq_principal : uid; rq_action : uid; rq_resource : uid; rq_context : list (str * value) }.
Record position := { ps_file : str; ps_offset : Z; ps_line : Z; ps_column : Z }.
Record reason := { rs_policy : str; rs_pos : position }.
Record derror := { de_policy : str; de_pos : position; de_message : str }.
Record diagnostic := { dg_reasons : list reason; dg_errors : list derror }.

Section RequestJson.
  Variable print_ip : bool -> Z -> Z -> str.
  Variable ord : list json -> list json.            (* member order of an encoded set value *)

  (* ---- Request ---- *)
  Definition enc_uid_x (u : uid) : json := encode_value print_ip ord (VEntity (fst u) (snd u)).       (* EntityUID.MarshalJSON *)
  Definition enc_request (r : request) : json :=
    JObj [(k "principal", enc_uid_x (rq_principal r)); (k "action", enc_uid_x (rq_action r)); (k "resource", enc_uid_x (rq_resource r));
          (k "context", enc_record print_ip ord (rq_context r))].

  Definition req_fields : list string := ["principal"; "action"; "resource"; "context"; "type"; "id"; "__entity"; "__extn"; "fn"; "arg"]%string.
  Fixpoint any_fold_in (names : list string) (fuel : nat) (j : json) : bool :=
    match fuel with
    | O => true
    | S f =>
      match j with
      | JArr l => existsb (any_fold_in names f) l
      | JObj l => fold_only names l || existsb (fun kv : str * json => any_fold_in names f (snd kv)) l
      | _ => false
      end
    end.

  Definition zero_uid : uid := ([], []).
  Definition uid_member (key : string) (m : list (str * json)) : dres uid :=
    match jget (k key) m with None => DOk zero_uid | Some x => dec_uid x end.

  Definition dec_request (j : json) : dres request :=
    if any_fold_in req_fields (S (jdepth j)) j then DUnk else
    if any_dups (S (jdepth j)) j then DUnk else
    match j with
    | JNull => DOk {| rq_principal := zero_uid; rq_action := zero_uid; rq_resource := zero_uid; rq_context := [] |}
    | JObj m =>
        dbind (uid_member "principal" m) (fun p =>
        dbind (uid_member "action" m) (fun a =>
        dbind (uid_member "resource" m) (fun r =>
        dbind (dec_record (jget (k "context") m)) (fun c =>
        DOk {| rq_principal := p; rq_action := a; rq_resource := r; rq_context := c |}))))
    | _ => DErr
    end.

  (* ---- Decision ---- *)
  Definition enc_decision (allow : bool) : json := JStr (k (if allow then "allow" else "deny")).
  Definition dec_decision (j : json) : bool := match j with JStr s => str_eqb s (k "allow") | _ => false end.

  (* ---- Diagnostic ---- *)
  Definition enc_position (p : position) : json :=
    JObj [(k "filename", JStr (ps_file p)); (k "offset", JNum (ps_offset p)); (k "line", JNum (ps_line p)); (k "column", JNum (ps_column p))].
  Definition enc_reason (r : reason) : json := JObj [(k "policy", JStr (rs_policy r)); (k "position", enc_position (rs_pos r))].
  Definition enc_derror (e : derror) : json :=
    JObj [(k "policy", JStr (de_policy e)); (k "position", enc_position (de_pos e)); (k "message", JStr (de_message e))].
  Definition enc_diagnostic (d : diagnostic) : json :=
    JObj ((match dg_reasons d with [] => [] | l => [(k "reasons", JArr (map enc_reason l))] end) ++
          (match dg_errors d with [] => [] | l => [(k "errors", JArr (map enc_derror l))] end)).

  Definition diag_fields : list string := ["reasons"; "errors"; "policy"; "position"; "message"; "filename"; "offset"; "line"; "column"]%string.

  (* an `int` member: absent or null = 0; a number written as an integer that fits; anything else is an error *)
  Definition ifield (key : string) (m : list (str * json)) : dres Z :=
    match jget (k key) m with
    | None | Some JNull => DOk 0
    | Some (JNum z) => if in64b z then DOk z else DErr
    | Some _ => DErr
    end.
  Definition zero_position : position := {| ps_file := []; ps_offset := 0; ps_line := 0; ps_column := 0 |}.
  Definition dec_position (j : option json) : dres position :=
    match j with
    | None | Some JNull => DOk zero_position
    | Some (JObj m) =>
        dbind (sfield "filename" m) (fun f => dbind (ifield "offset" m) (fun o => dbind (ifield "line" m) (fun l => dbind (ifield "column" m) (fun c =>
        DOk {| ps_file := f; ps_offset := o; ps_line := l; ps_column := c |}))))
    | Some _ => DErr
    end.
  Definition dec_reason (j : json) : dres reason :=
    match j with
    | JNull => DOk {| rs_policy := []; rs_pos := zero_position |}
    | JObj m => dbind (sfield "policy" m) (fun id => dbind (dec_position (jget (k "position") m)) (fun p => DOk {| rs_policy := id; rs_pos := p |}))
    | _ => DErr
    end.
  Definition dec_derror (j : json) : dres derror :=
    match j with
    | JNull => DOk {| de_policy := []; de_pos := zero_position; de_message := [] |}
    | JObj m => dbind (sfield "policy" m) (fun id => dbind (dec_position (jget (k "position") m)) (fun p => dbind (sfield "message" m) (fun msg =>
                DOk {| de_policy := id; de_pos := p; de_message := msg |})))
    | _ => DErr
    end.
  Definition dec_list {A} (f : json -> dres A) (j : option json) : dres (list A) :=
    match j with
    | None | Some JNull => DOk []
    | Some (JArr l) => dall (map f l)
    | Some _ => DErr
    end.
  Definition dec_diagnostic (j : json) : dres diagnostic :=
    if any_fold_in diag_fields (S (jdepth j)) j then DUnk else
    if any_dups (S (jdepth j)) j then DUnk else
    match j with
    | JNull => DOk {| dg_reasons := []; dg_errors := [] |}
    | JObj m => dbind (dec_list dec_reason (jget (k "reasons") m)) (fun rs => dbind (dec_list dec_derror (jget (k "errors") m)) (fun es =>
                DOk {| dg_reasons := rs; dg_errors := es |}))
    | _ => DErr
    end.
End RequestJson.
