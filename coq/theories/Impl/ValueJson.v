(* types/json.go, set.go, record.go, entity_uid.go, decimal.go, ...: the JSON codec of Cedar values, on JSON trees.
   encode: explicit escapes {"__entity":{"type","id"}} and {"__extn":{"fn","arg"}}, sets as arrays (member order = an arbitrary
           permutation [ord] of the encoded members, in Go the slot order of the table), records as objects with sorted keys.
   decode: types.UnmarshalJSON's dispatch order: (1) an object with a usable "__extn" member, (2) '[' -> set,
           (3) '{' -> "__entity" member, else record, (4) scalar (string, bool, integer number). *)
From Coq Require Import ZArith List Bool String.
Import ListNotations.
From Cedar Require Import Base.Int64 Base.Json Lang.Value Impl.Decimal Impl.Duration Impl.Datetime Impl.IPAddr.
Local Open Scope Z_scope.

Section ValueJson.
  (* ip printing is net/netip's: kept abstract *)
  Variable print_ip : bool -> Z -> Z -> str.
  (* member order of an encoded set: any function returning a permutation of its argument *)
  Variable ord : list json -> list json.

  Definition k_extn := s_of "__extn".
  Definition k_entity := s_of "__entity".
  Definition k_fn := s_of "fn".
  Definition k_arg := s_of "arg".
  Definition k_type := s_of "type".
  Definition k_id := s_of "id".

  Definition extn (fn : string) (arg : str) : json :=
    JObj [(k_extn, JObj [(k_fn, JStr (s_of fn)); (k_arg, JStr arg)])].

  Fixpoint encode_value (v : value) {struct v} : json :=
    match v with
    | VBool b => JBool b
    | VLong z => JNum z
    | VString s => JStr s
    | VEntity t i => JObj [(k_entity, JObj [(k_type, JStr t); (k_id, JStr i)])]
    | VSet l => JArr (ord (List.map encode_value l))
    | VRecord l => JObj ((fix go (l : list (str * value)) : list (str * json) :=
                            match l with [] => [] | (k, x) :: l' => (k, encode_value x) :: go l' end) l)
    | VDecimal z => extn "decimal" (print_decimal z)
    | VDatetime z => extn "datetime" (print_datetime z)
    | VDuration z => extn "duration" (print_duration z)
    | VIP v6 a p => extn "ip" (print_ip v6 a p)
    end.

  (* json.Unmarshal into struct{Fn, Arg string}: members must be strings (or absent/null = ""), else a decode error *)
  (* the members are processed in document order: a string sets the field, null leaves it as it is, anything else is an error
     (so of several members with the same key the last STRING wins) *)
  Fixpoint str_field_from (k : str) (l : list (str * json)) (cur : str) : option str :=
    match l with
    | [] => Some cur
    | (k', v) :: r =>
        if str_eqb k' k then
          match v with
          | JStr s => str_field_from k r s
          | JNull => str_field_from k r cur
          | _ => None
          end
        else str_field_from k r cur
    end.
  Definition str_field (k : str) (l : list (str * json)) : option str := str_field_from k l [].

  (* the "__extn" probe: Some (Some (fn,arg)) = usable extension object; Some None = not an extension; None = cannot happen *)
  Definition extn_probe (j : json) : option (str * str) :=
    match j with
    | JObj l =>
        match jget k_extn l with
        | Some (JObj m) =>
            match str_field k_fn m, str_field k_arg m with
            | Some fn, Some arg => Some (fn, arg)
            | _, _ => None            (* json.Unmarshal fails: fall through to the other readings *)
            end
        | _ => None
        end
    | _ => None
    end.

  Definition entity_probe (l : list (str * json)) : option (str * str) :=
    match jget k_entity l with
    | Some (JObj m) =>
        (* the sibling fields "type"/"id" of entityValueJSON must also decode (strings or absent) *)
        match str_field k_type m, str_field k_id m, str_field k_type l, str_field k_id l with
        | Some t, Some i, Some _, Some _ => Some (t, i)
        | _, _, _, _ => None
        end
    | _ => None
    end.

  Definition is_name (s : str) (n : string) : bool := str_eqb s (s_of n).

  Definition decode_extn (fn arg : str) : option value :=
    if is_name fn "ip" then option_map (fun x => VIP (fst (fst x)) (snd (fst x)) (snd x)) (parse_ip arg)
    else if is_name fn "decimal" then option_map VDecimal (parse_decimal arg)
    else if is_name fn "datetime" then option_map VDatetime (parse_datetime arg)
    else if is_name fn "duration" then option_map VDuration (parse_duration arg)
    else None.

  Fixpoint all_some {A} (l : list (option A)) : option (list A) :=
    match l with
    | [] => Some []
    | Some x :: l' => option_map (cons x) (all_some l')
    | None :: _ => None
    end.

  Fixpoint decode_value (j : json) {struct j} : option value :=
    match extn_probe j with
    | Some (fn, arg) => decode_extn fn arg
    | None =>
      match j with
      | JArr l => option_map mk_set (all_some (List.map decode_value l))
      | JObj l =>
          match entity_probe l with
          | Some (t, i) => Some (VEntity t i)
          | None =>
              option_map (fun kvs => mk_record kvs)
                (all_some ((fix go (l : list (str * json)) : list (option (str * value)) :=
                              match l with
                              | [] => []
                              | (k, x) :: l' => option_map (pair k) (decode_value x) :: go l'
                              end) l))
          end
      | JStr s => Some (VString s)
      | JBool b => Some (VBool b)
      | JNum z => if in64b z then Some (VLong z) else None
      | JNumOther => None
      | JNull => None
      end
    end.
End ValueJson.
