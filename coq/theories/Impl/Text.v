(* Byte-string helpers shared by the scalar codecs: digits, decimal numerals, splitting. *)
From Coq Require Import ZArith List Bool Lia.
Import ListNotations.
From Cedar Require Import Lang.Value.
Local Open Scope Z_scope.

Definition is_digit (c : Z) : bool := (48 <=? c) && (c <=? 57).
Definition digit_val (c : Z) : Z := c - 48.

(* value of a digit string, most significant first; None if empty or a non-digit occurs *)
Fixpoint digits_val_acc (s : str) (acc : Z) : option Z :=
  match s with
  | [] => Some acc
  | c :: s' => if is_digit c then digits_val_acc s' (acc * 10 + digit_val c) else None
  end.

Definition parse_digits (s : str) : option Z :=
  match s with [] => None | _ => digits_val_acc s 0 end.

(* decimal numeral of a non-negative integer; [fuel] bounds the number of digits *)
Fixpoint digits_of (fuel : nat) (z : Z) (acc : str) : str :=
  match fuel with
  | O => acc
  | S f => let acc' := (48 + z mod 10) :: acc in
           if z <? 10 then acc' else digits_of f (z / 10) acc'
  end.

Definition print_nat (z : Z) : str := digits_of 40 z [].

Definition print_int (z : Z) : str := if z <? 0 then 45 :: print_nat (- z) else print_nat z.

(* zero-padded to width w *)
Fixpoint pad_left (w : nat) (s : str) : str :=
  if Nat.leb w (length s) then s else
  match w with O => s | S w' => 48 :: pad_left w' s end.

Definition print_padded (w : nat) (z : Z) : str :=
  let s := print_nat z in
  repeat 48 (w - length s) ++ s.

Fixpoint index_of (c : Z) (s : str) : option nat :=
  match s with
  | [] => None
  | x :: s' => if x =? c then Some O else option_map S (index_of c s')
  end.

Fixpoint count_of (c : Z) (s : str) : Z :=
  match s with
  | [] => 0
  | x :: s' => (if x =? c then 1 else 0) + count_of c s'
  end.

(* strconv.ParseInt(s, 10, 64): optional sign, at least one digit, all digits, range checked by caller *)
Definition parse_signed (s : str) : option Z :=
  match s with
  | 45 :: r => option_map Z.opp (parse_digits r)
  | 43 :: r => parse_digits r
  | _ => parse_digits s
  end.

Fixpoint last_index_of (c : Z) (s : str) : option nat :=
  match s with
  | [] => None
  | x :: s' => match last_index_of c s' with
               | Some i => Some (S i)
               | None => if x =? c then Some O else None
               end
  end.
