(* types/entity.go, entity_map.go, entity_uid.go (JSON part), record.go (JSON part): the JSON codec of entities and entity maps on JSON
   trees.  An entity is {"uid", "parents", "attrs", "tags"} with the IMPLICIT spelling {"type","id"} for the uid and the parents (sorted by
   type, then id) and the explicit value encoding (Impl/ValueJson.v) inside attrs and tags; an entity map is the array of its entities
   sorted by the text of their uids.  Decoding goes through encoding/json's struct decoding (Entity has no UnmarshalJSON of its own):
   unknown members ignored, null = zero value where the field type has no unmarshaler; EntityUID.UnmarshalJSON accepts the explicit
   {"__entity":{..}} and the implicit {"type","id"} spelling; Record.UnmarshalJSON decodes every member as a value.
   Outside the model (DUnk): documents with a repeated key in any object, struct members that match a field name only up to case. *)
From Coq Require Import ZArith List Bool String.
Import ListNotations.
From Cedar Require Import Base.Json Lang.Value Lang.Expr Impl.ValueJson Impl.PolicyJson.
Local Open Scope Z_scope.

Section EntityJson.
  Variable print_ip : bool -> Z -> Z -> str.
  Variable ord : list json -> list json.            (* member order of an encoded set value *)
  Variable ukey : uid -> str.                       (* EntityUID.String(): the sort key of EntityMap.MarshalJSON *)

  (* ImplicitlyMarshaledEntityUID.MarshalJSON *)
  Definition enc_uid_implicit (u : uid) : json := JObj [(k "type", JStr (fst u)); (k "id", JStr (snd u))].

  (* the order of Entity.MarshalJSON's parents: by type, then id (strings.Compare = byte order) *)
  Definition uid_ltb (a b : uid) : bool := str_ltb (fst a) (fst b) || (str_eqb (fst a) (fst b) && str_ltb (snd a) (snd b)).
  Fixpoint uid_insert (u : uid) (l : list uid) : list uid :=
    match l with [] => [u] | x :: r => if uid_ltb x u then x :: uid_insert u r else u :: l end.
  Definition sort_uids (l : list uid) : list uid := fold_right uid_insert [] l.

  (* Record.MarshalJSON: keys sorted (the model's records are key-sorted lists), members in the explicit value encoding *)
  Definition enc_record (kvs : list (str * value)) : json := encode_value print_ip ord (VRecord kvs).

  Definition enc_entity (ue : uid * entity) : json :=
    JObj [(k "uid", enc_uid_implicit (fst ue));
          (k "parents", JArr (map enc_uid_implicit (sort_uids (e_parents (snd ue)))));
          (k "attrs", enc_record (e_attrs (snd ue)));
          (k "tags", enc_record (e_tags (snd ue)))].

  (* EntityMap.MarshalJSON: sorted by UID.String() *)
  Fixpoint ent_insert (x : uid * entity) (l : list (uid * entity)) : list (uid * entity) :=
    match l with [] => [x] | y :: r => if str_ltb (ukey (fst y)) (ukey (fst x)) then y :: ent_insert x r else x :: l end.
  Definition sort_entities (m : store) : store := fold_right ent_insert [] m.
  Definition enc_entity_map (m : store) : json := JArr (map enc_entity (sort_entities m)).

  (* ---- decoding ---- *)
  (* EntityUID.UnmarshalJSON via entityValueJSON{Type *string, ID *string, Entity *extEntity}.  JSON null reaches the unmarshaler as
     `null`: every pointer stays nil, which is errJSONEntityNotFound *)
  Definition dec_uid (j : json) : dres uid :=
    match j with
    | JObj m =>
        if has_dups m || negb (struct_ok ["type"; "id"; "__entity"]%string m) then DUnk else
        let strp (key : string) : dres (option str) :=
            match jget (k key) m with None | Some JNull => DOk None | Some (JStr s) => DOk (Some s) | Some _ => DErr end in
        dbind (strp "type"%string) (fun ty =>
        dbind (strp "id"%string) (fun id =>
        match jget (k "__entity") m with
        | Some (JObj em) =>
            if has_dups em || negb (struct_ok ["type"; "id"]%string em) then DUnk else
            dbind (sfield "type" em) (fun t => dbind (sfield "id" em) (fun i => DOk (t, i)))
        | None | Some JNull =>
            match ty, id with Some t, Some i => DOk (t, i) | _, _ => DErr end
        | Some _ => DErr
        end))
    | _ => DErr
    end.

  (* Record.UnmarshalJSON: map[string]explicitValue; null or {} = the empty record; a repeated key: the last member wins *)
  Definition dec_record (j : option json) : dres (list (str * value)) :=
    match j with
    | None | Some JNull => DOk []
    | Some (JObj m) =>
        dbind (dall (map (fun kv : str * json => match decode_value (snd kv) with Some v => DOk (fst kv, v) | None => DErr end) m))
              (fun kvs => DOk (rec_of_list kvs))
    | Some _ => DErr
    end.

  (* mapset.FromItems: the members in first-occurrence order *)
  Definition uid_eqb (a b : uid) : bool := str_eqb (fst a) (fst b) && str_eqb (snd a) (snd b).
  Fixpoint dedup_uids (l : list uid) (seen : list uid) : list uid :=
    match l with
    | [] => []
    | u :: r => if existsb (uid_eqb u) seen then dedup_uids r seen else u :: dedup_uids r (u :: seen)
    end.

  Definition zero_entity : uid * entity := (([], []), {| e_parents := []; e_attrs := []; e_tags := [] |}).

  (* json.Unmarshal into Entity (plain struct decoding) *)
  Definition dec_entity (j : json) : dres (uid * entity) :=
    match j with
    | JNull => DOk zero_entity
    | JObj m =>
        if has_dups m || negb (struct_ok ["uid"; "parents"; "attrs"; "tags"]%string m) then DUnk else
        dbind (match jget (k "uid") m with None => DOk ([], []) | Some x => dec_uid x end) (fun u =>
        dbind (match jget (k "parents") m with
               | None | Some JNull => DOk []
               | Some (JArr l) => dbind (dall (map dec_uid l)) (fun us => DOk (dedup_uids us []))
               | Some _ => DErr
               end) (fun ps =>
        dbind (dec_record (jget (k "attrs") m)) (fun attrs =>
        dbind (dec_record (jget (k "tags") m)) (fun tags =>
        DOk (u, {| e_parents := ps; e_attrs := attrs; e_tags := tags |})))))
    | _ => DErr
    end.

  (* EntityMap.UnmarshalJSON: []Entity, then res[e.UID] = e in order (a later entity with the same uid replaces the earlier one) *)
  Fixpoint store_put (u : uid) (e : entity) (m : store) : store :=
    match m with
    | [] => [(u, e)]
    | (u', e') :: r => if uid_eqb u' u then (u, e) :: r else (u', e') :: store_put u e r
    end.
  (* encoding/json matches struct field names case-insensitively; an object ANYWHERE in the document with a key that is one of the
     field names only up to case (they could be struct members of the entity or of the value escapes) is outside the model *)
  Definition all_fields : list string := ["uid"; "parents"; "attrs"; "tags"; "type"; "id"; "__entity"; "__extn"; "fn"; "arg"]%string.
  (* the letters with a non-ASCII character in their simple case-folding orbit: long s (C5 BF), Kelvin sign (E2 84 AA), dotted capital I
     and dotless i (C4 B0, C4 B1); a key containing one of them may match a field name in ways the model does not compute *)
  Fixpoint has_special (key : str) : bool :=
    match key with
    | 197 :: ((191 :: _) as r) => true
    | 196 :: ((176 :: _) as r) => true
    | 196 :: ((177 :: _) as r) => true
    | 226 :: ((132 :: 170 :: _) as r) => true
    | _ :: r => has_special r
    | [] => false
    end.
  Definition fold_only (names : list string) (l : list (str * json)) : bool :=
    existsb (fun kv : str * json => negb (existsb (fun n => str_eqb (k n) (fst kv)) names) &&
                                     (existsb (fun n => fold_eq (k n) (fst kv)) names || has_special (fst kv))) l.
  Fixpoint any_fold (fuel : nat) (j : json) : bool :=
    match fuel with
    | O => true
    | S f =>
      match j with
      | JArr l => existsb (any_fold f) l
      | JObj l => fold_only all_fields l || existsb (fun kv : str * json => any_fold f (snd kv)) l
      | _ => false
      end
    end.

  Definition dec_entity_map (j : json) : dres store :=
    if any_fold (S (jdepth j)) j then DUnk else
    if any_dups (S (jdepth j)) j then DUnk else        (* encoding/json merges repeated struct-valued members: outside the model *)
    match j with
    | JNull => DOk []
    | JArr l => dbind (dall (map dec_entity l)) (fun es => DOk (fold_left (fun m ue => store_put (fst ue) (snd ue) m) es []))
    | _ => DErr
    end.
End EntityJson.
