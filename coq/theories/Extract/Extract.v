(* Extraction of the executable models for the correspondence runner.
   ExtrOcamlBasic only: bool, option, unit, prod, list, sumbool, sumor map to OCaml's;
   Z / N / positive / nat stay Coq inductives (no Extract Constant, no OCaml int). *)
Require Extraction.
Require Import ExtrOcamlBasic.
From Coq Require Import ZArith List.
From Cedar Require Import Base.Int64 Impl.Authorize.
Extraction Language OCaml.
Extraction "model.ml" Authorize.authorize Z.add Z.mul Z.opp Z.of_nat Z.compare.
