(* Extraction of the executable models for the correspondence runner.
   ExtrOcamlBasic only: bool, option, unit, prod, list, sumbool, sumor map to OCaml's;
   Z / N / positive / nat stay Coq inductives (no Extract Constant, no OCaml int). *)
Require Extraction.
Require Import ExtrOcamlBasic.
From Coq Require Import ZArith List.
From Cedar Require Import Base.Int64 Lang.Value Lang.Expr Impl.Authorize Impl.Like Impl.Eval
  Impl.Decimal Impl.Duration Impl.Datetime Impl.IPAddr Impl.Fold Impl.PolicySet Impl.HashSet Impl.Partial Impl.Batch Impl.Hash Impl.SetTable Generated.Tables Impl.Scanner Impl.Tokenizer Lang.Cursor Impl.Quote Impl.IPPrint Impl.Parser Impl.Printer Base.Json Impl.ValueJson Impl.PolicyJson Impl.SchemaResolve Impl.TypeCheck Impl.SchemaJson Impl.ValidatePolicy Impl.EntityJson Impl.RequestJson Impl.Coerce Impl.Conform Impl.UidText Impl.SchemaText.
Extraction Language OCaml.
Extraction "model.ml"
  Authorize.authorize
  Value.mk_set Value.mk_record Value.rec_of_list Value.veq Value.s_of
  Like.compile_pattern Like.go_match
  Eval.eval Eval.bool_eval Eval.policy_to_expr
  Decimal.parse_decimal Decimal.print_decimal Decimal.new_decimal_exp
  Duration.parse_duration Duration.print_duration
  Datetime.parse_datetime Datetime.print_datetime
  IPAddr.parse_ip
  Fold.fold Fold.fold_policy Tables.fold_table
  PolicySet.run
  Partial.partial_policy Partial.partial
  Batch.batch_authorize
  SetTable.marshal_order Value.vmem Value.dedup
  Tokenizer.tokenize Cursor.spec_tokenize
  Parser.p_policies Printer.policy_items Printer.render Printer.toks IPPrint.print_ip Quote.string_value Quote.parse_pattern
  ValueJson.encode_value ValueJson.decode_value
  PolicyJson.enc_policy PolicyJson.dec_policy PolicyJson.enc_policy_set PolicyJson.dec_policy_set
  SchemaResolve.resolve_schema SchemaResolve.is_descendant
  TypeCheck.typeof
  SchemaJson.enc_schema SchemaJson.dec_schema SchemaJson.erase
  ValidatePolicy.validate_policy
  EntityJson.enc_entity_map EntityJson.dec_entity_map RequestJson.enc_request RequestJson.dec_request RequestJson.enc_decision RequestJson.dec_decision RequestJson.enc_diagnostic RequestJson.dec_diagnostic Coerce.coerce Coerce.coerce_tags Coerce.coerce_entity Conform.check_value Conform.check_entity Conform.check_entities Conform.check_request UidText.parse_uid UidText.print_uid
  SchemaText.parse_schema SchemaText.print_schema.
