(* unicode/utf8: DecodeRune and FullRune on byte lists (Go standard library: modelled, not verified). *)
From Coq Require Import ZArith List Bool.
Import ListNotations.
Local Open Scope Z_scope.

Definition rune_error : Z := 65533.   (* U+FFFD *)

Definition is_cont (b : Z) : bool := (128 <=? b) && (b <=? 191).

(* utf8.DecodeRune: (rune, width); (RuneError, 0) on empty input, (RuneError, 1) on any invalid or short encoding *)
Definition decode_rune (p : list Z) : Z * nat :=
  match p with
  | [] => (rune_error, 0%nat)
  | b0 :: r =>
    if b0 <? 128 then (b0, 1%nat)
    else if b0 <? 194 then (rune_error, 1%nat)                       (* continuation byte or overlong C0/C1 *)
    else if b0 <? 224 then                                          (* 2-byte *)
      match r with
      | b1 :: _ => if is_cont b1 then ((b0 - 192) * 64 + (b1 - 128), 2%nat) else (rune_error, 1%nat)
      | _ => (rune_error, 1%nat)
      end
    else if b0 <? 240 then                                          (* 3-byte: E0 needs A0..BF, ED needs 80..9F *)
      match r with
      | b1 :: b2 :: _ =>
          let lo := if b0 =? 224 then 160 else 128 in
          let hi := if b0 =? 237 then 159 else 191 in
          if (lo <=? b1) && (b1 <=? hi) && is_cont b2
          then ((b0 - 224) * 4096 + (b1 - 128) * 64 + (b2 - 128), 3%nat) else (rune_error, 1%nat)
      | _ => (rune_error, 1%nat)
      end
    else if b0 <? 245 then                                          (* 4-byte: F0 needs 90..BF, F4 needs 80..8F *)
      match r with
      | b1 :: b2 :: b3 :: _ =>
          let lo := if b0 =? 240 then 144 else 128 in
          let hi := if b0 =? 244 then 143 else 191 in
          if (lo <=? b1) && (b1 <=? hi) && is_cont b2 && is_cont b3
          then ((b0 - 240) * 262144 + (b1 - 128) * 4096 + (b2 - 128) * 64 + (b3 - 128), 4%nat) else (rune_error, 1%nat)
      | _ => (rune_error, 1%nat)
      end
    else (rune_error, 1%nat)
  end.

(* utf8.FullRune: does p begin with a full encoding of a rune (an invalid encoding counts as a full width-1 error rune) *)
Definition full_rune (p : list Z) : bool :=
  match p with
  | [] => false
  | b0 :: r =>
    if b0 <? 194 then true
    else if b0 <? 224 then negb (match r with [] => true | _ => false end)
    else if b0 <? 240 then
      match r with
      | [] => false
      | b1 :: r' =>
          let lo := if b0 =? 224 then 160 else 128 in
          let hi := if b0 =? 237 then 159 else 191 in
          if negb ((lo <=? b1) && (b1 <=? hi)) then true else negb (match r' with [] => true | _ => false end)
      end
    else if b0 <? 245 then
      match r with
      | [] => false
      | b1 :: r' =>
          let lo := if b0 =? 240 then 144 else 128 in
          let hi := if b0 =? 244 then 143 else 191 in
          if negb ((lo <=? b1) && (b1 <=? hi)) then true else
          match r' with
          | [] => false
          | b2 :: r'' => if negb (is_cont b2) then true else negb (match r'' with [] => true | _ => false end)
          end
      end
    else true
  end.
