(* Go int64 / uint64 arithmetic over unbounded Z with explicit wrap-around. *)
From Coq Require Import ZArith Lia Bool.
Local Open Scope Z_scope.

Definition two63 : Z := 9223372036854775808.
Definition two64 : Z := 18446744073709551616.
Definition min64 : Z := - two63.
Definition max64 : Z := two63 - 1.

Definition in64 (z : Z) : Prop := min64 <= z <= max64.
Definition in64b (z : Z) : bool := (min64 <=? z) && (z <=? max64).

(* two's complement wrap of an arbitrary integer into [-2^63, 2^63) *)
Definition wrap64 (z : Z) : Z := (z + two63) mod two64 - two63.
(* wrap into [0, 2^64) *)
Definition wrapu64 (z : Z) : Z := z mod two64.

(* Go's / and % on int64: truncated; the one overflowing case MinInt64 / -1 wraps. *)
Definition goquot (a b : Z) : Z := wrap64 (Z.quot a b).
Definition gorem (a b : Z) : Z := Z.rem a b.

Lemma in64b_spec z : in64b z = true <-> in64 z.
Proof. unfold in64b, in64. rewrite andb_true_iff, !Z.leb_le. tauto. Qed.

Lemma in64b_false z : in64b z = false <-> ~ in64 z.
Proof. rewrite <- in64b_spec. destruct (in64b z); split; congruence || tauto. Qed.

Lemma wrap64_in z : in64 (wrap64 z).
Proof.
  unfold wrap64, in64, min64, max64.
  pose proof (Z.mod_pos_bound (z + two63) two64 ltac:(reflexivity)).
  unfold two64, two63 in *. lia.
Qed.

Lemma wrap64_id z : in64 z -> wrap64 z = z.
Proof.
  unfold wrap64, in64, min64, max64; intros H.
  rewrite Z.mod_small; unfold two64, two63 in *; lia.
Qed.

Lemma wrap64_eq z : exists k, wrap64 z = z + k * two64.
Proof.
  unfold wrap64. exists (- ((z + two63) / two64)).
  pose proof (Z.div_mod (z + two63) two64 ltac:(discriminate)). lia.
Qed.

Lemma wrap64_id_iff z : wrap64 z = z <-> in64 z.
Proof. split; [intros <-; apply wrap64_in | apply wrap64_id]. Qed.

Lemma wrapu64_range z : 0 <= wrapu64 z < two64.
Proof. unfold wrapu64. apply Z.mod_pos_bound. reflexivity. Qed.

Lemma wrapu64_id z : 0 <= z < two64 -> wrapu64 z = z.
Proof. intros; unfold wrapu64; apply Z.mod_small; auto. Qed.
