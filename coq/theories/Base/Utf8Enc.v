(* unicode/utf8: ValidRune and AppendRune / EncodeRune on byte lists (Go standard library: modelled, not verified). *)
From Coq Require Import ZArith List Bool.
Import ListNotations.
From Cedar Require Import Base.Utf8.
Local Open Scope Z_scope.

Definition valid_rune (r : Z) : bool := ((0 <=? r) && (r <? 55296)) || ((57344 <=? r) && (r <=? 1114111)).

(* utf8.AppendRune: an invalid rune is encoded as U+FFFD *)
Definition encode_rune (r : Z) : list Z :=
  let r := if valid_rune r then r else rune_error in
  if r <? 128 then [r]
  else if r <? 2048 then [192 + r / 64; 128 + r mod 64]
  else if r <? 65536 then [224 + r / 4096; 128 + (r / 64) mod 64; 128 + r mod 64]
  else [240 + r / 262144; 128 + (r / 4096) mod 64; 128 + (r / 64) mod 64; 128 + r mod 64].

(* `for _, r := range s`: the runes of a Go string; an invalid byte yields U+FFFD and advances by one byte *)
Fixpoint runes_of (fuel : nat) (s : list Z) : list Z :=
  match fuel, s with
  | O, _ => []
  | _, [] => []
  | S f, _ => let '(ch, w) := decode_rune s in ch :: runes_of f (skipn (Nat.max w 1) s)
  end.
Definition runes (s : list Z) : list Z := runes_of (length s) s.

Definition encode_runes (rs : list Z) : list Z := flat_map encode_rune rs.

(* utf8.Valid *)
Fixpoint valid_utf8_fuel (fuel : nat) (s : list Z) : bool :=
  match fuel, s with
  | _, [] => true
  | O, _ => false
  | S f, _ => let '(ch, w) := decode_rune s in
              if (ch =? rune_error) && Nat.leb w 1 then false else valid_utf8_fuel f (skipn w s)
  end.
Definition valid_utf8 (s : list Z) : bool := valid_utf8_fuel (length s) s.
