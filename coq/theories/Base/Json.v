(* JSON documents as trees.  Bytes <-> tree is Go's encoding/json (standard library: modelled, not verified). *)
From Coq Require Import ZArith List.
Import ListNotations.
From Cedar Require Import Lang.Value.

Inductive json :=
| JNull
| JBool (b : bool)
| JNum (z : Z)              (* a number written as an integer *)
| JNumOther                 (* any other number (fraction or exponent) *)
| JStr (s : str)
| JArr (l : list json)
| JObj (l : list (str * json)).   (* members in document order; duplicate keys possible (the last wins in Go) *)

(* last binding of a key *)
Fixpoint jget (k : str) (l : list (str * json)) : option json :=
  match l with
  | [] => None
  | (k', v) :: l' => match jget k l' with Some x => Some x | None => if str_eqb k' k then Some v else None end
  end.
