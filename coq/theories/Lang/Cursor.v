(* Specification side of the scanner: a reader-free cursor over the WHOLE source byte string, with the same interface the
   tokenizer uses (next, token_start / stop, position, text, error flag).  No buffer, no refill, no reader schedule:
   what Impl.Scanner must be equivalent to on every schedule.  Instantiating Impl.Tokenizer with it gives the
   specification tokenizer [spec_tokenize]. *)
From Coq Require Import ZArith List Bool.
Import ListNotations.
From Cedar Require Import Base.Utf8 Lang.Value Impl.Scanner Impl.Tokenizer.
Local Open Scope Z_scope.

Record cursor := {
  c_src : list Z;          (* the whole source *)
  c_idx : nat;             (* bytes consumed so far *)
  c_line : Z; c_col : Z; c_lastLineLen : Z;
  c_lastCharLen : nat;     (* width of the character consumed last (0 after EOF) *)
  c_tok : option nat;      (* byte index where the current token text starts *)
  c_err : bool;
}.

Definition c_init (src : list Z) : cursor :=
  {| c_src := src; c_idx := 0; c_line := 1; c_col := 0; c_lastLineLen := 0; c_lastCharLen := 0; c_tok := None; c_err := false |}.

Definition c_set_err (c : cursor) : cursor :=
  {| c_src := c_src c; c_idx := c_idx c; c_line := c_line c; c_col := c_col c; c_lastLineLen := c_lastLineLen c;
     c_lastCharLen := c_lastCharLen c; c_tok := c_tok c; c_err := true |}.

Definition c_next (c : cursor) : cursor * Z :=
  match skipn (c_idx c) (c_src c) with
  | [] =>
      ({| c_src := c_src c; c_idx := c_idx c; c_line := c_line c;
          c_col := if Nat.ltb 0 (c_lastCharLen c) then c_col c + 1 else c_col c;
          c_lastLineLen := c_lastLineLen c; c_lastCharLen := 0; c_tok := c_tok c; c_err := c_err c |}, rune_eof)
  | (b :: _) as rest =>
      let '(ch, w) := if b <? 128 then (b, 1%nat) else decode_rune rest in
      let invalid := (128 <=? b) && (ch =? rune_error) && Nat.eqb w 1 in
      let nl := (ch =? 10) && negb invalid in
      let col := c_col c + 1 in
      let c' := {| c_src := c_src c; c_idx := c_idx c + w;
                   c_line := if nl then c_line c + 1 else c_line c;
                   c_col := if nl then 0 else col;
                   c_lastLineLen := if nl then col else c_lastLineLen c;
                   c_lastCharLen := w; c_tok := c_tok c; c_err := c_err c |} in
      (if invalid || (ch =? 0) then c_set_err c' else c', ch)
  end.

Definition c_token_start (c : cursor) : cursor :=
  {| c_src := c_src c; c_idx := c_idx c; c_line := c_line c; c_col := c_col c; c_lastLineLen := c_lastLineLen c;
     c_lastCharLen := c_lastCharLen c; c_tok := Some (c_idx c - c_lastCharLen c)%nat; c_err := c_err c |}.

Definition c_token_stop (c : cursor) : cursor :=
  {| c_src := c_src c; c_idx := c_idx c; c_line := c_line c; c_col := c_col c; c_lastLineLen := c_lastLineLen c;
     c_lastCharLen := c_lastCharLen c; c_tok := None; c_err := c_err c |}.

Definition c_token_position (c : cursor) : Z * Z * Z :=
  let off := Z.of_nat (c_idx c - c_lastCharLen c) in
  if 0 <? c_col c then (off, c_line c, c_col c) else (off, c_line c - 1, c_lastLineLen c).

(* the source bytes from the token start up to (not including) the lookahead character *)
Definition c_token_text (c : cursor) : list Z :=
  match c_tok c with
  | None => []
  | Some t => firstn ((c_idx c - c_lastCharLen c) - t) (skipn t (c_src c))
  end.

(* the specification tokenizer: Impl.Tokenizer's control flow over the cursor *)
Definition spec_tokenize (fuel : nat) (src : list Z) : option (option (list token)) :=
  let nxt := fun c => Some (c_next c) in
  match nxt (c_init src) with
  | None => None
  | Some (c, ch) => tokenize_loop cursor nxt c_token_start c_token_stop c_set_err c_token_position c_token_text c_err fuel c ch []
  end.

(* ---- what "exact position" means, independently of any scanner state ---- *)
(* line and column (1-based, in characters) of the character that starts at byte offset [off] of [src], for sources the
   tokenizer accepts (valid UTF-8): count the newlines before it and the characters since the last one *)
Fixpoint line_col (fuel : nat) (src : list Z) (off : nat) (line col : Z) : Z * Z :=
  match fuel with
  | O => (line, col)
  | S f =>
    match off, src with
    | O, _ => (line, col)
    | _, [] => (line, col)
    | _, b :: _ =>
        let '(ch, w) := if b <? 128 then (b, 1%nat) else decode_rune src in
        let w := Nat.max w 1 in
        if ch =? 10 then line_col f (skipn w src) (off - w) (line + 1) 1
        else line_col f (skipn w src) (off - w) line (col + 1)
    end
  end.
Definition position_of (src : list Z) (off : nat) : Z * Z := line_col (S (length src)) src off 1 1.
