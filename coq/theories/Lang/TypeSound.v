(* Statement vocabulary for C15 (validated policies cannot fail with type errors): when a value inhabits a type, when a store and a
   request conform to a schema, what a capability means at run time, which evaluation errors validation does not exclude. *)
From Coq Require Import ZArith List Bool String.
Import ListNotations.
From Cedar Require Import Lang.Value Impl.Like Lang.Expr Impl.Eval Impl.TypeCheck.
Local Open Scope Z_scope.

Section Sound.
  Variable sch : tschema.

  (* a value inhabits a type.  Records are CLOSED: every field is declared; required ones are present *)
  Inductive vtyped : value -> cty -> Prop :=
  | vt_true : vtyped (VBool true) CTrue
  | vt_false : vtyped (VBool false) CFalse
  | vt_bool : forall b, vtyped (VBool b) CBool
  | vt_long : forall z, vtyped (VLong z) CLong
  | vt_string : forall s, vtyped (VString s) CString
  | vt_entity : forall t i l, In t l -> vtyped (VEntity t i) (CEnt l)
  | vt_set : forall l e, Forall (fun v => vtyped v e) l -> vtyped (VSet l) (CSet e)
  | vt_record : forall kvs attrs,
      Forall (fun kv : str * value => exists t q, alookup (fst kv) attrs = Some (t, q) /\ vtyped (snd kv) t) kvs ->
      (forall k t, alookup k attrs = Some (t, true) -> exists v, rec_get k kvs = Some v) ->
      vtyped (VRecord kvs) (CRec attrs)
  | vt_decimal : forall z, vtyped (VDecimal z) (CExt (s_of "decimal"))
  | vt_ip : forall v6 a p, vtyped (VIP v6 a p) (CExt (s_of "ipaddr"))
  | vt_datetime : forall z, vtyped (VDatetime z) (CExt (s_of "datetime"))
  | vt_duration : forall z, vtyped (VDuration z) (CExt (s_of "duration")).

  (* the store conforms to the schema (what Validator.Entities checks): declared attributes with declared types, tags of the declared
     tag type and only where tags are declared, direct parents of declared parent types *)
  Definition entity_ok (u : uid) (e : entity) : Prop :=
    match alookup (fst u) (ts_entities sch) with
    | Some te =>
        vtyped (VRecord (e_attrs e)) (CRec (te_shape te)) /\
        (forall k v, rec_get k (e_tags e) = Some v -> exists tt, te_tags te = Some tt /\ vtyped v tt) /\
        (forall p, In p (e_parents e) -> In (fst p) (te_parents te))
    | None => e_attrs e = [] /\ e_tags e = [] /\     (* enum and action entities carry no data; enumerated entities have no parents either *)
              (TypeCheck.smem (fst u) (ts_enums sch) = true -> e_parents e = [])
    end.
  Definition store_ok (st : store) : Prop := forall u e, lookup st u = Some e -> entity_ok u e.

  Definition env_ok (tv : tenv) (en : env) : Prop :=
    store_ok (e_store en) /\
    vtyped (e_principal en) (CEnt [tv_principal tv]) /\
    e_action en = VEntity (fst (tv_action tv)) (snd (tv_action tv)) /\
    vtyped (e_resource en) (CEnt [tv_resource tv]) /\
    vtyped (e_context en) (CRec (tv_context tv)).

  (* the expression a capability key stands for: var, or access path *)
  (* a capability (key, attr, tag) holds in an environment if EVERY expression with that key evaluates to a value that has the
     attribute (or, for an entity in the store, the tag) *)
  Definition cap_holds (en : env) (c : cap) : Prop :=
    forall base, cap_key base = Some (fst (fst c)) ->
      forall v, eval en base = Ok v ->
        if snd c
        then (exists t i ent, v = VEntity t i /\ lookup (e_store en) (t, i) = Some ent /\ rec_get (snd (fst c)) (e_tags ent) <> None)
        else has_attr (e_store en) v (snd (fst c)) = Ok (VBool true).
  Definition caps_hold (en : env) (cs : list cap) : Prop := Forall (cap_holds en) cs.

  (* errors validation does not exclude: an entity that is not in the store, integer overflow, a failing extension function
     (non-literal argument in permissive mode) *)
  Definition allowed_error (k : errk) : bool :=
    match k with EEntity | EOverflow | EExt => true | _ => false end.

  (* the soundness statement for one expression in one request environment *)
  Definition sound_at (strict : bool) (tv : tenv) (e : expr) : Prop :=
    forall caps t caps',
      typeof strict sch tv e caps = TOk t caps' ->
      forall en, env_ok tv en -> caps_hold en caps ->
        match eval en e with
        | Ok v => vtyped v t /\ (v = VBool true -> caps_hold en caps')
        | Err k => allowed_error k = true
        end.
End Sound.
