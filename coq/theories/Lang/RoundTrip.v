(* Statement vocabulary for the print / parse round trip (C07, C08): the token list of a rendering, the normal form of the
   text syntax, well-formedness of what can be rendered, and which tokens may follow an expression. *)
From Coq Require Import ZArith List Bool String.
Import ListNotations.
From Cedar Require Import Base.Int64 Base.Utf8 Base.Utf8Enc Lang.Value Impl.Like Lang.Expr Impl.Eval Impl.Text Impl.Decimal Impl.Duration Impl.Datetime
  Impl.Scanner Impl.Tokenizer Impl.Quote Impl.Parser Impl.Printer.
Local Open Scope Z_scope.

(* a token as the parser sees it (the parser never looks at positions, except to copy the first token's into the policy) *)
Definition mk (tt : toktype * str) : token := {| t_type := fst tt; t_off := 0; t_line := 0; t_col := 0; t_text := snd tt |}.
Definition toks_of (l : list item) : list token := map mk (toks l).

Section Norm.
  Variable set_order : list value -> list nat.
  Variable print_ip : bool -> Z -> Z -> str.

  Definition ext1 (fn : string) (arg : str) : expr := ECall (s_of fn) [ELit (VString arg)].

  (* the text syntax has no literals of set, record or extension type: such a value denotes the constructor expression
     its rendering spells out (set members in the order the value lists them) *)
  Fixpoint norm_value (v : value) : expr :=
    match v with
    | VSet l => let fix go (l : list value) : list expr := match l with [] => [] | x :: r => norm_value x :: go r end in
                ESet (map (fun i => nth i (go l) (ELit (VBool false))) (set_order l))
    | VRecord kvs => let fix go (l : list (str * value)) : list (str * expr) :=
                         match l with [] => [] | (k, x) :: r => (k, norm_value x) :: go r end in
                     ERecord (go kvs)
    | VDecimal z => ext1 "decimal" (print_decimal z)
    | VDatetime z => ext1 "datetime" (print_datetime z)
    | VDuration z => ext1 "duration" (print_duration z)
    | VIP v6 a p => ext1 "ip" (print_ip v6 a p)
    | _ => ELit v
    end.

  Fixpoint norm (e : expr) : expr :=
    let fix go (l : list expr) : list expr := match l with [] => [] | x :: r => norm x :: go r end in
    let fix gokv (l : list (str * expr)) : list (str * expr) := match l with [] => [] | (k, x) :: r => (k, norm x) :: gokv r end in
    match e with
    | ELit v => norm_value v
    | EVar x => EVar x
    | EAnd a b => EAnd (norm a) (norm b) | EOr a b => EOr (norm a) (norm b) | ENot a => ENot (norm a) | ENeg a => ENeg (norm a)
    | EAdd a b => EAdd (norm a) (norm b) | ESub a b => ESub (norm a) (norm b) | EMul a b => EMul (norm a) (norm b)
    | EEq a b => EEq (norm a) (norm b) | ENe a b => ENe (norm a) (norm b)
    | ELt a b => ELt (norm a) (norm b) | ELe a b => ELe (norm a) (norm b) | EGt a b => EGt (norm a) (norm b) | EGe a b => EGe (norm a) (norm b)
    | EIn a b => EIn (norm a) (norm b)
    | EContains a b => EContains (norm a) (norm b) | EContainsAll a b => EContainsAll (norm a) (norm b)
    | EContainsAny a b => EContainsAny (norm a) (norm b) | EIsEmpty a => EIsEmpty (norm a)
    | EAccess a k => EAccess (norm a) k | EHas a k => EHas (norm a) k
    | EGetTag a b => EGetTag (norm a) (norm b) | EHasTag a b => EHasTag (norm a) (norm b)
    | ELike a p => ELike (norm a) p
    | EIs a ty => EIs (norm a) ty | EIsIn a ty b => EIsIn (norm a) ty (norm b)
    | EIf c t f => EIf (norm c) (norm t) (norm f)
    | ESet es => ESet (go es)
    | ERecord kvs => ERecord (gokv kvs)
    | ECall n args => ECall n (go args)
    | EPartialError k => EPartialError k
    end.

  Definition norm_policy (p : policy) : policy :=
    {| p_effect := p_effect p; p_principal := p_principal p; p_action := p_action p; p_resource := p_resource p;
       p_conds := map (fun c : bool * expr => (fst c, norm (snd c))) (p_conds p) |}.

  (* ---- what can be rendered so that it reads back ---- *)
  (* a path: non-empty components, each an identifier that is not a reserved word *)
  Definition path_ok (ty : str) : bool := forallb can_ident (split_path ty).
  Definition str_ok (s : str) : bool := valid_utf8 s.
  (* Go strings are byte strings: the model's integers must be bytes (a negative "byte" would be read as an ASCII rune) *)
  Definition byte_str (s : str) : bool := forallb (fun b => (0 <=? b) && (b <? 256)) s.
  Definition str_ok2 (s : str) : bool := byte_str s && str_ok s.
  Definition uid_ok (u : uid) : bool := path_ok (fst u) && str_ok2 (snd u).
  Definition distinct_keys {A} (kvs : list (str * A)) : bool :=
    (fix go (l : list (str * A)) (seen : list str) : bool :=
       match l with [] => true | (k, _) :: r => negb (existsb (str_eqb k) seen) && go r (k :: seen) end) kvs [].
  (* set_order lists each index of the member list exactly once *)
  Definition order_ok (l : list value) : bool :=
    let o := set_order l in
    Nat.eqb (List.length o) (List.length l) && forallb (fun i => Nat.ltb i (List.length l)) o.

  Fixpoint value_ok (v : value) : bool :=
    match v with
    | VBool _ => true
    | VLong z => in64b z
    | VString s => str_ok2 s
    | VEntity ty id => path_ok ty && str_ok2 id
    | VSet l => order_ok l && (fix go (l : list value) : bool := match l with [] => true | x :: r => value_ok x && go r end) l
    | VRecord kvs => distinct_keys kvs && forallb (fun kv : str * value => str_ok2 (fst kv)) kvs
                     && (fix go (l : list (str * value)) : bool := match l with [] => true | (_, x) :: r => value_ok x && go r end) kvs
    | VDecimal _ | VDatetime _ | VDuration _ | VIP _ _ _ => true
    end.

  (* a pattern in the form NewPattern produces: only the first component may lack a wildcard, an empty wildcard component is last,
     never empty as a whole; literals are valid UTF-8 *)
  Fixpoint pat_tail_ok (p : pattern) : bool :=
    match p with
    | [] => true
    | (w, l) :: r => w && str_ok l && (match l, r with [], _ :: _ => false | _, _ => true end) && pat_tail_ok r
    end.
  Definition pat_ok (p : pattern) : bool :=
    match p with
    | [] => false
    | (w, l) :: r => str_ok l && (match l, r with [], _ :: _ => negb w && false | _, _ => true end) && pat_tail_ok r
    end.

  Definition pat_ok2 (p : pattern) : bool := forallb (fun c : pcomp => byte_str (snd c)) p && pat_ok p.

  Definition builtin_method (name : str) : bool :=
    existsb (fun s => str_eqb (s_of s) name) ["contains"; "containsAll"; "containsAny"; "hasTag"; "getTag"; "isEmpty"]%string.

  Fixpoint expr_ok (e : expr) : bool :=
    let fix go (l : list expr) : bool := match l with [] => true | x :: r => expr_ok x && go r end in
    let fix gokv (l : list (str * expr)) : bool := match l with [] => true | (_, x) :: r => expr_ok x && gokv r end in
    match e with
    | ELit v => value_ok v
    | EVar _ => true
    | EAnd a b | EOr a b | EAdd a b | ESub a b | EMul a b | EEq a b | ENe a b | ELt a b | ELe a b | EGt a b | EGe a b | EIn a b
    | EContains a b | EContainsAll a b | EContainsAny a b | EGetTag a b | EHasTag a b => expr_ok a && expr_ok b
    | ENot a | ENeg a | EIsEmpty a => expr_ok a
    | EAccess a k | EHas a k => expr_ok a && str_ok2 k
    | ELike a p => expr_ok a && pat_ok2 p
    | EIs a ty => expr_ok a && path_ok ty
    | EIsIn a ty b => expr_ok a && path_ok ty && expr_ok b
    | EIf c t f => expr_ok c && expr_ok t && expr_ok f
    | ESet es => go es
    | ERecord kvs => distinct_keys kvs && forallb (fun kv : str * expr => str_ok2 (fst kv)) kvs && gokv kvs
    | ECall n args =>
        match ext_lookup n with
        | Some (_, true) => negb (builtin_method n) && can_ident n && (match args with [] => false | _ => true end) && go args
        | Some (_, false) => can_ident n && go args
        | None => false
        end
    | EPartialError _ => false
    end.

  Definition scope_ok (s : scope) : bool :=
    match s with
    | SAll => true | SEq u | SIn u => uid_ok u | SInSet us => forallb uid_ok us | SIs ty => path_ok ty | SIsIn ty u => path_ok ty && uid_ok u
    end.
  Definition action_scope_ok (s : scope) : bool := match s with SIs _ | SIsIn _ _ => false | _ => scope_ok s end.
  Definition principal_scope_ok (s : scope) : bool := match s with SInSet _ => false | _ => scope_ok s end.

  Definition annots_ok (a : list (str * str)) : bool :=
    distinct_keys a && forallb (fun kv : str * str => (can_ident (fst kv) || is_reserved (fst kv)) && str_ok2 (snd kv)) a.

  Definition policy_ok (annots : list (str * str)) (p : policy) : bool :=
    annots_ok annots && principal_scope_ok (p_principal p) && action_scope_ok (p_action p) && principal_scope_ok (p_resource p)
    && forallb (fun c : bool * expr => expr_ok (snd c)) (p_conds p).
End Norm.

(* the token that follows a complete expression inside any rendering: a closing bracket, a comma, then / else, a semicolon, EOF;
   never something an operator loop of the parser would consume *)
Definition stop_tok (t : token) : bool :=
  negb (existsb (fun s => tx t s)
          ["||"; "&&"; "<"; "<="; ">"; ">="; "!="; "=="; "in"; "has"; "like"; "is"; "+"; "-"; "*"; "."; "["; "("; "::"]%string).
