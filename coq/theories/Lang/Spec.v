(* Lang/Spec.v — the Cedar evaluation semantics, written declaratively (my transcription of the Cedar
   specification: Lean Cedar.Spec.Evaluator, RFC 80/110 for datetime/duration, the documented decimal and
   ipaddr syntax).  Same evaluation order, short-circuiting and error propagation as the specification
   (left to right, the first error wins); the PRIMITIVES are mathematical:
     - arithmetic: exact integer result, error iff it does not fit in 64 bits (no wrap-around anywhere);
     - comparison: a > b is b < a on the integers;
     - `in`: reflexive-transitive closure of the parent relation, computed by saturation;
     - `like`: the two-rule wildcard matcher on the uncompiled pattern elements;
     - toDate / toTime: floor division (the day containing the instant), error iff the day start is not representable;
     - toDays ... toSeconds: truncation toward zero;
   Part of the trusted base. *)
From Coq Require Import ZArith List Bool String.
Import ListNotations.
From Cedar Require Import Base.Int64 Lang.Value Lang.Expr Impl.Like
  Impl.Decimal Impl.Duration Impl.Datetime Impl.IPAddr Generated.Tables.
Local Open Scope Z_scope.

Definition sbind (r : res) (f : value -> res) : res := match r with Ok v => f v | Err k => Err k end.
Definition sbool (b : bool) : res := Ok (VBool b).

Definition fits (z : Z) (mk : Z -> value) : res := if in64b z then Ok (mk z) else Err EOverflow.

Definition spec_arith (r1 r2 : res) (op : Z -> Z -> Z) : res :=
  sbind r1 (fun v1 => match v1 with VLong a =>
  sbind r2 (fun v2 => match v2 with VLong b => fits (op a b) VLong | _ => Err EType end) | _ => Err EType end).

Definition same_comparable (v1 v2 : value) : option (Z * Z) :=
  match v1, v2 with
  | VLong a, VLong b => Some (a, b)
  | VDatetime a, VDatetime b => Some (a, b)
  | VDuration a, VDuration b => Some (a, b)
  | _, _ => None
  end.
Definition is_comparable (v : value) : bool := match v with VLong _ | VDatetime _ | VDuration _ => true | _ => false end.

Definition spec_cmp (r1 r2 : res) (f : Z -> Z -> bool) : res :=
  sbind r1 (fun v1 => if negb (is_comparable v1) then Err EType else
  sbind r2 (fun v2 => if negb (is_comparable v2) then Err EType else
  match same_comparable v1 v2 with Some (a, b) => sbool (f a b) | None => Err EType end)).

(* ---- reachability by saturation: the set of ancestors-or-self of [a] ---- *)
Definition umem (u : uid) (l : list uid) : bool := existsb (uid_eqb u) l.
Definition step_closure (st : store) (seen : list uid) : list uid :=
  fold_left (fun acc u => match lookup st u with
                          | Some e => fold_left (fun acc' p => if umem p acc' then acc' else acc' ++ [p]) (e_parents e) acc
                          | None => acc end) seen seen.
Fixpoint saturate (n : nat) (st : store) (seen : list uid) : list uid :=
  match n with O => seen | S n' => saturate n' st (step_closure st seen) end.
(* every path visits at most one new present entity per step, so |st| + 1 rounds suffice *)
Definition ancestors_or_self (st : store) (a : uid) : list uid := saturate (S (List.length st)) st [a].
Definition spec_in_one (st : store) (a b : uid) : bool := umem b (ancestors_or_self st a).
Definition spec_in_set (st : store) (a : uid) (bs : list uid) : bool := existsb (fun b => spec_in_one st a b) bs.

Fixpoint entities_of (l : list value) : option (list uid) :=
  match l with
  | [] => Some []
  | VEntity t i :: l' => option_map (cons (t, i)) (entities_of l')
  | _ :: _ => None
  end.

Definition spec_in (st : store) (lhs : uid) (rhs : value) : res :=
  match rhs with
  | VEntity t i => sbool (spec_in_one st lhs (t, i))
  | VSet l => match entities_of l with Some us => sbool (spec_in_set st lhs us) | None => Err EType end
  | _ => Err EType
  end.

(* ---- like: the specification matcher on pattern elements ---- *)
Inductive pelem := PStar | PChar (c : Z).
Fixpoint wmatch (p : list pelem) (s : str) : bool :=
  match p with
  | [] => match s with [] => true | _ => false end
  | PChar c :: p' => match s with x :: s' => (c =? x) && wmatch p' s' | [] => false end
  | PStar :: p' =>
      (fix star (s : str) : bool :=
         wmatch p' s || match s with [] => false | _ :: s' => star s' end) s
  end.
(* the elements a compiled pattern stands for *)
Definition pattern_elems (p : pattern) : list pelem :=
  flat_map (fun c : pcomp => (if fst c then [PStar] else []) ++ List.map PChar (snd c)) p.

(* ---- datetime / duration functions ---- *)
Definition spec_to_date (ms : Z) : res := fits ((ms / MillisPerDay) * MillisPerDay) VDatetime.      (* floor *)
Definition spec_to_time (ms : Z) : res := Ok (VDuration (ms mod MillisPerDay)).                    (* in [0, 1 day) *)

Definition sname (name : str) (n : string) : bool := str_eqb name (s_of n).
Definition sext_lookup (name : str) : option (Z * bool) :=
  option_map snd (find (fun e => str_eqb (s_of (fst e)) name) ext_table).
Definition sopt {A} (o : option A) (f : A -> value) : res := match o with Some x => Ok (f x) | None => Err EExt end.
Definition snth (rs : list res) (n : nat) : res := nth n rs (Err EArity).

Definition want_string (v : value) (f : str -> res) : res := match v with VString s => f s | _ => Err EType end.
Definition want_decimal (v : value) (f : Z -> res) : res := match v with VDecimal z => f z | _ => Err EType end.
Definition want_datetime (v : value) (f : Z -> res) : res := match v with VDatetime z => f z | _ => Err EType end.
Definition want_duration (v : value) (f : Z -> res) : res := match v with VDuration z => f z | _ => Err EType end.
Definition want_ip (v : value) (f : bool -> Z -> Z -> res) : res := match v with VIP b a p => f b a p | _ => Err EType end.

Definition spec_call (name : str) (rs : list res) : res :=
  match sext_lookup name with
  | None => Err EUnknownFn
  | Some (arity, _) =>
    if negb (Z.of_nat (List.length rs) =? arity) then Err EArity else
    let a0 := snth rs 0 in let a1 := snth rs 1 in
    if sname name "datetime" then sbind a0 (fun v => want_string v (fun s => sopt (parse_datetime s) VDatetime))
    else if sname name "decimal" then sbind a0 (fun v => want_string v (fun s => sopt (parse_decimal s) VDecimal))
    else if sname name "duration" then sbind a0 (fun v => want_string v (fun s => sopt (parse_duration s) VDuration))
    else if sname name "ip" then sbind a0 (fun v => want_string v (fun s => sopt (parse_ip s) (fun x => VIP (fst (fst x)) (snd (fst x)) (snd x))))
    else if sname name "lessThan" then sbind a0 (fun v => want_decimal v (fun x => sbind a1 (fun w => want_decimal w (fun y => sbool (x <? y)))))
    else if sname name "lessThanOrEqual" then sbind a0 (fun v => want_decimal v (fun x => sbind a1 (fun w => want_decimal w (fun y => sbool (x <=? y)))))
    else if sname name "greaterThan" then sbind a0 (fun v => want_decimal v (fun x => sbind a1 (fun w => want_decimal w (fun y => sbool (y <? x)))))
    else if sname name "greaterThanOrEqual" then sbind a0 (fun v => want_decimal v (fun x => sbind a1 (fun w => want_decimal w (fun y => sbool (y <=? x)))))
    else if sname name "isIpv4" then sbind a0 (fun v => want_ip v (fun v6 _ _ => sbool (negb v6)))
    else if sname name "isIpv6" then sbind a0 (fun v => want_ip v (fun v6 _ _ => sbool v6))
    else if sname name "isLoopback" then sbind a0 (fun v => want_ip v (fun v6 a p => sbool (ip_is_loopback v6 a p)))
    else if sname name "isMulticast" then sbind a0 (fun v => want_ip v (fun v6 a p => sbool (ip_is_multicast v6 a p)))
    else if sname name "isInRange" then sbind a0 (fun v => want_ip v (fun v6 a p => sbind a1 (fun w => want_ip w (fun v6' a' p' =>
                                   sbool (ip_contains v6' a' p' v6 a p)))))
    else if sname name "toDate" then sbind a0 (fun v => want_datetime v spec_to_date)
    else if sname name "toTime" then sbind a0 (fun v => want_datetime v spec_to_time)
    else if sname name "toMilliseconds" then sbind a0 (fun v => want_duration v (fun d => Ok (VLong d)))
    else if sname name "toSeconds" then sbind a0 (fun v => want_duration v (fun d => Ok (VLong (Z.quot d 1000))))
    else if sname name "toMinutes" then sbind a0 (fun v => want_duration v (fun d => Ok (VLong (Z.quot d 60000))))
    else if sname name "toHours" then sbind a0 (fun v => want_duration v (fun d => Ok (VLong (Z.quot d 3600000))))
    else if sname name "toDays" then sbind a0 (fun v => want_duration v (fun d => Ok (VLong (Z.quot d 86400000))))
    else if sname name "offset" then sbind a0 (fun v => want_datetime v (fun t => sbind a1 (fun w => want_duration w (fun d => fits (t + d) VDatetime))))
    else if sname name "durationSince" then sbind a0 (fun v => want_datetime v (fun t => sbind a1 (fun w => want_datetime w (fun u => fits (t - u) VDuration))))
    else Err EUnknownFn
  end.

Fixpoint sseq (rs : list res) : sum res (list value) :=
  match rs with
  | [] => inr []
  | Ok v :: rs' => match sseq rs' with inr vs => inr (v :: vs) | inl e => inl e end
  | Err k :: _ => inl (Err k)
  end.
Fixpoint sseq_rec (rs : list (str * res)) : sum res (list (str * value)) :=
  match rs with
  | [] => inr []
  | (k, Ok v) :: rs' => match sseq_rec rs' with inr vs => inr ((k, v) :: vs) | inl e => inl e end
  | (_, Err e) :: _ => inl (Err e)
  end.

Definition svar (en : env) (x : var) : value :=
  match x with
  | VPrincipal => e_principal en | VAction => e_action en | VResource => e_resource en | VContext => e_context en
  end.

Definition unspecified (u : uid) : bool := match fst u, snd u with [], [] => true | _, _ => false end.

Definition spec_get_attr (st : store) (v : value) (k : str) : res :=
  match v with
  | VEntity t i =>
      if unspecified (t, i) then Err EUnspecified else
      match lookup st (t, i) with
      | None => Err EEntity
      | Some e => match rec_get k (e_attrs e) with Some x => Ok x | None => Err EAttr end
      end
  | VRecord l => match rec_get k l with Some x => Ok x | None => Err EAttr end
  | _ => Err EType
  end.

Definition spec_has_attr (st : store) (v : value) (k : str) : res :=
  match v with
  | VEntity t i => sbool (match lookup st (t, i) with
                          | Some e => match rec_get k (e_attrs e) with Some _ => true | None => false end
                          | None => false end)
  | VRecord l => sbool (match rec_get k l with Some _ => true | None => false end)
  | _ => Err EType
  end.

Definition want_bool (v : value) (f : bool -> res) : res := match v with VBool b => f b | _ => Err EType end.
Definition want_set (v : value) (f : list value -> res) : res := match v with VSet l => f l | _ => Err EType end.
Definition want_entity (v : value) (f : uid -> res) : res := match v with VEntity t i => f (t, i) | _ => Err EType end.

Fixpoint seval (en : env) (e : expr) {struct e} : res :=
  let st := e_store en in
  match e with
  | ELit v => Ok v
  | EVar x => Ok (svar en x)
  | EAnd a b => sbind (seval en a) (fun v => want_bool v (fun x =>
                  if x then sbind (seval en b) (fun w => want_bool w (fun y => sbool y)) else sbool false))
  | EOr a b => sbind (seval en a) (fun v => want_bool v (fun x =>
                  if x then sbool true else sbind (seval en b) (fun w => want_bool w (fun y => sbool y))))
  | ENot a => sbind (seval en a) (fun v => want_bool v (fun x => sbool (negb x)))
  | ENeg a => sbind (seval en a) (fun v => match v with VLong x => fits (- x) VLong | _ => Err EType end)
  | EAdd a b => spec_arith (seval en a) (seval en b) Z.add
  | ESub a b => spec_arith (seval en a) (seval en b) Z.sub
  | EMul a b => spec_arith (seval en a) (seval en b) Z.mul
  | EEq a b => sbind (seval en a) (fun v => sbind (seval en b) (fun w => sbool (veq v w)))
  | ENe a b => sbind (seval en a) (fun v => sbind (seval en b) (fun w => sbool (negb (veq v w))))
  | ELt a b => spec_cmp (seval en a) (seval en b) Z.ltb
  | ELe a b => spec_cmp (seval en a) (seval en b) Z.leb
  | EGt a b => spec_cmp (seval en a) (seval en b) (fun x y => y <? x)
  | EGe a b => spec_cmp (seval en a) (seval en b) (fun x y => y <=? x)
  | EIn a b => sbind (seval en a) (fun v => want_entity v (fun u => sbind (seval en b) (fun w => spec_in st u w)))
  | EContains a b => sbind (seval en a) (fun v => want_set v (fun l => sbind (seval en b) (fun w => sbool (vmem w l))))
  | EContainsAll a b => sbind (seval en a) (fun v => want_set v (fun l =>
                        sbind (seval en b) (fun w => want_set w (fun m => sbool (forallb (fun x => vmem x l) m)))))
  | EContainsAny a b => sbind (seval en a) (fun v => want_set v (fun l =>
                        sbind (seval en b) (fun w => want_set w (fun m => sbool (existsb (fun x => vmem x l) m)))))
  | EIsEmpty a => sbind (seval en a) (fun v => want_set v (fun l => sbool (match l with [] => true | _ => false end)))
  | EAccess a k => sbind (seval en a) (fun v => spec_get_attr st v k)
  | EHas a k => sbind (seval en a) (fun v => spec_has_attr st v k)
  | EGetTag a b =>
      sbind (seval en a) (fun v => want_entity v (fun u =>
      if unspecified u then Err EUnspecified else
      sbind (seval en b) (fun w => want_string w (fun t =>
      match lookup st u with
      | None => Err EEntity
      | Some ent => match rec_get t (e_tags ent) with Some x => Ok x | None => Err ETag end
      end))))
  | EHasTag a b =>
      sbind (seval en a) (fun v => want_entity v (fun u =>
      sbind (seval en b) (fun w => want_string w (fun t =>
      sbool (match lookup st u with
             | Some ent => match rec_get t (e_tags ent) with Some _ => true | None => false end
             | None => false end)))))
  | ELike a p => sbind (seval en a) (fun v => want_string v (fun s => sbool (wmatch (pattern_elems p) s)))
  | EIs a ty => sbind (seval en a) (fun v => want_entity v (fun u => sbool (str_eqb (fst u) ty)))
  | EIsIn a ty b => sbind (seval en a) (fun v => want_entity v (fun u =>
                      if str_eqb (fst u) ty then sbind (seval en b) (fun w => spec_in st u w) else sbool false))
  | EIf c t f => sbind (seval en c) (fun v => want_bool v (fun x => if x then seval en t else seval en f))
  | ESet es => match sseq (List.map (seval en) es) with inl e => e | inr vs => Ok (mk_set vs) end
  | ERecord kvs => match sseq_rec (rec_of_list (List.map (fun kv => (fst kv, seval en (snd kv))) kvs)) with
                   | inl e => e | inr fields => Ok (VRecord fields) end
  | ECall name args => spec_call name (List.map (seval en) args)
  | EPartialError k => Err k
  end.

(* a policy is satisfied iff its scope matches and every when clause is true and every unless clause false;
   an error anywhere makes it erroring *)
Definition spec_scope (st : store) (x : value) (s : scope) : res :=
  match s with
  | SAll => sbool true
  | SEq u => sbool (veq x (VEntity (fst u) (snd u)))
  | SIn u => want_entity x (fun a => sbool (spec_in_one st a u))
  | SInSet us => want_entity x (fun a => sbool (spec_in_set st a us))
  | SIs ty => want_entity x (fun a => sbool (str_eqb (fst a) ty))
  | SIsIn ty u => want_entity x (fun a => sbool (str_eqb (fst a) ty && spec_in_one st a u))
  end.
