(* Expressions (one constructor per x/exp/ast node type), entity stores, environments, policies. *)
From Coq Require Import ZArith List Bool.
Import ListNotations.
From Cedar Require Import Lang.Value Impl.Like.
Local Open Scope Z_scope.

Inductive var := VPrincipal | VAction | VResource | VContext.

Inductive errk :=
| EType | EOverflow | EAttr | ETag | EEntity | EUnknownFn | EArity | EExt | EUnspecified
| EFuel.   (* the model's search ran out of fuel: excluded by theorem (C03), never produced by the code *)

Inductive expr :=
| ELit (v : value)
| EVar (x : var)
| EAnd (a b : expr) | EOr (a b : expr) | ENot (a : expr) | ENeg (a : expr)
| EAdd (a b : expr) | ESub (a b : expr) | EMul (a b : expr)
| EEq (a b : expr) | ENe (a b : expr)
| ELt (a b : expr) | ELe (a b : expr) | EGt (a b : expr) | EGe (a b : expr)
| EIn (a b : expr)
| EContains (a b : expr) | EContainsAll (a b : expr) | EContainsAny (a b : expr) | EIsEmpty (a : expr)
| EAccess (a : expr) (k : str) | EHas (a : expr) (k : str)
| EGetTag (a b : expr) | EHasTag (a b : expr)
| ELike (a : expr) (p : pattern)
| EIs (a : expr) (ty : str) | EIsIn (a : expr) (ty : str) (b : expr)
| EIf (c t f : expr)
| ESet (es : list expr)
| ERecord (kvs : list (str * expr))
| ECall (name : str) (args : list expr)
| EPartialError (k : errk).         (* __cedar::partialError("<message of class k>") *)

Section ExprInd.
  Variable P : expr -> Prop.
  Hypothesis HLit : forall v, P (ELit v).
  Hypothesis HVar : forall x, P (EVar x).
  Hypothesis HAnd : forall a b, P a -> P b -> P (EAnd a b).
  Hypothesis HOr : forall a b, P a -> P b -> P (EOr a b).
  Hypothesis HNot : forall a, P a -> P (ENot a).
  Hypothesis HNeg : forall a, P a -> P (ENeg a).
  Hypothesis HAdd : forall a b, P a -> P b -> P (EAdd a b).
  Hypothesis HSub : forall a b, P a -> P b -> P (ESub a b).
  Hypothesis HMul : forall a b, P a -> P b -> P (EMul a b).
  Hypothesis HEq : forall a b, P a -> P b -> P (EEq a b).
  Hypothesis HNe : forall a b, P a -> P b -> P (ENe a b).
  Hypothesis HLt : forall a b, P a -> P b -> P (ELt a b).
  Hypothesis HLe : forall a b, P a -> P b -> P (ELe a b).
  Hypothesis HGt : forall a b, P a -> P b -> P (EGt a b).
  Hypothesis HGe : forall a b, P a -> P b -> P (EGe a b).
  Hypothesis HIn : forall a b, P a -> P b -> P (EIn a b).
  Hypothesis HContains : forall a b, P a -> P b -> P (EContains a b).
  Hypothesis HContainsAll : forall a b, P a -> P b -> P (EContainsAll a b).
  Hypothesis HContainsAny : forall a b, P a -> P b -> P (EContainsAny a b).
  Hypothesis HIsEmpty : forall a, P a -> P (EIsEmpty a).
  Hypothesis HAccess : forall a k, P a -> P (EAccess a k).
  Hypothesis HHas : forall a k, P a -> P (EHas a k).
  Hypothesis HGetTag : forall a b, P a -> P b -> P (EGetTag a b).
  Hypothesis HHasTag : forall a b, P a -> P b -> P (EHasTag a b).
  Hypothesis HLike : forall a p, P a -> P (ELike a p).
  Hypothesis HIs : forall a ty, P a -> P (EIs a ty).
  Hypothesis HIsIn : forall a ty b, P a -> P b -> P (EIsIn a ty b).
  Hypothesis HIf : forall c t f, P c -> P t -> P f -> P (EIf c t f).
  Hypothesis HSet : forall es, Forall P es -> P (ESet es).
  Hypothesis HRecord : forall kvs, Forall (fun kv => P (snd kv)) kvs -> P (ERecord kvs).
  Hypothesis HCall : forall n args, Forall P args -> P (ECall n args).
  Hypothesis HPErr : forall k, P (EPartialError k).

  Fixpoint expr_ind' (e : expr) : P e :=
    let fix go (l : list expr) : Forall P l :=
        match l with [] => Forall_nil _ | x :: l' => Forall_cons _ (expr_ind' x) (go l') end in
    let fix gokv (l : list (str * expr)) : Forall (fun kv => P (snd kv)) l :=
        match l with [] => Forall_nil _ | x :: l' => Forall_cons _ (expr_ind' (snd x)) (gokv l') end in
    match e with
    | ELit v => HLit v | EVar x => HVar x
    | EAnd a b => HAnd a b (expr_ind' a) (expr_ind' b) | EOr a b => HOr a b (expr_ind' a) (expr_ind' b)
    | ENot a => HNot a (expr_ind' a) | ENeg a => HNeg a (expr_ind' a)
    | EAdd a b => HAdd a b (expr_ind' a) (expr_ind' b) | ESub a b => HSub a b (expr_ind' a) (expr_ind' b)
    | EMul a b => HMul a b (expr_ind' a) (expr_ind' b)
    | EEq a b => HEq a b (expr_ind' a) (expr_ind' b) | ENe a b => HNe a b (expr_ind' a) (expr_ind' b)
    | ELt a b => HLt a b (expr_ind' a) (expr_ind' b) | ELe a b => HLe a b (expr_ind' a) (expr_ind' b)
    | EGt a b => HGt a b (expr_ind' a) (expr_ind' b) | EGe a b => HGe a b (expr_ind' a) (expr_ind' b)
    | EIn a b => HIn a b (expr_ind' a) (expr_ind' b)
    | EContains a b => HContains a b (expr_ind' a) (expr_ind' b)
    | EContainsAll a b => HContainsAll a b (expr_ind' a) (expr_ind' b)
    | EContainsAny a b => HContainsAny a b (expr_ind' a) (expr_ind' b)
    | EIsEmpty a => HIsEmpty a (expr_ind' a)
    | EAccess a k => HAccess a k (expr_ind' a) | EHas a k => HHas a k (expr_ind' a)
    | EGetTag a b => HGetTag a b (expr_ind' a) (expr_ind' b) | EHasTag a b => HHasTag a b (expr_ind' a) (expr_ind' b)
    | ELike a p => HLike a p (expr_ind' a)
    | EIs a ty => HIs a ty (expr_ind' a) | EIsIn a ty b => HIsIn a ty b (expr_ind' a) (expr_ind' b)
    | EIf c t f => HIf c t f (expr_ind' c) (expr_ind' t) (expr_ind' f)
    | ESet es => HSet es (go es)
    | ERecord kvs => HRecord kvs (gokv kvs)
    | ECall n args => HCall n args (go args)
    | EPartialError k => HPErr k
    end.
End ExprInd.

(* ---- entity store ---- *)
Record entity := { e_parents : list uid; e_attrs : list (str * value); e_tags : list (str * value) }.
Definition store := list (uid * entity).       (* a Go map: keys unique *)

Fixpoint lookup (st : store) (u : uid) : option entity :=
  match st with
  | [] => None
  | (k, e) :: st' => if uid_eqb k u then Some e else lookup st' u
  end.

Record env := { e_store : store; e_principal : value; e_action : value; e_resource : value; e_context : value }.

Inductive res := Ok (v : value) | Err (k : errk).

(* ---- policies ---- *)
Inductive scope :=
| SAll | SEq (u : uid) | SIn (u : uid) | SInSet (us : list uid) | SIs (ty : str) | SIsIn (ty : str) (u : uid).

Record policy := {
  p_effect : bool;                       (* true = permit *)
  p_principal : scope; p_action : scope; p_resource : scope;
  p_conds : list (bool * expr);          (* true = when, false = unless *)
}.
