(* Cedar values, strings, canonical sets and records. *)
From Coq Require Import ZArith List Bool String Ascii Lia.
Import ListNotations.
Local Open Scope Z_scope.

(* A Go string is a byte sequence; bytes are Z in [0,256). *)
Definition str := list Z.

Definition s_of (x : string) : str := List.map (fun a => Z.of_N (N_of_ascii a)) (list_ascii_of_string x).

Fixpoint str_eqb (a b : str) : bool :=
  match a, b with
  | [], [] => true
  | x :: a', y :: b' => (x =? y) && str_eqb a' b'
  | _, _ => false
  end.

(* bytewise lexicographic order: Go's < on strings *)
Fixpoint str_ltb (a b : str) : bool :=
  match a, b with
  | [], [] => false
  | [], _ :: _ => true
  | _ :: _, [] => false
  | x :: a', y :: b' => if x <? y then true else if y <? x then false else str_ltb a' b'
  end.

Lemma str_eqb_eq a b : str_eqb a b = true <-> a = b.
Proof.
  revert b; induction a as [|x a IH]; intros [|y b]; cbn; try (split; congruence).
  rewrite andb_true_iff, Z.eqb_eq, IH. split; [intros [-> ->]; auto | intros H; inversion H; auto].
Qed.

Lemma str_eqb_refl a : str_eqb a a = true.
Proof. apply str_eqb_eq; auto. Qed.

Lemma str_eqb_neq a b : str_eqb a b = false <-> a <> b.
Proof. rewrite <- str_eqb_eq. destruct (str_eqb a b); split; congruence. Qed.

Lemma str_ltb_irrefl a : str_ltb a a = false.
Proof. induction a as [|x a IH]; cbn; auto. rewrite Z.ltb_irrefl; auto. Qed.

Lemma str_ltb_trans a b c : str_ltb a b = true -> str_ltb b c = true -> str_ltb a c = true.
Proof.
  revert b c; induction a as [|x a IH]; intros [|y b] [|z c]; cbn; try congruence.
  destruct (x <? y) eqn:E1; destruct (y <? z) eqn:E2; destruct (y <? x) eqn:E3; destruct (z <? y) eqn:E4;
    destruct (x <? z) eqn:E5; destruct (z <? x) eqn:E6; try congruence;
    rewrite ?Z.ltb_lt, ?Z.ltb_ge in *; try lia.
  apply IH.
Qed.

Lemma str_ltb_total a b : str_ltb a b = false -> str_ltb b a = false -> a = b.
Proof.
  revert b; induction a as [|x a IH]; intros [|y b]; cbn; try congruence.
  destruct (x <? y) eqn:E1; destruct (y <? x) eqn:E2; try congruence.
  rewrite Z.ltb_ge in *. intros H1 H2. assert (x = y) by lia. subst. f_equal. apply IH; auto.
Qed.

Lemma str_ltb_asym a b : str_ltb a b = true -> str_ltb b a = false.
Proof.
  intros H. destruct (str_ltb b a) eqn:E; auto.
  pose proof (str_ltb_trans _ _ _ H E) as H1. rewrite str_ltb_irrefl in H1. discriminate.
Qed.

Definition uid := (str * str)%type.   (* entity type, id *)
Definition uid_eqb (a b : uid) : bool := str_eqb (fst a) (fst b) && str_eqb (snd a) (snd b).

Lemma uid_eqb_eq a b : uid_eqb a b = true <-> a = b.
Proof.
  destruct a as [t i], b as [t' i']; unfold uid_eqb; cbn.
  rewrite andb_true_iff, !str_eqb_eq. split; [intros [-> ->]; auto | intros H; inversion H; auto].
Qed.

Lemma uid_eqb_refl a : uid_eqb a a = true.
Proof. apply uid_eqb_eq; auto. Qed.

Inductive value :=
| VBool (b : bool)
| VLong (z : Z)
| VString (s : str)
| VEntity (ty id : str)
| VSet (l : list value)                 (* members, pairwise distinct w.r.t. veq *)
| VRecord (l : list (str * value))      (* strictly sorted by key *)
| VDecimal (z : Z)                      (* value * 10^4 *)
| VDatetime (z : Z)                     (* ms since epoch *)
| VDuration (z : Z)                     (* ms *)
| VIP (v6 : bool) (addr : Z) (prefix : Z).

Section ValueInd.
  Variable Pv : value -> Prop.
  Hypothesis HBool : forall b, Pv (VBool b).
  Hypothesis HLong : forall z, Pv (VLong z).
  Hypothesis HString : forall s, Pv (VString s).
  Hypothesis HEntity : forall t i, Pv (VEntity t i).
  Hypothesis HSet : forall l, Forall Pv l -> Pv (VSet l).
  Hypothesis HRecord : forall l, Forall (fun kv => Pv (snd kv)) l -> Pv (VRecord l).
  Hypothesis HDecimal : forall z, Pv (VDecimal z).
  Hypothesis HDatetime : forall z, Pv (VDatetime z).
  Hypothesis HDuration : forall z, Pv (VDuration z).
  Hypothesis HIP : forall b a p, Pv (VIP b a p).

  Fixpoint value_ind' (v : value) : Pv v :=
    match v with
    | VBool b => HBool b
    | VLong z => HLong z
    | VString s => HString s
    | VEntity t i => HEntity t i
    | VSet l => HSet l ((fix go (l : list value) : Forall Pv l :=
                           match l with [] => Forall_nil _ | x :: l' => Forall_cons _ (value_ind' x) (go l') end) l)
    | VRecord l => HRecord l ((fix go (l : list (str * value)) : Forall (fun kv => Pv (snd kv)) l :=
                           match l with [] => Forall_nil _ | x :: l' => Forall_cons _ (value_ind' (snd x)) (go l') end) l)
    | VDecimal z => HDecimal z
    | VDatetime z => HDatetime z
    | VDuration z => HDuration z
    | VIP b a p => HIP b a p
    end.
End ValueInd.

(* Cedar equality (Value.Equal).  Sets: same size and every member of the first occurs in the second
   (types.Set.Equal: len, hash, one-sided containment).  Records: pointwise on the sorted entry lists. *)
Fixpoint veq (a b : value) {struct a} : bool :=
  match a, b with
  | VBool x, VBool y => Bool.eqb x y
  | VLong x, VLong y => x =? y
  | VString x, VString y => str_eqb x y
  | VEntity t i, VEntity t' i' => str_eqb t t' && str_eqb i i'
  | VSet l1, VSet l2 =>
      (Nat.eqb (List.length l1) (List.length l2)) &&
      (fix all (l : list value) : bool :=
         match l with
         | [] => true
         | x :: l' => (fix ex (m : list value) : bool :=
                         match m with [] => false | y :: m' => veq x y || ex m' end) l2 && all l'
         end) l1
  | VRecord l1, VRecord l2 =>
      (fix go (l : list (str * value)) (m : list (str * value)) : bool :=
         match l, m with
         | [], [] => true
         | (k, x) :: l', (k', y) :: m' => str_eqb k k' && veq x y && go l' m'
         | _, _ => false
         end) l1 l2
  | VDecimal x, VDecimal y => x =? y
  | VDatetime x, VDatetime y => x =? y
  | VDuration x, VDuration y => x =? y
  | VIP f a p, VIP f' a' p' => Bool.eqb f f' && (a =? a') && (p =? p')
  | _, _ => false
  end.

Definition vmem (x : value) (l : list value) : bool := existsb (veq x) l.
Definition vsubset (l1 l2 : list value) : bool := forallb (fun x => vmem x l2) l1.

Fixpoint rec_eqb (l m : list (str * value)) : bool :=
  match l, m with
  | [], [] => true
  | (k, x) :: l', (k', y) :: m' => str_eqb k k' && veq x y && rec_eqb l' m'
  | _, _ => false
  end.

Lemma veq_set l1 l2 : veq (VSet l1) (VSet l2) = Nat.eqb (List.length l1) (List.length l2) && vsubset l1 l2.
Proof. reflexivity. Qed.

Lemma veq_record l1 l2 : veq (VRecord l1) (VRecord l2) = rec_eqb l1 l2.
Proof.
  cbn [veq]. revert l2; induction l1 as [|[k x] l1 IH]; intros [|[k' y] l2]; cbn; auto.
Qed.

(* ---- set construction: keep first occurrences (types.NewSet) ---- *)
Fixpoint dedup (l : list value) (acc : list value) : list value :=
  match l with
  | [] => rev acc
  | x :: l' => if vmem x acc then dedup l' acc else dedup l' (x :: acc)
  end.

Definition mk_set (l : list value) : value := VSet (dedup l []).

(* ---- records: association lists sorted by key, later binding wins (Go map assignment) ---- *)
Fixpoint rec_insert {A} (k : str) (v : A) (l : list (str * A)) : list (str * A) :=
  match l with
  | [] => [(k, v)]
  | (k', v') :: l' =>
      if str_ltb k k' then (k, v) :: l
      else if str_eqb k k' then (k, v) :: l'
      else (k', v') :: rec_insert k v l'
  end.

Definition rec_of_list {A} (kvs : list (str * A)) : list (str * A) :=
  fold_left (fun acc kv => rec_insert (fst kv) (snd kv) acc) kvs [].

Definition mk_record (kvs : list (str * value)) : value := VRecord (rec_of_list kvs).

Fixpoint rec_get {A} (k : str) (l : list (str * A)) : option A :=
  match l with
  | [] => None
  | (k', v) :: l' => if str_eqb k k' then Some v else rec_get k l'
  end.

(* ---- well-formedness: longs and friends are int64, sets duplicate-free, records sorted ---- *)
From Cedar Require Import Base.Int64.

Fixpoint keys_sorted {A} (l : list (str * A)) : bool :=
  match l with
  | [] => true
  | (k, _) :: l' => match l' with [] => true | (k', _) :: _ => str_ltb k k' && keys_sorted l' end
  end.

Fixpoint nodup_veq (l : list value) : bool :=
  match l with
  | [] => true
  | x :: l' => negb (vmem x l') && nodup_veq l'
  end.

Definition type_tag (v : value) : Z :=
  match v with
  | VBool _ => 0 | VLong _ => 1 | VString _ => 2 | VEntity _ _ => 3 | VSet _ => 4 | VRecord _ => 5
  | VDecimal _ => 6 | VDatetime _ => 7 | VDuration _ => 8 | VIP _ _ _ => 9
  end.
