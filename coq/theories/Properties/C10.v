(* C10 — decoders are total: the half a theorem can carry.
   C10 is about the running code (no panic, no stack overflow, no endless loop on any byte sequence) and is decided by the guarded
   runtime exploration of the check.  What the models can carry is termination: each modelled decoder is a fuelled function whose
   out-of-fuel result stands for "does not terminate"; these theorems show that result never occurs, on EVERY input, with fuel linear
   in the input size.  (Panics are not representable in Gallina: the models are total by construction, which is why the runtime half stays.)
   Proofs: Proofs/DecoderTotal.v, ScannerFailure.v, SchemaResolveProofs.v, SchemaJsonProofs.v. *)
From Coq Require Import ZArith List Bool.
Import ListNotations.
From Cedar Require Import Lang.Value Base.Json Impl.Scanner Impl.Tokenizer Impl.Quote Impl.Parser Impl.PolicyJson Impl.SchemaResolve
  Impl.SchemaJson Impl.SchemaText Impl.EntityJson Impl.RequestJson Proofs.SchemaTextProofs1 Proofs.ScannerFailure Proofs.DecoderTotal Proofs.SchemaResolveProofs Proofs.SchemaJsonProofs
  Proofs.EntityJsonProofs Proofs.RequestJsonProofs Proofs.CodecCommute.

(* the streaming tokenizer: every reader (any chunking, failing or not), any bytes *)
Theorem C10_tokenizer_terminates : forall b r fuel,
  (4 <= b)%nat -> (length (r_rest r) < fuel)%nat -> (length (r_sched r) + 2 <= fuel)%nat -> tokenize fuel b r <> None.
Proof. exact tokenize_total_gen. Qed.

(* the Cedar text parser: every token list the tokenizer can produce *)
Theorem C10_parser_terminates : forall ts, eof_terminated ts -> forall f, (12 * length ts + 100 <= f)%nat -> p_policies f ts [] <> PFuel.
Proof. exact p_policies_total. Qed.
Theorem C10_text_pipeline_terminates : forall fuel bufLen r ts, tokenize fuel bufLen r = Some (Some ts) ->
  forall f, (12 * length ts + 100 <= f)%nat -> p_policies f ts [] <> PFuel.
Proof. exact tokenize_p_policies_total. Qed.

(* policy JSON (expression trees and whole policies): every JSON tree *)
Theorem C10_policy_json_terminates : forall j, dec_policy j <> DFuel.
Proof. exact dec_policy_total. Qed.

(* string and pattern literals: the internal fuel is never the reason for a rejection *)
Theorem C10_unquote_fuel_enough : forall b star acc f, (length b < f)%nat -> unquote_fuel f b star acc = unquote_fuel (S (length b)) b star acc.
Proof. exact unquote_fuel_enough. Qed.

(* schema resolution: every schema AST *)
Theorem C10_schema_resolution_terminates : forall s, resolve_schema s <> VFuel.
Proof. exact resolve_schema_terminates. Qed.

(* schema JSON: every JSON tree *)
Theorem C10_schema_json_terminates : forall j, dec_schema j <> DFuel.
Proof. exact dec_schema_total. Qed.

(* schema text: every byte string *)
Theorem C10_schema_text_terminates : forall src, parse_schema src <> SFuel.
Proof. exact parse_schema_total. Qed.

(* entity maps, requests, diagnostics, policy sets: every JSON tree (value JSON and the entity-uid text parser are structural recursions
   without fuel) *)
Theorem C10_entity_map_json_terminates : forall j, dec_entity_map j <> DFuel.
Proof. exact dec_entity_map_total. Qed.
Theorem C10_request_json_terminates : forall j, dec_request j <> DFuel.
Proof. exact dec_request_total. Qed.
Theorem C10_diagnostic_json_terminates : forall j, dec_diagnostic j <> DFuel.
Proof. exact dec_diagnostic_total. Qed.
Theorem C10_policy_set_json_terminates : forall j, dec_policy_set j <> DFuel.
Proof. exact dec_policy_set_total. Qed.

Print Assumptions C10_entity_map_json_terminates.
Print Assumptions C10_request_json_terminates.
Print Assumptions C10_diagnostic_json_terminates.
Print Assumptions C10_policy_set_json_terminates.
Print Assumptions C10_schema_text_terminates.
Print Assumptions C10_schema_json_terminates.
Print Assumptions C10_tokenizer_terminates.
Print Assumptions C10_parser_terminates.
Print Assumptions C10_text_pipeline_terminates.
Print Assumptions C10_policy_json_terminates.
Print Assumptions C10_unquote_fuel_enough.
Print Assumptions C10_schema_resolution_terminates.
