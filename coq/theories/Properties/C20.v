(* C20 — policy containers behave as an id-keyed map.  Proofs: Proofs/PolicySetProofs.v (one step), Proofs/PolicySetHistory.v (every
   history of operations; the document loader). *)
From Coq Require Import ZArith List Bool Permutation Sorted String.
Import ListNotations.
From Cedar Require Import Lang.Value Impl.Authorize Impl.PolicySet Proofs.PolicySetProofs Proofs.PolicySetHistory.

(* Add (insert or replace) and Remove refine the abstract map, and keep ids unique *)
Theorem C20_add_refines : forall s k h x, abs (ps_set s k h) x = f_set (abs s) k h x.
Proof. exact add_refines. Qed.
Theorem C20_remove_refines : forall s k x, abs (ps_del s k) x = f_del (abs s) k x.
Proof. exact remove_refines. Qed.
Theorem C20_add_keeps_unique : forall s k h, uniq s -> uniq (ps_set s k h).
Proof. exact ps_set_uniq. Qed.
Theorem C20_remove_keeps_unique : forall s k, uniq s -> uniq (ps_del s k).
Proof. exact ps_del_uniq. Qed.

(* marshalling order: a permutation of the contents, sorted by id bytes, representing the same map *)
Theorem C20_marshal_sorted : forall s, Sorted id_le (sort_by_id s) /\ Permutation (sort_by_id s) s.
Proof. intros s. split; [apply sort_by_id_sorted | apply sort_by_id_perm]. Qed.
Theorem C20_marshal_same_map : forall s, uniq s -> forall x, abs (sort_by_id s) x = abs s x.
Proof. exact sort_preserves_abs. Qed.

(* authorization depends only on the contents *)
Theorem C20_authorize_contents_only : forall eff ev s1 s2, Permutation s1 s2 ->
  match authz eff ev s1, authz eff ev s2 with
  | RDecision d1 r1 e1, RDecision d2 r2 e2 => d1 = d2 /\ Permutation r1 r2 /\ Permutation e1 e2
  | _, _ => False
  end.
Proof. exact authorize_contents_only. Qed.

(* policy10 sorts before policy2 *)
Example C20_policy10_before_policy2 : str_ltb (policy_id 10) (policy_id 2) = true.
Proof. vm_compute. reflexivity. Qed.

(* EVERY HISTORY.  spec_next f o f' / spec_out f o r (Proofs/PolicySetHistory.v): the map after an operation and the answer the plain
   id -> policy map model predicts (Add / Remove: was the id new / present; Get: the binding; All / Map / JSON round trip: THE strictly
   id-sorted enumeration of the map; MarshalCedar: its policies in that order; loading a document / a JSON document / a text round trip: the
   enumeration of the new map; Authorize: the decision, reasons and errors of any enumeration, which do not depend on it).  After any
   sequence of operations, from any state with unique ids - in particular from the empty set - every answer is the predicted one and the
   state is the predicted map. *)
Theorem C20_every_history : forall eff ev ops s, uniq s -> history_ok eff ev (abs s) ops (run eff ev s ops).
Proof. exact run_refines. Qed.
Theorem C20_every_history_from_empty : forall eff ev ops,
  history_ok eff ev f_empty ops (run eff ev [] ops) /\ uniq (run_state eff ev [] ops) /\ spec_run f_empty ops (abs (run_state eff ev [] ops)).
Proof. exact history_from_empty. Qed.
(* the prediction is unique: the map after an operation up to pointwise equality, the answer up to the order of reason / error ids *)
Theorem C20_prediction_unique : forall f o f1 f2, spec_next f o f1 -> spec_next f o f2 -> feq f1 f2.
Proof. exact spec_next_functional. Qed.
(* two sets holding the same bindings stay indistinguishable under every history *)
Theorem C20_contents_only : forall eff ev ops s1 s2, uniq s1 -> uniq s2 -> feq (abs s1) (abs s2) ->
  forall k, ps_get (run_state eff ev s1 ops) k = ps_get (run_state eff ev s2 ops) k.
Proof. exact lookup_after_history. Qed.

(* THE LOADER.  The i-th policy of a document gets the id policy<i> - the decimal numeral of i without leading zeros -, ids are pairwise
   distinct and there are no others *)
Theorem C20_loader_ids : forall hs, uniq (number_from 0 hs) /\ (forall i, ps_get (number_from 0 hs) (policy_id i) = nth_error hs i) /\
  (forall k h, ps_get (number_from 0 hs) k = Some h -> exists i, k = policy_id i /\ nth_error hs i = Some h).
Proof. exact loader_ids. Qed.
Theorem C20_policy_id_is_decimal : forall i, exists ds, policy_id i = s_of "policy" ++ ds /\ ds <> [] /\ Forall (fun c => 48 <= c <= 57)%Z ds /\
  (ds = [48%Z] \/ hd 0%Z ds <> 48%Z) /\ Z.of_nat i = fold_left (fun acc c => acc * 10 + (c - 48))%Z ds 0%Z.
Proof. exact policy_id_digits. Qed.
Theorem C20_policy_id_injective : forall i j, policy_id i = policy_id j -> i = j.
Proof. exact policy_id_inj. Qed.

Print Assumptions C20_every_history.
Print Assumptions C20_every_history_from_empty.
Print Assumptions C20_prediction_unique.
Print Assumptions C20_contents_only.
Print Assumptions C20_loader_ids.
Print Assumptions C20_policy_id_is_decimal.
Print Assumptions C20_policy_id_injective.
Print Assumptions C20_add_refines.
Print Assumptions C20_remove_refines.
Print Assumptions C20_add_keeps_unique.
Print Assumptions C20_remove_keeps_unique.
Print Assumptions C20_marshal_sorted.
Print Assumptions C20_marshal_same_map.
Print Assumptions C20_authorize_contents_only.
