(* C20 — policy containers behave as an id-keyed map.  Proofs: Proofs/PolicySetProofs.v. *)
From Coq Require Import ZArith List Bool Permutation Sorted.
From Cedar Require Import Lang.Value Impl.Authorize Impl.PolicySet Proofs.PolicySetProofs.

(* Add (insert or replace) and Remove refine the abstract map, and keep ids unique *)
Theorem C20_add_refines : forall s k h x, abs (ps_set s k h) x = f_set (abs s) k h x.
Proof. exact add_refines. Qed.
Theorem C20_remove_refines : forall s k x, abs (ps_del s k) x = f_del (abs s) k x.
Proof. exact remove_refines. Qed.
Theorem C20_add_keeps_unique : forall s k h, uniq s -> uniq (ps_set s k h).
Proof. exact ps_set_uniq. Qed.
Theorem C20_remove_keeps_unique : forall s k, uniq s -> uniq (ps_del s k).
Proof. exact ps_del_uniq. Qed.

(* marshalling order: a permutation of the contents, sorted by id bytes, representing the same map *)
Theorem C20_marshal_sorted : forall s, Sorted id_le (sort_by_id s) /\ Permutation (sort_by_id s) s.
Proof. intros s. split; [apply sort_by_id_sorted | apply sort_by_id_perm]. Qed.
Theorem C20_marshal_same_map : forall s, uniq s -> forall x, abs (sort_by_id s) x = abs s x.
Proof. exact sort_preserves_abs. Qed.

(* authorization depends only on the contents *)
Theorem C20_authorize_contents_only : forall eff ev s1 s2, Permutation s1 s2 ->
  match authz eff ev s1, authz eff ev s2 with
  | RDecision d1 r1 e1, RDecision d2 r2 e2 => d1 = d2 /\ Permutation r1 r2 /\ Permutation e1 e2
  | _, _ => False
  end.
Proof. exact authorize_contents_only. Qed.

(* policy10 sorts before policy2 *)
Example C20_policy10_before_policy2 : str_ltb (policy_id 10) (policy_id 2) = true.
Proof. vm_compute. reflexivity. Qed.

Print Assumptions C20_add_refines.
Print Assumptions C20_remove_refines.
Print Assumptions C20_add_keeps_unique.
Print Assumptions C20_remove_keeps_unique.
Print Assumptions C20_marshal_sorted.
Print Assumptions C20_marshal_same_map.
Print Assumptions C20_authorize_contents_only.
