(* C01 — expression evaluation follows the Cedar language semantics.
   eval  = model of internal/eval (Impl/Eval.v: wrap-around arithmetic on the kernels regenerated from evalers.go, DFS `in`,
           greedy `like` matcher, Go-style remainder in toDate/toTime);
   seval = the declarative semantics (Lang/Spec.v).
   Proofs: Proofs/EvalSpecProofs.v, ArithProofs.v, LikeProofs.v, InSearchProofs.v. *)
From Coq Require Import ZArith List Bool.
Import ListNotations.
From Cedar Require Import Base.Int64 Lang.Value Lang.Expr Lang.Spec Impl.Like Impl.Eval Generated.Kernels
  Proofs.ArithProofs Proofs.InSearchProofs Proofs.EvalSpecProofs.
From Cedar Require Proofs.LikeProofs.
Local Open Scope Z_scope.

(* the headline: same value or same error, for every expression, store and request whose numbers fit in 64 bits *)
Theorem C01_eval_refines_spec : forall en e, env_ok en = true -> expr_ok e = true -> eval en e = seval en e.
Proof. exact eval_refines_spec. Qed.

(* results stay within 64 bits, so the hypothesis is an invariant *)
Theorem C01_eval_preserves_range : forall en e v, env_ok en = true -> expr_ok e = true -> eval en e = Ok v -> num_ok v = true.
Proof. exact eval_preserves_num_ok. Qed.

(* the specification's `in` really is the reflexive-transitive closure of the parent relation *)
Theorem C01_spec_in_is_reachability : forall st a b, spec_in_one st a b = true <-> reach_st st a b.
Proof. exact spec_in_one_reach. Qed.

(* the search never runs out of fuel (the evaluator always terminates with a value or a Cedar error) *)
Theorem C01_eval_never_out_of_fuel : forall en e, no_fuel_node e = true -> eval en e <> Err EFuel.
Proof. exact eval_never_out_of_fuel. Qed.

(* the int64 kernels, as regenerated from evalers.go on every run, detect overflow exactly *)
Theorem C01_checked_add : forall a b, in64 a -> in64 b -> checkedAddI64 a b = (wrap64 (a + b), in64b (a + b)).
Proof. exact checked_add_spec. Qed.
Theorem C01_checked_sub : forall a b, in64 a -> in64 b -> checkedSubI64 a b = (wrap64 (a - b), in64b (a - b)).
Proof. exact checked_sub_spec. Qed.
Theorem C01_checked_mul : forall a b, in64 a -> in64 b ->
  snd (checkedMulI64 a b) = in64b (a * b) /\ (in64b (a * b) = true -> fst (checkedMulI64 a b) = a * b).
Proof. exact checked_mul_spec. Qed.
Theorem C01_checked_neg : forall a, in64 a -> checkedNegI64 a = (if in64b (- a) then wrap64 (- a) else 0, in64b (- a)).
Proof. exact checked_neg_spec. Qed.

(* the greedy matcher of Pattern.Match is the textbook wildcard semantics, for every pattern NewPattern can build *)
Theorem C01_like : forall (cs : list (option str)) (s : str),
  go_match (compile_pattern cs) s = LikeProofs.wmatch (LikeProofs.elems_of_raw cs) s.
Proof. exact LikeProofs.like_spec. Qed.

Print Assumptions C01_eval_refines_spec.
Print Assumptions C01_eval_preserves_range.
Print Assumptions C01_spec_in_is_reachability.
Print Assumptions C01_eval_never_out_of_fuel.
Print Assumptions C01_checked_add.
Print Assumptions C01_checked_sub.
Print Assumptions C01_checked_mul.
Print Assumptions C01_checked_neg.
Print Assumptions C01_like.
