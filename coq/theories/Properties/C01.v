(* C01 — expression evaluation (placeholder: kernels first). *)
From Coq Require Import ZArith.
From Cedar Require Import Base.Int64 Generated.Kernels Proofs.ArithProofs.
Local Open Scope Z_scope.

Theorem C01_checked_add : forall a b, in64 a -> in64 b ->
  checkedAddI64 a b = (wrap64 (a + b), in64b (a + b)).
Proof. exact checked_add_spec. Qed.
Theorem C01_checked_sub : forall a b, in64 a -> in64 b ->
  checkedSubI64 a b = (wrap64 (a - b), in64b (a - b)).
Proof. exact checked_sub_spec. Qed.
Theorem C01_checked_mul : forall a b, in64 a -> in64 b ->
  snd (checkedMulI64 a b) = in64b (a * b) /\ (in64b (a * b) = true -> fst (checkedMulI64 a b) = a * b).
Proof. exact checked_mul_spec. Qed.
Theorem C01_checked_neg : forall a, in64 a ->
  checkedNegI64 a = (if in64b (- a) then wrap64 (- a) else 0, in64b (- a)).
Proof. exact checked_neg_spec. Qed.

Print Assumptions C01_checked_add.
Print Assumptions C01_checked_sub.
Print Assumptions C01_checked_mul.
Print Assumptions C01_checked_neg.
