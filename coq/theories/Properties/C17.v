(* C17 — schema codecs round-trip and preserve the resolved schema.  JSON half.
   Model: Impl/SchemaJson.v IS x/exp/schema/internal/json/json.go on JSON trees (the intermediate structs jsonNamespace, jsonEntityType,
   jsonType ... included), tied to the code by the `sjsonenc` / `sjsondec` correspondences on AST-born schemas and structural mutants of
   their encodings; Impl/SchemaResolve.v is the resolver (C16).  Proofs: Proofs/SchemaJsonProofs.v.
   wf_schema: what a Go AST satisfies by construction (every map is a key-sorted association list; one namespace does not declare a name
   both as an entity and as an enumerated type - the JSON format has one map for both; the bare namespace has no annotations).
   norm_schema: entity parent lists sorted (the encoder sorts them), a bare namespace without declarations dropped; nothing else changes:
   enumerated types keep their values even when there are none (F44), optional flags, annotations, empty records, empty applies-to lists and
   the order of action parents are preserved.
   The TEXT half (x/exp/schema/internal/parser) is not covered by a theorem: it is decided by the direct oracle of the check on text-, JSON-
   and AST-born schemas (and a model of it is under construction: Impl/SchemaText.v). *)
From Coq Require Import List Bool.
Import ListNotations.
From Cedar Require Import Base.Json Lang.Value Impl.PolicyJson Impl.SchemaResolve Impl.SchemaJson Proofs.SchemaJsonProofs.

(* rendering as JSON and parsing the result yields the schema (in normal form) *)
Theorem C17_json_roundtrip : forall s, wf_schema s = true -> dec_schema (enc_schema s) = DOk (norm_schema s).
Proof. exact dec_enc_schema. Qed.

(* a second rendering is identical to the first (as a JSON tree; json.Marshal prints a tree in one way) *)
Theorem C17_second_rendering_identical : forall s, enc_schema (norm_schema s) = enc_schema s.
Proof. exact second_roundtrip_gen. Qed.

Theorem C17_normal_form_stable : forall s, wf_schema s = true -> norm_schema (norm_schema s) = norm_schema s /\ wf_schema (norm_schema s) = true.
Proof. exact norm_idempotent. Qed.

(* the round trip commutes with resolution: same verdict, and the same resolved schema up to the order of entity parent lists *)
Theorem C17_json_roundtrip_preserves_resolution : forall s, wf_schema s = true ->
  match resolve_schema (erase s), resolve_schema (erase (norm_schema s)) with
  | VOk a, VOk b => resolved_equiv a b
  | VErr, VErr => True
  | _, _ => False
  end.
Proof. exact resolve_norm. Qed.

(* the decoder returns a verdict on every JSON tree *)
Theorem C17_decoder_total : forall j, dec_schema j <> DFuel.
Proof. exact dec_schema_total. Qed.

(* non-vacuity, and what each clause of wf_schema is for: see ex_kept, ex_norm, ex_clash, ex_bare_annots, ex_unsorted in the proof file *)
Definition C17_example_kept := ex_kept.

Print Assumptions C17_json_roundtrip.
Print Assumptions C17_second_rendering_identical.
Print Assumptions C17_normal_form_stable.
Print Assumptions C17_json_roundtrip_preserves_resolution.
Print Assumptions C17_decoder_total.
