(* C17 — schema codecs round-trip and preserve the resolved schema.  JSON half.
   Model: Impl/SchemaJson.v IS x/exp/schema/internal/json/json.go on JSON trees (the intermediate structs jsonNamespace, jsonEntityType,
   jsonType ... included), tied to the code by the `sjsonenc` / `sjsondec` correspondences on AST-born schemas and structural mutants of
   their encodings; Impl/SchemaResolve.v is the resolver (C16).  Proofs: Proofs/SchemaJsonProofs.v.
   wf_schema: what a Go AST satisfies by construction (every map is a key-sorted association list; one namespace does not declare a name
   both as an entity and as an enumerated type - the JSON format has one map for both; the bare namespace has no annotations).
   norm_schema: entity parent lists sorted (the encoder sorts them), a bare namespace without declarations dropped; nothing else changes:
   enumerated types keep their values even when there are none (F44), optional flags, annotations, empty records, empty applies-to lists and
   the order of action parents are preserved.
   TEXT half: Impl/SchemaText.v IS x/exp/schema/internal/parser (lexer, on-demand recursive-descent parser, printer) on bytes, tied to the
   code by the stparse / stprint correspondences; Proofs/SchemaTextProofs1.v, SchemaTextProofs.v.
   wf_text: the schemas the text syntax can express (declared names and references are identifier paths, quoted strings are valid UTF-8,
   applies-to lists non-empty - the complement is the known finding F45 -, no type position uses the name Set ...).
   norm_text: the parser does not classify type names, so every type name comes back as a reference (String -> the name "String"); it is the
   resolver that classifies them; a built-in name that the schema also declares as a type is written __cedar::Name so that it is classified
   as before (F26, repaired). *)
From Coq Require Import List Bool.
Import ListNotations.
From Cedar Require Import Base.Json Lang.Value Impl.PolicyJson Impl.SchemaResolve Impl.SchemaJson Impl.SchemaText Proofs.SchemaJsonProofs
  Proofs.SchemaTextProofs1 Proofs.SchemaTextProofs.

(* rendering as JSON and parsing the result yields the schema (in normal form) *)
Theorem C17_json_roundtrip : forall s, wf_schema s = true -> dec_schema (enc_schema s) = DOk (norm_schema s).
Proof. exact dec_enc_schema. Qed.

(* a second rendering is identical to the first (as a JSON tree; json.Marshal prints a tree in one way) *)
Theorem C17_second_rendering_identical : forall s, enc_schema (norm_schema s) = enc_schema s.
Proof. exact second_roundtrip_gen. Qed.

Theorem C17_normal_form_stable : forall s, wf_schema s = true -> norm_schema (norm_schema s) = norm_schema s /\ wf_schema (norm_schema s) = true.
Proof. exact norm_idempotent. Qed.

(* the round trip commutes with resolution: same verdict, and the same resolved schema up to the order of entity parent lists *)
Theorem C17_json_roundtrip_preserves_resolution : forall s, wf_schema s = true ->
  match resolve_schema (erase s), resolve_schema (erase (norm_schema s)) with
  | VOk a, VOk b => resolved_equiv a b
  | VErr, VErr => True
  | _, _ => False
  end.
Proof. exact resolve_norm. Qed.

(* the decoder returns a verdict on every JSON tree *)
Theorem C17_decoder_total : forall j, dec_schema j <> DFuel.
Proof. exact dec_schema_total. Qed.

(* ---- text ---- *)
(* rendering as schema text and parsing the result yields the schema (in the text normal form) *)
Theorem C17_text_roundtrip : forall s, wf_text s = true -> parse_schema (print_schema s) = SOk (norm_text s).
Proof. exact parse_print_schema. Qed.

(* a second rendering is byte-identical to the first *)
Theorem C17_second_text_rendering_identical : forall s, wf_text s = true -> print_schema (norm_text s) = print_schema s.
Proof. exact second_text_rendering. Qed.

Theorem C17_text_normal_form_stable : forall s, wf_text s = true -> norm_text (norm_text s) = norm_text s /\ wf_text (norm_text s) = true.
Proof. exact norm_text_idempotent. Qed.

(* the text round trip commutes with resolution (same verdict, same resolved schema) for every schema that uses no construct only JSON can
   express (an explicit EntityTypeRef, an unknown extension type) - also when a declared type is named like a built-in: the printer then
   writes __cedar::String, which the resolver always reads as the built-in (this was the finding F26, repaired in the code) *)
Theorem C17_text_roundtrip_preserves_resolution : forall s, wf_text s = true -> plain_schema s = true ->
  resolve_schema (erase (norm_text s)) = resolve_schema (erase s).
Proof. exact resolve_norm_text_names'. Qed.

(* the former counterexample: entity String; entity A { x: String (the primitive) } now round-trips through resolution *)
Definition C17_text_roundtrip_f26_example := f26_repaired.
(* ... nor is an empty applies-to list printable: the known finding F45 *)
Definition C17_text_roundtrip_f45_refuted := f45_rejected.

(* text -> JSON -> text: conversions between the formats commute with resolution, through the two round trips above
   (JSON: C17_json_roundtrip_preserves_resolution on the parser's output, which is wf_schema: wf_text_wf_schema) *)
Theorem C17_text_schemas_are_json_schemas : forall s, wf_text s = true -> wf_schema s = true.
Proof. exact wf_text_wf_schema. Qed.

(* the parser returns a verdict on every byte string *)
Theorem C17_text_parser_total : forall src, parse_schema src <> SFuel.
Proof. exact parse_schema_total. Qed.

(* non-vacuity, and what each clause of wf_schema is for: see ex_kept, ex_norm, ex_clash, ex_bare_annots, ex_unsorted in the proof file *)
Definition C17_example_kept := ex_kept.

Print Assumptions C17_json_roundtrip.
Print Assumptions C17_second_rendering_identical.
Print Assumptions C17_normal_form_stable.
Print Assumptions C17_json_roundtrip_preserves_resolution.
Print Assumptions C17_decoder_total.
Print Assumptions C17_text_roundtrip.
Print Assumptions C17_second_text_rendering_identical.
Print Assumptions C17_text_normal_form_stable.
Print Assumptions C17_text_roundtrip_preserves_resolution.
Print Assumptions C17_text_schemas_are_json_schemas.
Print Assumptions C17_text_parser_total.
