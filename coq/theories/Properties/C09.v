(* C09 — the JSON policy codec round-trips.
   Model: Impl/PolicyJson.v (internal/json: MarshalJSON / UnmarshalJSON + ToNode on JSON trees, Base/Json.v; values through
   Impl/ValueJson.v).  The model's encoder is tied to the code byte-for-tree, its decoder on encoder outputs and structural mutants
   (py/props/c09.py).  Proofs: Proofs/PolicyJsonProofs.v; Proofs/CodecCommute.v (policy sets, the two codecs together).
   Parameters: the ipaddr printer (net/netip: modelled in Impl/IPPrint.v, any printer whose output parses back will do) and the member
   order of an encoded set (identity here; the order itself is C11's business). *)
From Coq Require Import ZArith List Bool.
From Coq Require Import Permutation.
From Cedar Require Import Base.Json Lang.Value Impl.Like Lang.Expr Impl.Eval Impl.IPAddr Impl.IPPrint Impl.ValueJson Impl.PolicyJson Lang.RoundTrip
  Proofs.PolicyJsonProofs Proofs.NormMeaning Proofs.IPProofs Proofs.CodecCommute Generated.Tables Proofs.NodeKeysTable.

Section C09.
  Variable print_ip : bool -> Z -> Z -> str.
  Variable ord : list json -> list json.
  Variable ip_ok : bool -> Z -> Z -> bool.
  Hypothesis ip_roundtrip : forall v6 a p, ip_ok v6 a p = true -> parse_ip (print_ip v6 a p) = Some (v6, a, p).
  Hypothesis ord_id : forall l, ord l = l.

  (* decoding the JSON encoding of an expression yields the identical tree, up to the normal form the format imposes: decimal / ip
     literal values are written as extension calls, record-literal entries are a map (sorted by key, last duplicate wins), the empty
     pattern is one empty literal *)
  Theorem C09_expr_roundtrip : forall e, expr_okj ip_ok e = true ->
    decode_expr (enc_expr print_ip ord e) = DOk (normj print_ip e).
  Proof. exact (decode_encode_expr print_ip ord ip_ok ip_roundtrip ord_id). Qed.

  (* whole policies: effect, the three scopes, condition kinds and order, every expression; annotations compared by key *)
  Theorem C09_policy_roundtrip : forall annots p, policy_okj ip_ok p = true ->
    dec_policy (enc_policy print_ip ord annots p) = DOk (rec_of_list annots, normj_policy print_ip p).
  Proof. exact (dec_enc_policy print_ip ord ip_ok ip_roundtrip ord_id). Qed.

  (* the normal form is reached after one trip: a second trip is the identity *)
  Theorem C09_normal_form_idempotent : forall e, normj print_ip (normj print_ip e) = normj print_ip e.
  Proof. exact (normj_idempotent print_ip). Qed.
  Theorem C09_second_roundtrip : forall e, expr_okj ip_ok e = true ->
    decode_expr (enc_expr print_ip ord (normj print_ip e)) = DOk (normj print_ip e).
  Proof. exact (second_roundtrip print_ip ord ip_ok ip_roundtrip ord_id). Qed.

  (* and it does not change meaning: every encoding of a policy evaluates identically *)
  Theorem C09_normal_form_same_meaning : forall en e, sem_okj ip_ok e = true -> eval en (normj print_ip e) = eval en e.
  Proof. exact (eval_normj print_ip ip_ok ip_roundtrip). Qed.
End C09.

(* like patterns: exactly the patterns NewPattern can produce read back unchanged *)
Theorem C09_pattern_roundtrip : forall p, pat_canon p = true -> dec_pattern (enc_pattern p) = DOk (norm_pat p).
Proof. exact dec_enc_pattern. Qed.
Theorem C09_patterns_are_canonical : forall cs, pat_canon (compile_pattern cs) = true.
Proof. exact compile_pattern_canon. Qed.

(* ---- policy sets: {"staticPolicies": {id: policy}} ---- *)
(* the policy ids are preserved: every id decodes to (the JSON normal form of) its own policy, and no other id appears *)
Theorem C09_policy_set_ids_preserved : forall ord, (forall l, ord l = l) -> forall ps, NoDup (map fst ps) -> pset_okj ip_ok ps ->
  exists out, dec_policy_set (enc_policy_set print_ip ord ps) = DOk out /\
    (forall id ap, In (id, ap) ps -> rec_get id out = Some (ps_norm print_ip ap)) /\
    (forall id, ~ In id (map fst ps) -> rec_get id out = None) /\
    Permutation (map fst out) (map fst ps).
Proof. exact (fun ord H => dec_enc_policy_set_nodup print_ip ord ip_ok ip_roundtrip_concrete H). Qed.

Theorem C09_policy_set_decoder_total : forall j, dec_policy_set j <> DFuel.
Proof. exact dec_policy_set_total. Qed.

(* ---- the two codecs together ---- *)
(* text -> JSON -> text and JSON -> text -> JSON reach one common normal form: the normal forms of the two codecs commute
   (policy_lit_sorted: record literal VALUES have sorted keys - they are Go maps) *)
Theorem C09_codecs_commute : forall set_order p, policy_lit_sorted p = true ->
  normj_policy print_ip (norm_policy set_order print_ip p) = norm_policy set_order print_ip (normj_policy print_ip p).
Proof. exact (fun so => policy_normal_forms_commute so print_ip). Qed.

(* all encodings of one policy authorize identically: the policy read back from text, from JSON, from text then JSON, from JSON then
   text evaluates to the same Boolean or the same error as the original, in every well-formed environment *)
Theorem C09_all_encodings_same_outcome : forall set_order, (forall l, Permutation (set_order l) (seq 0 (length l))) ->
  forall en p, norm_env_wf en -> policy_lit_ok ip_ok p = true ->
    bool_eval en (policy_to_expr (norm_policy set_order print_ip p)) = bool_eval en (policy_to_expr p) /\
    bool_eval en (policy_to_expr (normj_policy print_ip p)) = bool_eval en (policy_to_expr p) /\
    bool_eval en (policy_to_expr (normj_policy print_ip (norm_policy set_order print_ip p))) = bool_eval en (policy_to_expr p) /\
    bool_eval en (policy_to_expr (norm_policy set_order print_ip (normj_policy print_ip p))) = bool_eval en (policy_to_expr p).
Proof. exact (fun so H => all_encodings_same_outcome so print_ip ip_ok ip_roundtrip_concrete H). Qed.

(* TRANSLATED TABLE: the decoder's key table is the code's.  Generated/Tables.node_json_tonode_keys is the order in which the switch of
   nodeJSON.ToNode examines the typed fields, node_json_field_keys the keys declared in the struct tags of nodeJSON; both are read off
   internal/json by the translator on every run (Proofs/NodeKeysTable.v). *)
Theorem C09_decoder_keys_are_the_codes : node_keys = node_json_tonode_keys.
Proof. exact node_keys_are_tonode_order. Qed.

Theorem C09_decoder_keys_are_the_declared_fields :
  (forall k, In k node_keys <-> In k node_json_field_keys) /\ List.length node_keys = List.length node_json_field_keys.
Proof. exact node_keys_are_the_declared_fields. Qed.

Print Assumptions C09_decoder_keys_are_the_codes.
Print Assumptions C09_decoder_keys_are_the_declared_fields.
Print Assumptions C09_expr_roundtrip.
Print Assumptions C09_policy_roundtrip.
Print Assumptions C09_normal_form_idempotent.
Print Assumptions C09_second_roundtrip.
Print Assumptions C09_normal_form_same_meaning.
Print Assumptions C09_pattern_roundtrip.
Print Assumptions C09_patterns_are_canonical.
Print Assumptions C09_policy_set_ids_preserved.
Print Assumptions C09_policy_set_decoder_total.
Print Assumptions C09_codecs_commute.
Print Assumptions C09_all_encodings_same_outcome.
