(* C11 — value equality, hashing, sets and records obey their algebraic laws.
   Proofs: Proofs/ValueProofs.v (canonical values) and Proofs/HashSetProofs.v (the open-addressing table). *)
From Coq Require Import ZArith List Bool SetoidList.
Import ListNotations.
From Cedar Require Import Base.Int64 Lang.Value Impl.HashSet Proofs.ValueProofs Proofs.HashSetProofs.
Local Open Scope Z_scope.

(* --- equality is an equivalence and separates the ten value types --- *)
Theorem C11_eq_refl : forall v, veq v v = true.
Proof. exact veq_refl. Qed.
Theorem C11_eq_sym : forall a b, wf_value a = true -> wf_value b = true -> veq a b = veq b a.
Proof. exact veq_sym. Qed.
Theorem C11_eq_trans : forall a b c, veq a b = true -> veq b c = true -> veq a c = true.
Proof. exact veq_trans_nowf. Qed.
Theorem C11_eq_type : forall a b, veq a b = true -> type_tag a = type_tag b.
Proof. exact veq_type_tag. Qed.

(* --- a set built from any sequence has exactly its distinct members, whatever the order and duplicates --- *)
Theorem C11_set_members : forall l x, exists m, mk_set l = VSet m /\ (vmem x m = true <-> vmem x l = true).
Proof. exact mk_set_members. Qed.
Theorem C11_set_wf : forall l, Forall (fun v => wf_value v = true) l -> wf_value (mk_set l) = true.
Proof. exact mk_set_wf. Qed.
Theorem C11_set_order_irrelevant : forall l1 l2,
  Forall (fun v => wf_value v = true) l1 -> Forall (fun v => wf_value v = true) l2 ->
  (forall x, wf_value x = true -> vmem x l1 = vmem x l2) -> veq (mk_set l1) (mk_set l2) = true.
Proof. exact mk_set_order_irrelevant. Qed.

(* --- records: same keys with equal values --- *)
Theorem C11_record_equal_iff : forall l m, keys_sorted l = true -> keys_sorted m = true ->
  (veq (VRecord l) (VRecord m) = true <->
   (forall k, match rec_get k l, rec_get k m with Some x, Some y => veq x y = true | None, None => True | _, _ => False end)).
Proof. exact record_equal_iff. Qed.
Theorem C11_record_last_binding_wins : forall (kvs : list (str * value)) k,
  rec_get k (rec_of_list kvs) = rec_get k (rev kvs).
Proof. exact rec_of_list_get. Qed.

(* --- the Go implementation of Set (map[uint64]Value with linear probing, sum of hashes) is that set,
       for EVERY hash function compatible with equality, i.e. for all collision patterns --- *)
Section Table.
  Variable V : Type.
  Variable eqv : V -> V -> bool.
  Variable hash : V -> Z.
  Hypothesis eqv_refl : forall a, eqv a a = true.
  Hypothesis eqv_sym : forall a b, eqv a b = eqv b a.
  Hypothesis eqv_trans : forall a b c, eqv a b = true -> eqv b c = true -> eqv a c = true.
  Hypothesis hash_range : forall v, 0 <= hash v < two64.
  Hypothesis hash_eqv : forall a b, eqv a b = true -> hash a = hash b.

  Theorem C11_table_total : forall l, Z.of_nat (length l) < two64 -> exists t, new_table V eqv hash l = Some t.
  Proof. exact (new_table_total V eqv hash eqv_sym eqv_trans hash_range hash_eqv). Qed.

  Theorem C11_table_members : forall l t v, Z.of_nat (length l) < two64 -> new_table V eqv hash l = Some t ->
    (contains V eqv hash t v = Some true <-> InV V eqv v l).
  Proof. exact (set_members V eqv hash eqv_sym eqv_trans hash_range hash_eqv). Qed.

  Theorem C11_table_equal : forall l1 l2 t1 t2, Z.of_nat (length l1) < two64 -> Z.of_nat (length l2) < two64 ->
    new_table V eqv hash l1 = Some t1 -> new_table V eqv hash l2 = Some t2 ->
    exists b, table_equal V eqv hash t1 t2 = Some b /\ (b = true <-> (forall v, InV V eqv v l1 <-> InV V eqv v l2)).
  Proof. exact (set_equal_iff V eqv hash eqv_refl eqv_sym eqv_trans hash_range hash_eqv). Qed.
End Table.

Print Assumptions C11_eq_refl.
Print Assumptions C11_eq_sym.
Print Assumptions C11_eq_trans.
Print Assumptions C11_eq_type.
Print Assumptions C11_set_members.
Print Assumptions C11_set_wf.
Print Assumptions C11_set_order_irrelevant.
Print Assumptions C11_record_equal_iff.
Print Assumptions C11_record_last_binding_wins.
Print Assumptions C11_table_total.
Print Assumptions C11_table_members.
Print Assumptions C11_table_equal.
