(* C05 — batch authorization equals brute-force authorization of every substitution.
   do_batch / batch_authorize = model of x/exp/batch/batch.go (Impl/Batch.v).  Proofs: Proofs/BatchProofs.v.
   Hypotheses (batch_hyps): clean store, well-formed request parts without ignore markers, clean policies, well-formed
   marker-free variable values, and tmpl_ok: unknowns are whole request parts or record fields at any depth.
   *_partial*: unknowns nested inside SETS are not covered by the theorem (no counterexample known; the correspondence run and the
   brute-force oracle do cover them). *)
From Coq Require Import List Bool.
Import ListNotations.
From Cedar Require Import Lang.Value Lang.Expr Impl.Eval Impl.Partial Impl.Batch Proofs.PartialProofs Proofs.BatchProofs.

(* every substitution of the Cartesian product exactly once, in order, each with the result of the ordinary authorizer on the
   ORIGINAL policies under the substituted request (request, values, decision, reason ids) *)
Theorem C05_batch_is_bruteforce_partial : forall vars en ps, batch_hyps vars en ps ->
  let '(rs, _, st) := do_batch false vars en [] ps None in
  match st with
  | BOk => map Some rs = map (brute en ps) (product vars)
  | BInvalidPart => exists b, In b (product vars) /\ brute en ps b = None
  | _ => False
  end.
Proof. exact do_batch_is_bruteforce. Qed.

Theorem C05_once_each_partial : forall vars en ps, batch_hyps vars en ps ->
  let '(rs, _, st) := do_batch false vars en [] ps None in
  st = BOk -> List.length rs = List.length (product vars) /\ map br_values rs = product vars.
Proof. exact batch_once_each. Qed.

(* the callback fails on its (k+1)-th invocation: enumeration stops right there with that error *)
Theorem C05_stops_on_failure_partial : forall vars en ps k, batch_hyps vars en ps ->
  (forall b, In b (product vars) -> brute en ps b <> None) ->
  (k < List.length (product vars))%nat ->
  let '(full, _, _) := do_batch false vars en [] ps None in
  let '(rs, _, st) := do_batch false vars en [] ps (Some k) in
  st = BCallbackFailed /\ List.length rs = S k /\ rs = firstn (S k) full.
Proof. exact batch_stops_on_failure. Qed.

(* the context is cancelled during the k-th callback: no further callback is made *)
Theorem C05_stops_on_cancel_partial : forall vars en ps k, batch_hyps vars en ps ->
  (forall b, In b (product vars) -> brute en ps b <> None) ->
  (k <= List.length (product vars))%nat ->
  let '(full, _, _) := do_batch false vars en [] ps None in
  let '(rs, bud, st) := do_batch true vars en [] ps (Some k) in
  List.length rs = k /\ rs = firstn k full /\
  ((k < List.length (product vars))%nat -> st = BCancelled) /\
  (k = List.length (product vars) -> (0 < k)%nat -> st = BOk /\ bud = Some O).
Proof. exact batch_stops_on_cancel. Qed.

Print Assumptions C05_batch_is_bruteforce_partial.
Print Assumptions C05_once_each_partial.
Print Assumptions C05_stops_on_failure_partial.
Print Assumptions C05_stops_on_cancel_partial.
