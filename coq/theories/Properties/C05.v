(* C05 — batch authorization equals brute-force authorization of every substitution.
   do_batch / batch_authorize = model of x/exp/batch/batch.go (Impl/Batch.v).  Proofs: Proofs/BatchProofs.v, Proofs/BatchSets.v.
   Hypotheses (batch_hyps'): clean store, well-formed request parts without ignore markers, clean policies, well-formed marker-free
   variable values.  Unknowns may sit ANYWHERE in a request part: whole parts, record fields at any depth, members of sets, of sets of
   records, of sets of sets (the earlier restriction tmpl_ok is gone: Proofs/BatchSets.v).
   Equality of results is literal equality of model values; a model set is its member list in first-insertion order, so for the Go
   structures read the request component as equality of set VALUES (Go's map layout is not part of a value). *)
From Coq Require Import List Bool.
Import ListNotations.
From Cedar Require Import Lang.Value Lang.Expr Impl.Eval Impl.Partial Impl.Batch Proofs.PartialProofs Proofs.BatchProofs Proofs.BatchSets.

(* every substitution of the Cartesian product exactly once, in order, each with the result of the ordinary authorizer on the
   ORIGINAL policies under the substituted request (request, values, decision, reason ids) *)
Theorem C05_batch_is_bruteforce : forall vars en ps, batch_hyps' vars en ps ->
  let '(rs, _, st) := do_batch false vars en [] ps None in
  match st with
  | BOk => map Some rs = map (brute en ps) (product vars)
  | BInvalidPart => exists b, In b (product vars) /\ brute en ps b = None
  | _ => False
  end.
Proof. exact do_batch_is_bruteforce_full. Qed.

Theorem C05_once_each : forall vars en ps, batch_hyps' vars en ps ->
  let '(rs, _, st) := do_batch false vars en [] ps None in
  st = BOk -> List.length rs = List.length (product vars) /\ map br_values rs = product vars.
Proof. exact batch_once_each_full. Qed.

(* the entry point with its checks (unbound / unused variables, empty value lists) *)
Theorem C05_authorize_is_bruteforce : forall vars en ps, batch_hyps' vars en ps ->
  let '(rs, st) := batch_authorize false vars en ps None in
  st = BOk -> map Some rs = map (brute en ps) (product vars).
Proof. exact batch_authorize_bruteforce_full. Qed.

(* the callback fails on its (k+1)-th invocation: enumeration stops right there with that error *)
Theorem C05_stops_on_failure : forall vars en ps k, batch_hyps' vars en ps ->
  (forall b, In b (product vars) -> brute en ps b <> None) ->
  (k < List.length (product vars))%nat ->
  let '(full, _, _) := do_batch false vars en [] ps None in
  let '(rs, _, st) := do_batch false vars en [] ps (Some k) in
  st = BCallbackFailed /\ List.length rs = S k /\ rs = firstn (S k) full.
Proof. exact batch_stops_on_failure_full. Qed.

(* the context is cancelled during the k-th callback: no further callback is made *)
Theorem C05_stops_on_cancel : forall vars en ps k, batch_hyps' vars en ps ->
  (forall b, In b (product vars) -> brute en ps b <> None) ->
  (k <= List.length (product vars))%nat ->
  let '(full, _, _) := do_batch false vars en [] ps None in
  let '(rs, bud, st) := do_batch true vars en [] ps (Some k) in
  List.length rs = k /\ rs = firstn k full /\
  ((k < List.length (product vars))%nat -> st = BCancelled) /\
  (k = List.length (product vars) -> (0 < k)%nat -> st = BOk /\ bud = Some O).
Proof. exact batch_stops_on_cancel_full. Qed.

(* the hypotheses are satisfiable with unknowns below set members, and that instance is outside the old restriction *)
Example C05_nonvacuous_sets : batch_hyps' bx_vars_set bx_env_set bx_ps_set.
Proof. exact bx_set_hyps'. Qed.

Print Assumptions C05_batch_is_bruteforce.
Print Assumptions C05_once_each.
Print Assumptions C05_authorize_is_bruteforce.
Print Assumptions C05_stops_on_failure.
Print Assumptions C05_stops_on_cancel.
