(* C05 — batch authorization (statement file; theorems under construction). *)
From Cedar Require Import Lang.Value Lang.Expr Impl.Eval Impl.Partial Impl.Batch.
