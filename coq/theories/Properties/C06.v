(* C06 — partial evaluation is sound for every completion of the unknowns.
   partial / partial_policy = model of internal/eval/partial.go (Impl/Partial.v).  Proofs: Proofs/PartialProofs.v (unknowns),
   Proofs/PartialIgnoreProofs.v (ignored parts). *)
From Coq Require Import List Bool.
From Cedar Require Import Lang.Value Lang.Expr Impl.Eval Impl.Partial Proofs.PartialProofs Proofs.PartialIgnoreProofs.

(* expressions: a fully evaluated result is the value of the expression under EVERY completion (modulo substituting the unknowns
   it still contains); a residual or a kept original evaluates like the original; a reported error means the original fails;
   req = same value, or both fail (the error KIND may differ: tryPartial reports the first error it meets, the evaluator the first it reaches) *)
Theorem C06_partial_expr_sound : forall en s e,
  store_clean en -> env_wf en -> expr_clean e -> no_ignore en -> completes s en ->
  let en' := subst_env s en in
  match partial en e with
  | PNode (ELit v) => eval en' e = Ok (subst_val s v)
  | PNode n => req (eval en' n) (eval en' e)
  | PVar n => req (eval en' n) (eval en' e)
  | PErr k => exists k', eval en' e = Err k'
  | PIgnore => False
  end.
Proof. exact partial_expr_sound. Qed.

(* policies: kept => the residual is satisfied exactly when the original is; dropped => the original is never satisfied *)
Theorem C06_partial_policy_sound : forall en s p,
  store_clean en -> env_wf en -> policy_clean p -> no_ignore en -> completes s en ->
  match partial_policy en p with
  | Some r => sat (subst_env s en) r = sat (subst_env s en) p
  | None => sat (subst_env s en) p = false
  end.
Proof. exact partial_policy_sound. Qed.

(* IGNORED PARTS.  `fills okf v v'`: v' is v with every ignore marker replaced by some value (different occurrences may get different
   values); fills_env: the same for the four request parts, same store.  If a PERMIT policy is satisfied for SOME value of the ignored parts
   (and the given completion s of the unknowns), the partial evaluator keeps it and its residual is satisfied in that same completed
   environment: ignoring only ever widens what permits allow.  No hypothesis on the filler values. *)
Theorem C06_ignore_widens_permits : forall okf en s p en',
  store_clean en -> env_wf en -> policy_clean p -> p_effect p = true ->
  fills_env okf (subst_env s en) en' -> sat en' p = true ->
  exists r, partial_policy en p = Some r /\ sat en' r = true.
Proof. exact partial_policy_ignore_widens_gen. Qed.

(* contrapositive: a permit the partial evaluator DROPS is unsatisfied for every value of the ignored parts and every completion *)
Theorem C06_ignore_dropped_permit_never_satisfied : forall okf en s p en',
  store_clean en -> env_wf en -> policy_clean p -> p_effect p = true ->
  fills_env okf (subst_env s en) en' -> partial_policy en p = None -> sat en' p = false.
Proof. exact partial_policy_ignore_dropped. Qed.

(* forbid policies: a kept forbid is satisfied whenever the original is (a forbid is never lost), and exactly when the original is unless
   principal, action or resource is itself ignored (then its scope clause becomes `all`: the forbid applies MORE often - the model and the
   code agree on that; Proofs/PartialIgnoreProofs.v forbid_scope_counterexample) *)
Theorem C06_ignore_forbid_kept : forall okf en s p en' r,
  store_clean en -> env_wf en -> policy_clean p -> p_effect p = false ->
  fills_env okf (subst_env s en) en' -> partial_policy en p = Some r ->
  (sat en' p = true -> sat en' r = true) /\
  (is_ignore (e_principal en) = false -> is_ignore (e_action en) = false -> is_ignore (e_resource en) = false -> sat en' r = sat en' p).
Proof. exact forbid_ignore_kept_sound. Qed.

(* expressions under ignored parts: whatever partial evaluation still reports about an expression is true of every filling *)
Theorem C06_partial_expr_sound_with_ignore : forall okf en s e en',
  store_clean en -> env_wf en -> expr_clean e -> fills_env okf (subst_env s en) en' ->
  match partial en e with
  | PNode (ELit v) => exists v', eval en' e = Ok v' /\ fills okf (subst_val s v) v'
  | PNode n => req (eval en' n) (eval en' e)
  | PVar n => req (eval en' n) (eval en' e)
  | PErr _ => exists k', eval en' e = Err k'
  | PIgnore => True
  end.
Proof. exact partial_expr_ignore. Qed.

(* the hypotheses are satisfiable, and the widening is strict (the converse fails) *)
Definition C06_ignore_nonvacuous := ig_instance.
Definition C06_ignore_widening_is_strict := widening_strict.

Print Assumptions C06_ignore_widens_permits.
Print Assumptions C06_ignore_dropped_permit_never_satisfied.
Print Assumptions C06_ignore_forbid_kept.
Print Assumptions C06_partial_expr_sound_with_ignore.
Print Assumptions C06_ignore_nonvacuous.
Print Assumptions C06_ignore_widening_is_strict.
Print Assumptions C06_partial_expr_sound.
Print Assumptions C06_partial_policy_sound.
