(* C06 — partial evaluation is sound for every completion of the unknowns.
   partial / partial_policy = model of internal/eval/partial.go (Impl/Partial.v).  Proofs: Proofs/PartialProofs.v. *)
From Coq Require Import List Bool.
From Cedar Require Import Lang.Value Lang.Expr Impl.Eval Impl.Partial Proofs.PartialProofs.

(* expressions: a fully evaluated result is the value of the expression under EVERY completion (modulo substituting the unknowns
   it still contains); a residual or a kept original evaluates like the original; a reported error means the original fails;
   req = same value, or both fail (the error KIND may differ: tryPartial reports the first error it meets, the evaluator the first it reaches) *)
Theorem C06_partial_expr_sound : forall en s e,
  store_clean en -> env_wf en -> expr_clean e -> no_ignore en -> completes s en ->
  let en' := subst_env s en in
  match partial en e with
  | PNode (ELit v) => eval en' e = Ok (subst_val s v)
  | PNode n => req (eval en' n) (eval en' e)
  | PVar n => req (eval en' n) (eval en' e)
  | PErr k => exists k', eval en' e = Err k'
  | PIgnore => False
  end.
Proof. exact partial_expr_sound. Qed.

(* policies: kept => the residual is satisfied exactly when the original is; dropped => the original is never satisfied *)
Theorem C06_partial_policy_sound : forall en s p,
  store_clean en -> env_wf en -> policy_clean p -> no_ignore en -> completes s en ->
  match partial_policy en p with
  | Some r => sat (subst_env s en) r = sat (subst_env s en) p
  | None => sat (subst_env s en) p = false
  end.
Proof. exact partial_policy_sound. Qed.

Print Assumptions C06_partial_expr_sound.
Print Assumptions C06_partial_policy_sound.
