(* C06 — partial evaluation (placeholder statement file; soundness theorem under construction). *)
From Cedar Require Import Lang.Value Lang.Expr Impl.Eval Impl.Partial.
