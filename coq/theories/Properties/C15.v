(* C15 — validated policies cannot fail with type errors.
   Model: Impl/TypeCheck.v `typeof strict sch env e caps` IS the expression type checker of x/exp/schema/validate (typechecker.go,
   cedar_type.go, capability.go, ext_funcs.go), tied to the code by the `typeof` correspondence on condition bodies and their
   sub-expressions (hook VerifTypeOf); Impl/Eval.v is the evaluator (C01).  Vocabulary: Lang/TypeSound.v (vtyped, env_ok = the
   request and every entity of the store conform to the schema, cap_holds, allowed_error = entity missing from the store / overflow /
   extension run-time error).  Proofs: Proofs/TypeSoundLemmas.v, Proofs/TypeSoundProofs.v.

   STRICT MODE: proved for the whole expression language, every operator, capabilities included.
   PERMISSIVE MODE: the statement is FALSE of the code as it stands (C15_permissive_refuted = known finding F29; the behaviour is pinned
   by the repository's corpus tests).
   POLICY LEVEL: Impl/ValidatePolicy.v models Validator.Policy (scope validation, action application, enumeration and filtering of the
   request environments, every condition in every environment), tied by the `vverdict` correspondence; C15_policy_sound: an accepted
   policy, evaluated as the authorizer evaluates it (scope tests && conditions), yields a Boolean or an allowed error for every conforming
   request and store.  Proofs/PolicySoundProofs.v.
   CONFORMANCE: Impl/Conform.v models the conformance checkers themselves (Validator.Entity / Entities / Request: entity.go, request.go,
   check_value.go), tied by the `conform` correspondence; Proofs/ConformProofs.v proves that what they accept satisfies env_ok /
   request_env / actions_conform / store_types_known, which closes the chain: C15_end_to_end has only hypotheses a caller establishes by
   RUNNING the validator (plus well-formedness of the schema and of the values). *)
From Coq Require Import ZArith List Bool.
Import ListNotations.
From Cedar Require Import Lang.Value Lang.Expr Impl.Eval Impl.TypeCheck Impl.ValidatePolicy Lang.TypeSound Proofs.TypeSoundLemmas Proofs.TypeSoundProofs
  Proofs.PolicySoundProofs Impl.Conform Proofs.ValueProofs Proofs.ConformProofs Generated.Tables Proofs.ExtSigTable.

(* if the strict type checker accepts e with type t, then in every conforming environment evaluation yields a value of type t (and
   the capabilities e establishes when true), or fails with one of the three allowed error kinds: never a type error, an unknown
   function / arity error, or a missing attribute or tag.
   schema_wf / tenv_wf: record types in the schema have distinct keys, the empty name is not an entity type.
   agraph_wf: the action graph of the resolved schema lists exactly the declared actions, and `Action` is not also an entity type name.
   action_declared: the request environment's action is a declared action (Go enumerates the environments from the schema's actions).
   keys_small: attribute names shorter than 10^39 bytes (an artifact of the model's capability keys, see TypeSoundProofs.v).
   env_ok, actions_conform, store_types_known: the request and the store CONFORM to the schema, as Validator.Request / Validator.Entity
   decide it (entities of declared types: parents, attributes, tags; enumerated entities: bare; action entities: parents = the closure
   of their declared groups; no entity of an unknown type). *)
Theorem C15_strict_sound : forall sch tv e, schema_wf sch -> tenv_wf sch tv -> agraph_wf sch -> action_declared sch tv -> keys_small e = true ->
  forall caps t caps', typeof true sch tv e caps = TOk t caps' ->
  forall en, env_ok sch tv en -> actions_conform sch (e_store en) -> store_types_known sch (e_store en) -> caps_hold en caps ->
    match eval en e with
    | Ok v => vtyped v t /\ (v = VBool true -> caps_hold en caps')
    | Err k => allowed_error k = true
    end.
Proof. exact typeof_sound_strict. Qed.

(* the property itself: if Validator.Policy accepts p (strict mode), then for every request environment of the schema (request_env: the
   action is declared and applies to the principal and resource types, the context has the declared type - what Validator.Request checks)
   and every conforming request and store, evaluating the policy as the authorizer does never fails with a type, arity, unknown-function
   or missing attribute / tag error, and yields a Boolean *)
Theorem C15_policy_sound : forall sch acts p,
  schema_wf sch -> agraph_wf sch -> acts_wf sch acts -> policy_keys_small p = true ->
  validate_policy true sch acts p = true ->
  forall en tv, request_env sch acts tv -> env_ok sch tv en -> actions_conform sch (e_store en) -> store_types_known sch (e_store en) ->
    match eval en (policy_to_expr p) with
    | Ok v => exists b, v = VBool b
    | Err k => allowed_error k = true
    end.
Proof. exact validate_policy_sound. Qed.

(* without any hypothesis on the store beyond conformance, for expressions that do not use `in` *)
Theorem C15_strict_sound_in_free : forall sch tv e, schema_wf sch -> tenv_wf sch tv -> in_free_small e = true -> sound_at sch true tv e.
Proof. exact typeof_sound_strict_in_free. Qed.

(* the checker only produces well-formed types *)
Theorem C15_types_well_formed : forall sch tv e, schema_wf sch -> tenv_wf sch tv -> keys_small e = true ->
  forall caps t caps', typeof true sch tv e caps = TOk t caps' -> WT t.
Proof. exact typeof_strict_WT. Qed.

(* permissive mode: an accepted expression that fails with a type error on a conforming environment (F29) *)
Theorem C15_permissive_refuted : exists sch tv e t caps en,
  typeof false sch tv e [] = TOk t caps /\ env_ok sch tv en /\ (exists k, eval en e = Err k /\ allowed_error k = false).
Proof. exact permissive_unsound. Qed.

(* conformance of action entities cannot be dropped: a store that Validator.Entity rejects (an action with a parent its schema does
   not declare) makes an accepted expression fail with a type error *)
Definition C15_strict_needs_action_conformance := strict_needs_action_conformance.

(* ---- the conformance checkers (Impl/Conform.v) ---- *)
(* a value the checker accepts at a declared type inhabits that type - and conversely: check_value decides vtyped exactly.
   decl_ty: the types a resolved schema can declare (one entity name, a known extension name); vnodup: records have distinct keys (every Go
   record does); WT: record TYPES have distinct keys *)
Theorem C15_check_value_exact : forall t v, decl_ty t -> WT t -> vnodup v -> (check_value t v = true <-> vtyped v t).
Proof. exact check_value_iff. Qed.

(* a store Validator.Entities accepts conforms: every entity of a declared type has declared, well-typed attributes and tags and parents
   of declared parent types; enumerated entities are bare; action entities are declared and their parents lie in the closure of their
   declared groups; no entity of an unknown type *)
Theorem C15_check_entities_sound : forall sch enums, schema_decl sch -> agraph_wf sch -> enums_ok sch enums ->
  forall st, store_vals_ok st -> check_entities sch enums st = true ->
  store_ok sch st /\ actions_conform sch st /\ store_types_known sch st.
Proof. exact check_entities_sound. Qed.

(* action entities exactly: declared, bare, and their parents are EXACTLY the transitive closure of their declared groups (the walk that
   computes the closure runs on fuel in the model; the fuel always suffices: action_closure_exact0) *)
Theorem C15_check_action_entity_exact : forall sch, agraph_wf sch -> forall u e, check_action_entity sch (u, e) = true <->
  (umem u (ts_actions sch) = true /\ e_attrs e = [] /\ e_tags e = [] /\ (forall p, In p (e_parents e) <-> aclosure sch u p)).
Proof. exact check_action_entity_exact. Qed.

(* a request Validator.Request accepts lives in a request environment of the schema and is typed by it *)
Theorem C15_check_request_sound : forall sch acts, acts_decl acts -> forall p a r ctx, vnodup (VRecord ctx) ->
  check_request sch acts p a r ctx = true ->
  let tv := {| tv_principal := fst p; tv_action := a; tv_resource := fst r; tv_context := ctx_of acts a |} in
  request_env sch acts tv /\ vtyped (VEntity (fst p) (snd p)) (CEnt [fst p]) /\ vtyped (VEntity (fst r) (snd r)) (CEnt [fst r]) /\
  vtyped (VRecord ctx) (CRec (tv_context tv)).
Proof. exact check_request_sound. Qed.

(* END TO END: the policy is accepted by Validator.Policy (strict), the store by Validator.Entities, the request by Validator.Request
   => evaluating the policy as the authorizer does yields a Boolean or one of the three allowed errors.
   Remaining hypotheses: the schema is well formed (schema_wf, agraph_wf, acts_wf, schema_decl, acts_decl, enums_ok: facts about the RESOLVED
   schema, which resolution establishes), attribute names are shorter than 10^39 bytes (model artifact), values are canonical (wf_value:
   every Go value is). *)
Theorem C15_end_to_end : forall sch enums acts pol st p a r ctx,
  schema_wf sch -> agraph_wf sch -> acts_wf sch acts -> schema_decl sch -> acts_decl acts -> enums_ok sch enums ->
  policy_keys_small pol = true -> store_vals_wf st -> wf_value (VRecord ctx) = true ->
  validate_policy true sch acts pol = true -> check_entities sch enums st = true -> check_request sch acts p a r ctx = true ->
  match eval {| e_store := st; e_principal := VEntity (fst p) (snd p); e_action := VEntity (fst a) (snd a);
                e_resource := VEntity (fst r) (snd r); e_context := VRecord ctx |} (policy_to_expr pol) with
  | Ok v => exists b, v = VBool b
  | Err k => allowed_error k = true
  end.
Proof. exact validated_and_conforming_never_type_errors_wf. Qed.

(* the hypotheses are satisfiable together: a concrete schema, store and request (Proofs/ConformProofs.v, Part 5) *)
Definition C15_end_to_end_nonvacuous := ex_never_type_errors.


(* TRANSLATED TABLE: the signatures the soundness theorems are about are the ones the code declares.  Generated/Tables.tc_ext_table is
   read off x/exp/schema/validate/ext_funcs.go by the translator on every run; for EVERY function name the model's ext_sig answers what
   a lookup in that table answers, and the typechecker and the evaluator (internal/extensions) declare the same functions with the
   same arities (Proofs/ExtSigTable.v). *)
Theorem C15_ext_signatures_are_the_codes : forall name, ext_sig name = table_sig tc_ext_table name.
Proof. exact ext_sig_is_generated_table. Qed.

Theorem C15_ext_functions_same_as_evaluator :
  map (fun e => (fst e, (Z.of_nat (List.length (snd (fst (snd e)))), negb (fst (fst (snd e)))))) tc_ext_table = ext_table.
Proof. exact typechecker_and_evaluator_agree_on_functions. Qed.

Print Assumptions C15_ext_signatures_are_the_codes.
Print Assumptions C15_ext_functions_same_as_evaluator.
Print Assumptions C15_check_value_exact.
Print Assumptions C15_check_entities_sound.
Print Assumptions C15_check_action_entity_exact.
Print Assumptions C15_check_request_sound.
Print Assumptions C15_end_to_end.
Print Assumptions C15_end_to_end_nonvacuous.
Print Assumptions C15_policy_sound.
Print Assumptions C15_strict_sound.
Print Assumptions C15_strict_sound_in_free.
Print Assumptions C15_types_well_formed.
Print Assumptions C15_permissive_refuted.
Print Assumptions C15_strict_needs_action_conformance.
