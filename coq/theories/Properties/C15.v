(* C15 — validated policies cannot fail with type errors.
   Model: Impl/TypeCheck.v `typeof strict sch env e caps` IS the expression type checker of x/exp/schema/validate (typechecker.go,
   cedar_type.go, capability.go, ext_funcs.go), tied to the code by the `typeof` correspondence on condition bodies and their
   sub-expressions (hook VerifTypeOf); Impl/Eval.v is the evaluator (C01).  Vocabulary: Lang/TypeSound.v (vtyped, env_ok = the
   request and every entity of the store conform to the schema, cap_holds, allowed_error = entity missing from the store / overflow /
   extension run-time error).  Proofs: Proofs/TypeSoundLemmas.v, Proofs/TypeSoundProofs.v.

   STRICT MODE: proved for the whole expression language, every operator, capabilities included.
   PERMISSIVE MODE: the statement is FALSE of the code as it stands (C15_permissive_refuted = known finding F29; the behaviour is pinned
   by the repository's corpus tests).
   POLICY LEVEL: Impl/ValidatePolicy.v models Validator.Policy (scope validation, action application, enumeration and filtering of the
   request environments, every condition in every environment), tied by the `vverdict` correspondence; C15_policy_sound: an accepted
   policy, evaluated as the authorizer evaluates it (scope tests && conditions), yields a Boolean or an allowed error for every conforming
   request and store.  Proofs/PolicySoundProofs.v.
   Not covered by a theorem (decided by the direct oracle of the check): the conformance checkers themselves (entity.go, request.go,
   check_value.go: env_ok / request_env / actions_conform are their specification). *)
From Coq Require Import ZArith List Bool.
Import ListNotations.
From Cedar Require Import Lang.Value Lang.Expr Impl.Eval Impl.TypeCheck Impl.ValidatePolicy Lang.TypeSound Proofs.TypeSoundLemmas Proofs.TypeSoundProofs
  Proofs.PolicySoundProofs.

(* if the strict type checker accepts e with type t, then in every conforming environment evaluation yields a value of type t (and
   the capabilities e establishes when true), or fails with one of the three allowed error kinds: never a type error, an unknown
   function / arity error, or a missing attribute or tag.
   schema_wf / tenv_wf: record types in the schema have distinct keys, the empty name is not an entity type.
   agraph_wf: the action graph of the resolved schema lists exactly the declared actions, and `Action` is not also an entity type name.
   action_declared: the request environment's action is a declared action (Go enumerates the environments from the schema's actions).
   keys_small: attribute names shorter than 10^39 bytes (an artifact of the model's capability keys, see TypeSoundProofs.v).
   env_ok, actions_conform, store_types_known: the request and the store CONFORM to the schema, as Validator.Request / Validator.Entity
   decide it (entities of declared types: parents, attributes, tags; enumerated entities: bare; action entities: parents = the closure
   of their declared groups; no entity of an unknown type). *)
Theorem C15_strict_sound : forall sch tv e, schema_wf sch -> tenv_wf sch tv -> agraph_wf sch -> action_declared sch tv -> keys_small e = true ->
  forall caps t caps', typeof true sch tv e caps = TOk t caps' ->
  forall en, env_ok sch tv en -> actions_conform sch (e_store en) -> store_types_known sch (e_store en) -> caps_hold en caps ->
    match eval en e with
    | Ok v => vtyped v t /\ (v = VBool true -> caps_hold en caps')
    | Err k => allowed_error k = true
    end.
Proof. exact typeof_sound_strict. Qed.

(* the property itself: if Validator.Policy accepts p (strict mode), then for every request environment of the schema (request_env: the
   action is declared and applies to the principal and resource types, the context has the declared type - what Validator.Request checks)
   and every conforming request and store, evaluating the policy as the authorizer does never fails with a type, arity, unknown-function
   or missing attribute / tag error, and yields a Boolean *)
Theorem C15_policy_sound : forall sch acts p,
  schema_wf sch -> agraph_wf sch -> acts_wf sch acts -> policy_keys_small p = true ->
  validate_policy true sch acts p = true ->
  forall en tv, request_env sch acts tv -> env_ok sch tv en -> actions_conform sch (e_store en) -> store_types_known sch (e_store en) ->
    match eval en (policy_to_expr p) with
    | Ok v => exists b, v = VBool b
    | Err k => allowed_error k = true
    end.
Proof. exact validate_policy_sound. Qed.

(* without any hypothesis on the store beyond conformance, for expressions that do not use `in` *)
Theorem C15_strict_sound_in_free : forall sch tv e, schema_wf sch -> tenv_wf sch tv -> in_free_small e = true -> sound_at sch true tv e.
Proof. exact typeof_sound_strict_in_free. Qed.

(* the checker only produces well-formed types *)
Theorem C15_types_well_formed : forall sch tv e, schema_wf sch -> tenv_wf sch tv -> keys_small e = true ->
  forall caps t caps', typeof true sch tv e caps = TOk t caps' -> WT t.
Proof. exact typeof_strict_WT. Qed.

(* permissive mode: an accepted expression that fails with a type error on a conforming environment (F29) *)
Theorem C15_permissive_refuted : exists sch tv e t caps en,
  typeof false sch tv e [] = TOk t caps /\ env_ok sch tv en /\ (exists k, eval en e = Err k /\ allowed_error k = false).
Proof. exact permissive_unsound. Qed.

(* conformance of action entities cannot be dropped: a store that Validator.Entity rejects (an action with a parent its schema does
   not declare) makes an accepted expression fail with a type error *)
Definition C15_strict_needs_action_conformance := strict_needs_action_conformance.

Print Assumptions C15_policy_sound.
Print Assumptions C15_strict_sound.
Print Assumptions C15_strict_sound_in_free.
Print Assumptions C15_types_well_formed.
Print Assumptions C15_permissive_refuted.
Print Assumptions C15_strict_needs_action_conformance.
