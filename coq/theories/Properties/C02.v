(* C02 — Authorization decision: default deny, forbid overrides permit, errors skip.
   Statements only; proofs live in Proofs/AuthorizeProofs.v. *)
From Coq Require Import List Bool Permutation.
Import ListNotations.
From Cedar Require Import Impl.Authorize Proofs.AuthorizeProofs.

Section C02.
  Variable P : Type.                  (* (policy id, policy) as yielded by any PolicyIterator *)
  Variable eff : P -> effect.
  Variable ev : P -> outcome.         (* evaluation of the policy under the fixed store and request *)

  Theorem C02_decision : forall ps,
    dec (authorize P eff ev ps) = Allow <->
    (exists p, In p ps /\ eff p = Permit /\ ev p = OTrue) /\
    ~ (exists p, In p ps /\ eff p = Forbid /\ ev p = OTrue).
  Proof. exact (decision_spec P eff ev). Qed.

  Theorem C02_reasons : forall ps,
    reasons (authorize P eff ev ps) =
      if existsb (sat_forbid P eff ev) ps then filter (sat_forbid P eff ev) ps
      else filter (sat_permit P eff ev) ps.
  Proof. exact (reasons_spec P eff ev). Qed.

  Theorem C02_errors : forall ps, errs (authorize P eff ev ps) = filter (is_err P ev) ps.
  Proof. exact (errors_spec P eff ev). Qed.

  Theorem C02_order_irrelevant : forall ps1 ps2, Permutation ps1 ps2 ->
    dec (authorize P eff ev ps1) = dec (authorize P eff ev ps2) /\
    Permutation (reasons (authorize P eff ev ps1)) (reasons (authorize P eff ev ps2)) /\
    Permutation (errs (authorize P eff ev ps1)) (errs (authorize P eff ev ps2)).
  Proof. exact (authorize_order_irrelevant P eff ev). Qed.
End C02.

(* non-vacuity: a multiset with a satisfied permit, an erroring forbid and an unsatisfied forbid is allowed *)
Example C02_example :
  let ps := [(0, Permit, OTrue); (1, Forbid, OErr); (2, Forbid, OFalse)] in
  let r := authorize _ (fun p => snd (fst p)) (fun p => snd p) ps in
  dec r = Allow /\ map (fun p => fst (fst p)) (reasons r) = [0] /\ map (fun p => fst (fst p)) (errs r) = [1].
Proof. vm_compute. auto. Qed.

Print Assumptions C02_decision.
Print Assumptions C02_reasons.
Print Assumptions C02_errors.
Print Assumptions C02_order_irrelevant.
