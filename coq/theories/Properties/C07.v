(* C07 — the Cedar text parser builds exactly the tree the grammar prescribes.
   Model: Impl/Tokenizer.v + Impl/Parser.v (cedar_tokenize.go, cedar_unmarshal.go; tied to the code by the `parse` correspondence on
   accepted AND rejected texts).  The rendering side is the grammar's own unparse, Impl/Printer.v with the oracle [extra] that adds
   redundant parentheses around ANY sub-expressions: extra = (fun _ => true) is the fully parenthesised rendering, (fun _ => false) the
   minimal one that the documented precedence and associativity require, and every mixture in between is covered by the same theorem.
   Layout (blanks, newlines, comments) is removed by the tokenizer; that the token list does not depend on how the text is delivered,
   and that token texts and positions are exact, is C18.
   Proofs: Proofs/ParserRoundTrip.v (with QuoteProofs.v for string / pattern literals and escapes, ParserFuel.v); Proofs/LexRender.v for the
   step from BYTES to tokens: C07_text_tree states the property on source text (bytes), for every placement of redundant parentheses and
   every white-space separator. *)
From Coq Require Import ZArith List Bool.
Import ListNotations.
From Cedar Require Import Lang.Value Impl.Like Lang.Expr Impl.Scanner Impl.Tokenizer Lang.Cursor Impl.Quote Impl.Parser Impl.Printer Lang.RoundTrip
  Proofs.QuoteProofs Proofs.ParserRoundTrip Proofs.DecoderTotal Proofs.LexRender.
Local Open Scope Z_scope.

Section C07.
  Variables (is_printable is_gext : Z -> bool).          (* the escaper's Unicode tables: any *)
  Variable set_order : list value -> list nat.            (* the order in which a set value lists its members: any *)
  Variable print_ip : bool -> Z -> Z -> str.              (* the ipaddr printer: any printer of plain ASCII *)
  Variable extra : expr -> bool.                          (* where redundant parentheses are written: any *)
  Hypothesis print_ip_plain : forall v6 a p, Forall (fun c => 32 <= c < 127 /\ c <> 34 /\ c <> 92) (print_ip v6 a p).

  (* expressions: every node kind, every parent / child pairing in both operand positions, negative literals and negation, has / like /
     is..in, attribute / method / extension-call forms, string escapes: parsing the tokens of the rendering yields that tree
     (set / record / extension LITERAL VALUES, which the syntax cannot write, as the constructor expressions that denote them) *)
  Theorem C07_expr_tree : forall e rest,
    expr_ok set_order e = true -> rest <> [] -> stop_tok (peek rest) = true ->
    exists f0, forall f, (f0 <= f)%nat ->
      p_expression f (toks_of (expr_items is_printable is_gext set_order print_ip extra e) ++ rest) = POk (norm set_order print_ip e) rest.
  Proof. exact (parse_print_expr is_printable is_gext set_order print_ip extra print_ip_plain). Qed.

  (* policies: effect, annotations, the three scope clauses, condition kinds and order *)
  Theorem C07_policy_tree : forall annots p rest,
    policy_ok set_order annots p = true -> rest <> [] ->
    exists f0, forall f, (f0 <= f)%nat ->
      p_policy f (toks_of (policy_items is_printable is_gext set_order print_ip extra annots p) ++ rest)
      = POk {| pp_annots := annots; pp_pos := (0, 0, 0); pp_policy := norm_policy set_order print_ip p |} rest.
  Proof. exact (parse_print_policy is_printable is_gext set_order print_ip extra print_ip_plain). Qed.

  (* string and pattern literals: what the escaper writes, the unquoter reads back, for every choice of escapes the tables make *)
  Theorem C07_string_literal : forall s, nonneg s -> Base.Utf8Enc.valid_utf8 s = true ->
    string_value (quote_string is_printable is_gext s) = Some s.
  Proof. exact (string_value_quote is_printable is_gext). Qed.

  (* source TEXT: the bytes of any rendering of a policy list - minimal or with redundant parentheses anywhere, policies separated by any
     white space - tokenize and parse to exactly those policies (precedence, associativity, unary chains, `has` paths, `is .. in`,
     method calls, literals, annotations, scopes, conditions), in order *)
  Theorem C07_text_tree : forall sep ps, all_ws sep ->
    Forall (fun ap => policy_ok set_order (fst ap) (snd ap) = true) ps ->
    exists f0, forall f, (f0 <= f)%nat -> exists ts,
      spec_tokenize f (render (doc_items is_printable is_gext set_order print_ip extra sep ps)) = Some (Some ts) /\
      exists res last, p_policies f ts [] = POk res [last] /\ t_type last = TEOF /\
        map (fun pp => (pp_annots pp, pp_policy pp)) res = map (fun ap => (fst ap, norm_policy set_order print_ip (snd ap))) ps.
  Proof. exact (text_roundtrip_document_gen is_printable is_gext set_order print_ip extra print_ip_plain). Qed.

  (* the tokenizer reads the printer's tokens off the rendered bytes of an expression *)
  Theorem C07_expr_lexes : forall e, expr_ok set_order e = true ->
    exists f0, forall f, (f0 <= f)%nat -> exists ts,
      spec_tokenize f (render (expr_items is_printable is_gext set_order print_ip extra e)) = Some (Some ts) /\
      map strip ts = toks (expr_items is_printable is_gext set_order print_ip extra e) ++ [(TEOF, [])].
  Proof. exact (lex_render_expr is_printable is_gext set_order print_ip extra print_ip_plain). Qed.
End C07.

(* the parser terminates on every token list the tokenizer can produce (never loops on malformed input) *)
Theorem C07_parser_total : forall ts, eof_terminated ts -> forall f, (12 * length ts + 100 <= f)%nat -> p_policies f ts [] <> PFuel.
Proof. exact p_policies_total. Qed.

Print Assumptions C07_expr_tree.
Print Assumptions C07_policy_tree.
Print Assumptions C07_text_tree.
Print Assumptions C07_expr_lexes.
Print Assumptions C07_string_literal.
Print Assumptions C07_parser_total.
