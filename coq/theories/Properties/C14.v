(* C14 — results are deterministic functions of their inputs: in the model every Go map is a list whose order
   is an arbitrary schedule; determinism = invariance under permutation.  Proofs: Proofs/DeterminismProofs.v. *)
From Coq Require Import List Bool Permutation.
From Cedar Require Import Lang.Value Lang.Expr Impl.Authorize Impl.Eval Proofs.DeterminismProofs.

(* the entity map in any insertion / iteration order, every parent set in any order *)
Theorem C14_store_schedule : forall s1 s2, NoDup (map fst s1) -> Permutation s1 s2 -> store_equiv s1 s2.
Proof. exact perm_store_equiv. Qed.

(* evaluation: the whole result — value, or WHICH error surfaces — for every expression *)
Theorem C14_eval_deterministic : forall en1 en2 e, env_equiv en1 en2 -> eval en1 e = eval en2 e.
Proof. exact eval_store_invariant. Qed.

(* record literals: the order of the fields is irrelevant (the evaluator visits them in key order) *)
Theorem C14_record_fields : forall (kvs1 kvs2 : list (str * expr)), NoDup (map fst kvs1) -> Permutation kvs1 kvs2 ->
  forall en, eval en (ERecord kvs1) = eval en (ERecord kvs2).
Proof. exact record_fields_order_irrelevant. Qed.

(* authorization: store schedule and policy schedule together *)
Theorem C14_authorize_deterministic : forall en1 en2 (ps1 ps2 : list (str * policy)),
  env_equiv en1 en2 -> Permutation ps1 ps2 ->
  let r1 := authorize _ policy_eff (policy_ev en1) ps1 in
  let r2 := authorize _ policy_eff (policy_ev en2) ps2 in
  dec r1 = dec r2 /\ Permutation (reasons r1) (reasons r2) /\ Permutation (errs r1) (errs r2).
Proof. exact authorize_deterministic. Qed.

Print Assumptions C14_store_schedule.
Print Assumptions C14_eval_deterministic.
Print Assumptions C14_record_fields.
Print Assumptions C14_authorize_deterministic.
