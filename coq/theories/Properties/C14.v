(* C14 — results are deterministic functions of their inputs: in the model every Go map is a list whose order
   is an arbitrary schedule; determinism = invariance under permutation.  Proofs: Proofs/DeterminismProofs.v, Proofs/EncoderOrder.v,
   Proofs/EntityJsonProofs.v. *)
From Coq Require Import List Bool Permutation.
From Cedar Require Import Base.Json Lang.Value Lang.Expr Impl.Authorize Impl.Eval Impl.PolicySet Impl.EntityJson Proofs.DeterminismProofs Proofs.PolicySetProofs
  Proofs.EncoderOrder Proofs.EntityJsonProofs.

(* the entity map in any insertion / iteration order, every parent set in any order *)
Theorem C14_store_schedule : forall s1 s2, NoDup (map fst s1) -> Permutation s1 s2 -> store_equiv s1 s2.
Proof. exact perm_store_equiv. Qed.

(* evaluation: the whole result — value, or WHICH error surfaces — for every expression *)
Theorem C14_eval_deterministic : forall en1 en2 e, env_equiv en1 en2 -> eval en1 e = eval en2 e.
Proof. exact eval_store_invariant. Qed.

(* record literals: the order of the fields is irrelevant (the evaluator visits them in key order) *)
Theorem C14_record_fields : forall (kvs1 kvs2 : list (str * expr)), NoDup (map fst kvs1) -> Permutation kvs1 kvs2 ->
  forall en, eval en (ERecord kvs1) = eval en (ERecord kvs2).
Proof. exact record_fields_order_irrelevant. Qed.

(* authorization: store schedule and policy schedule together *)
Theorem C14_authorize_deterministic : forall en1 en2 (ps1 ps2 : list (str * policy)),
  env_equiv en1 en2 -> Permutation ps1 ps2 ->
  let r1 := authorize _ policy_eff (policy_ev en1) ps1 in
  let r2 := authorize _ policy_eff (policy_ev en2) ps2 in
  dec r1 = dec r2 /\ Permutation (reasons r1) (reasons r2) /\ Permutation (errs r1) (errs r2).
Proof. exact authorize_deterministic. Qed.

(* ENCODERS.  What is written does not depend on the traversal order of a map-backed container: a policy set lists its policies in id order
   (MarshalCedar, MarshalJSON, All) whatever order the map yields them in; an entity map document is the same for every order of the map
   and of every parent set.  (Values: a set is written in the slot order of its table, a function of the member hashes - C11; the order can
   differ between two equal sets built differently: known finding F16.  Schemas: every map of the schema AST is a key-sorted list in the
   models of C17, so the encoders are functions of the map's contents by construction; the check interleaves and repeats the real encoders.) *)
Theorem C14_policy_set_listing_order_independent : forall s1 s2 : pset, uniq s1 -> Permutation s1 s2 -> sort_by_id s1 = sort_by_id s2.
Proof. exact sort_by_id_perm_eq. Qed.
Theorem C14_entity_map_document_order_independent : forall print_ip ord (ukey : uid -> str), (forall a b, ukey a = ukey b -> a = b) ->
  forall m1 m2, NoDup (map fst m1) -> Permutation m1 m2 -> enc_entity_map print_ip ord ukey m1 = enc_entity_map print_ip ord ukey m2.
Proof. exact enc_entity_map_perm. Qed.

Print Assumptions C14_policy_set_listing_order_independent.
Print Assumptions C14_entity_map_document_order_independent.
Print Assumptions C14_store_schedule.
Print Assumptions C14_eval_deterministic.
Print Assumptions C14_record_fields.
Print Assumptions C14_authorize_deterministic.
