(* C18 — streaming decode is chunking-invariant and source positions are exact.
   Model: Impl/Scanner.v (Go's buffered rune reader over a scripted io.Reader: any chunk sizes, zero-length reads, data together
   with EOF, a failing step), Impl/Tokenizer.v (nextToken and the scan* helpers), specification: Lang/Cursor.v (the same
   tokenizer over the whole byte string, no buffer, no reader) and position_of (line / column by counting from the start).
   The Decoder tokenizes the whole reader before parsing (internal/parser/cedar_unmarshal.go: Decoder.decode), and
   Tokenize(b) is TokenizeReader over a one-chunk reader, so stream-vs-slice equality of policies and errors is equality of the
   token lists (or of erroring) below; a policy's position is its first token's (offset, line, column).
   Proofs: Proofs/ScannerProofs.v, TokenizerParam.v, CursorProofs.v, ScannerFailure.v, C18Proofs.v. *)
From Coq Require Import ZArith List Bool.
From Cedar Require Import Base.Utf8 Lang.Value Impl.Scanner Impl.Tokenizer Lang.Cursor.
From Cedar Require Import Proofs.ScannerProofs Proofs.CursorProofs Proofs.ScannerFailure Proofs.C18Proofs.
Local Open Scope Z_scope.

(* every delivery of the same bytes - any two read schedules, any two buffer sizes >= 4 (1024 in the code), data with or without
   EOF - gives the same token list or the same failure *)
Theorem C18_chunking_invariant : forall f1 f2 b1 b2 r1 r2 res1 res2,
  (4 <= b1)%nat -> (4 <= b2)%nat -> no_fail r1 -> no_fail r2 -> r_rest r1 = r_rest r2 ->
  tokenize f1 b1 r1 = Some res1 -> tokenize f2 b2 r2 = Some res2 -> res1 = res2.
Proof. exact chunking_invariant. Qed.

(* ... namely the specification tokenizer's result on the whole byte string *)
Theorem C18_stream_is_spec : forall fuel b r res, (4 <= b)%nat -> no_fail r ->
  tokenize fuel b r = Some res -> spec_tokenize fuel (r_rest r) = Some res.
Proof. exact tokenize_refines_spec. Qed.

(* the scanner never loops forever: fuel above the document length and the schedule length suffices, for EVERY reader
   (failing or not) and any bytes *)
Theorem C18_terminates : forall b r fuel,
  (4 <= b)%nat -> (length (r_rest r) < fuel)%nat -> (length (r_sched r) + 2 <= fuel)%nat -> tokenize fuel b r <> None.
Proof. exact tokenize_total_gen. Qed.

(* the text of every token is exactly the source bytes at its reported offset, on every schedule *)
Theorem C18_token_text_exact : forall fuel b r ts t, (4 <= b)%nat -> no_fail r ->
  tokenize fuel b r = Some (Some ts) -> In t ts ->
  0 <= t_off t /\ t_text t = firstn (length (t_text t)) (skipn (Z.to_nat (t_off t)) (r_rest r))
  /\ (Z.to_nat (t_off t) + length (t_text t) <= length (r_rest r))%nat.
Proof. exact tokenize_text_exact. Qed.

(* the reported line and column of every token are those of its first byte: 1 + newlines before it, 1 + characters since
   the last newline (position_of walks the source from the start) *)
Theorem C18_position_exact : forall fuel b r ts t, (4 <= b)%nat -> no_fail r ->
  tokenize fuel b r = Some (Some ts) -> In t ts -> t_type t <> TEOF ->
  (t_line t, t_col t) = position_of (r_rest r) (Z.to_nat (t_off t)).
Proof. exact tokenize_position_exact. Qed.

(* a reader that fails before it has delivered the whole document never yields a (truncated) token list: with enough fuel the
   result is the error *)
Theorem C18_reader_failure_is_error : forall b r fuel,
  (4 <= b)%nat -> fails_early r -> Forall (fun x => 0 <= x < 256) (r_rest r) ->
  (length (r_rest r) < fuel)%nat -> (length (r_sched r) + 2 <= fuel)%nat -> tokenize fuel b r = Some None.
Proof. exact reader_failure_is_error_total_bytes. Qed.

(* the byte-range hypothesis is needed: the model's bytes are arbitrary integers and -1 is the scanner's EOF rune *)
Theorem C18_reader_failure_needs_bytes_refuted :
  ~ (forall fuel b r ts, (4 <= b)%nat -> fails_early r -> tokenize fuel b r <> Some (Some ts)).
Proof. exact reader_failure_is_error_as_stated_false. Qed.

(* tokens are reported in source order without overlap and the list ends with the single EOF token *)
Theorem C18_tokens_ordered : forall fuel src ts, spec_tokenize fuel src = Some (Some ts) -> tok_ordered ts.
Proof. exact spec_tokens_ordered. Qed.

(* the hypotheses are satisfiable: a 3-line document with multi-byte text, one byte at a time with zero-length reads in between
   into a 4-byte buffer, against one chunk into a 1024-byte buffer *)
Theorem C18_nonvacuous : no_fail ex_r1 /\ no_fail ex_r2 /\
  (exists ts, tokenize 100 1024 ex_r1 = Some (Some ts) /\ tokenize 100 4 ex_r2 = Some (Some ts) /\ length ts = 6%nat).
Proof. exact ex_nonvacuous. Qed.

Print Assumptions C18_chunking_invariant.
Print Assumptions C18_stream_is_spec.
Print Assumptions C18_terminates.
Print Assumptions C18_token_text_exact.
Print Assumptions C18_position_exact.
Print Assumptions C18_reader_failure_is_error.
Print Assumptions C18_reader_failure_needs_bytes_refuted.
Print Assumptions C18_tokens_ordered.
Print Assumptions C18_nonvacuous.
