(* C04 — constant folding never changes a policy's meaning.  Proofs: Proofs/FoldProofs.v.
   The fold table is regenerated from internal/eval/fold.go on every run (Generated/Tables.v). *)
From Coq Require Import List Bool.
From Cedar Require Import Lang.Value Lang.Expr Impl.Eval Impl.Fold Generated.Tables Proofs.FoldProofs.

(* side conditions on today's generated tables (vm_compute) *)
Theorem C04_toeval_table_ok : toeval_table_ok toeval_table = true.
Proof. exact toeval_table_generated_ok. Qed.
Theorem C04_fold_table_sound : fold_table_sound toeval_table fold_table = true.
Proof. exact fold_table_generated_sound. Qed.

(* for any table meeting the side condition: same value or same error, in every environment *)
Theorem C04_fold_preserves_eval : forall ftab,
  toeval_table_ok toeval_table = true -> fold_table_sound toeval_table ftab = true ->
  forall en e, eval en (fold ftab e) = eval en e.
Proof. exact fold_preserves_eval. Qed.

(* what the authorizer runs (fold, then lower scopes and conditions, then BoolEvaler) *)
Theorem C04_compiled_policy : forall en p,
  bool_eval en (policy_to_expr (fold_policy fold_table p)) = bool_eval en (policy_to_expr p).
Proof. exact fold_policy_generated_preserves_outcome. Qed.

Print Assumptions C04_toeval_table_ok.
Print Assumptions C04_fold_table_sound.
Print Assumptions C04_fold_preserves_eval.
Print Assumptions C04_compiled_policy.
