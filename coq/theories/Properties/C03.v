(* C03 — `in` is reflexive-transitive reachability over the parent links of present entities,
   on every store (cycles, self parents, absent parents, absent queried entities), and the search
   terminates within the fuel the evaluator gives it.  Proofs: Proofs/InSearchProofs.v. *)
From Coq Require Import List Bool.
Import ListNotations.
From Cedar Require Import Lang.Value Lang.Expr Impl.InSearch Impl.Eval Impl.Partial Proofs.InSearchProofs Proofs.ScopeProofs.

(* a in b *)
Theorem C03_in_one : forall (st : store) a b,
  exists r, in_one st a b = Some r /\ (r = true <-> reach_st st a b).
Proof. exact eval_in_one_correct. Qed.

(* a in [b1..bn] *)
Theorem C03_in_set : forall (st : store) a bs,
  exists r, in_set st a bs = Some r /\ (r = true <-> exists b, In b bs /\ reach_st st a b).
Proof. exact eval_in_set_correct. Qed.

(* the generic statement: any identifier type, any fuel >= 1 + number of present entities *)
Theorem C03_generic : forall (id : Type) (eqb : id -> id -> bool), (forall a b, eqb a b = true <-> a = b) ->
  forall (parents : id -> option (list id)) (keys : list id), (forall k ps, parents k = Some ps -> In k keys) ->
  forall fuel a b, (S (length keys) <= fuel)%nat ->
  exists r, entity_in_one id eqb parents fuel a b = Some r /\ (r = true <-> reach id parents a b).
Proof. exact in_one_correct. Qed.

(* the scope forms agree with the operator: the authorizer evaluates a scope through the expression scope_expr x s (compile.go scopeToNode:
   `x == E`, `x in E`, `x in [..]`, `x is T`, `x is T in E`) with the ordinary evaluator; the partial evaluator / batch authorizer decides
   scopes directly (partial.go partialScopeEval = Impl/Partial.v scope_holds).  The two agree on every store and every request entity ... *)
Theorem C03_scope_forms_agree : forall en x t i s,
  var_value en x = VEntity t i ->
  eval en (scope_expr x s) = Ok (VBool (scope_holds (e_store en) (t, i) s)).
Proof. exact scope_expr_eval. Qed.

(* ... and both are the reachability relation *)
Theorem C03_scope_forms_are_reachability : forall (st : store) a s,
  scope_holds st a s = true <->
  match s with
  | SAll => True
  | SEq u => a = u
  | SIn u => reach_st st a u
  | SInSet us => exists b, In b us /\ reach_st st a b
  | SIs ty => fst a = ty
  | SIsIn ty u => fst a = ty /\ reach_st st a u
  end.
Proof. exact scope_holds_spec. Qed.

Print Assumptions C03_scope_forms_agree.
Print Assumptions C03_scope_forms_are_reachability.
Print Assumptions C03_in_one.
Print Assumptions C03_in_set.
Print Assumptions C03_generic.
