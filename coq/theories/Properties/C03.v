(* C03 — `in` is reflexive-transitive reachability over the parent links of present entities,
   on every store (cycles, self parents, absent parents, absent queried entities), and the search
   terminates within the fuel the evaluator gives it.  Proofs: Proofs/InSearchProofs.v. *)
From Coq Require Import List Bool.
Import ListNotations.
From Cedar Require Import Lang.Value Lang.Expr Impl.InSearch Impl.Eval Proofs.InSearchProofs.

(* a in b *)
Theorem C03_in_one : forall (st : store) a b,
  exists r, in_one st a b = Some r /\ (r = true <-> reach_st st a b).
Proof. exact eval_in_one_correct. Qed.

(* a in [b1..bn] *)
Theorem C03_in_set : forall (st : store) a bs,
  exists r, in_set st a bs = Some r /\ (r = true <-> exists b, In b bs /\ reach_st st a b).
Proof. exact eval_in_set_correct. Qed.

(* the generic statement: any identifier type, any fuel >= 1 + number of present entities *)
Theorem C03_generic : forall (id : Type) (eqb : id -> id -> bool), (forall a b, eqb a b = true <-> a = b) ->
  forall (parents : id -> option (list id)) (keys : list id), (forall k ps, parents k = Some ps -> In k keys) ->
  forall fuel a b, (S (length keys) <= fuel)%nat ->
  exists r, entity_in_one id eqb parents fuel a b = Some r /\ (r = true <-> reach id parents a b).
Proof. exact in_one_correct. Qed.

Print Assumptions C03_in_one.
Print Assumptions C03_in_set.
Print Assumptions C03_generic.
