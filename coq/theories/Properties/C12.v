(* C12 — scalar and extension values have exact, canonical text forms.
   Proofs: Proofs/DecimalProofs.v, Proofs/DurationProofs.v, Proofs/DatetimeProofs.v, Proofs/IPProofs.v. *)
From Coq Require Import ZArith List Bool Lia.
Import ListNotations.
From Cedar Require Import Base.Int64 Base.Utf8Enc Lang.Value Impl.Text Impl.Decimal Impl.Duration Impl.Datetime Impl.IPAddr Impl.IPPrint Impl.Quote Impl.UidText
  Proofs.DecimalProofs Proofs.DurationProofs Proofs.DatetimeProofs Proofs.IPProofs Proofs.QuoteProofs Proofs.UidTextProofs.
Local Open Scope Z_scope.

(* ---- decimal ---- *)
Theorem C12_decimal_roundtrip : forall z, in64 z -> parse_decimal (print_decimal z) = Some z.
Proof. exact decimal_roundtrip. Qed.
Theorem C12_decimal_range : forall s z, parse_decimal s = Some z -> in64 z.
Proof. exact decimal_parse_in_range. Qed.
(* accepted syntax is exactly -?[0-9]+\.[0-9]{1,4} *)
Theorem C12_decimal_syntax : forall s z, parse_decimal s = Some z ->
   exists ip fp, s = ip ++ 46 :: fp /\ (1 <= length fp <= 4)%nat /\ Forall (fun c => is_digit c = true) fp /\
                 (match ip with 45 :: d => d <> [] /\ Forall (fun c => is_digit c = true) d
                              | d => d <> [] /\ Forall (fun c => is_digit c = true) d end).
Proof. exact decimal_parse_shape. Qed.
(* NewDecimal(i, exponent) is exact: the mathematical value or an error, never a wrapped result *)
Theorem C12_new_decimal_exact : forall i e z, in64 i -> new_decimal_exp i e = Some z ->
   -4 <= e <= 14 /\ z = i * 10 ^ (e + 4) /\ in64 z.
Proof. exact new_decimal_exact. Qed.
Theorem C12_new_decimal_complete : forall i e, in64 i -> -4 <= e <= 14 -> in64 (i * 10 ^ (e + 4)) ->
   new_decimal_exp i e = Some (i * 10 ^ (e + 4)).
Proof. exact new_decimal_complete. Qed.

(* ---- duration ---- *)
Theorem C12_duration_roundtrip : forall z, in64 z -> parse_duration (print_duration z) = Some z.
Proof. exact duration_roundtrip. Qed.
Theorem C12_duration_range : forall s z, parse_duration s = Some z -> in64 z.
Proof. exact duration_parse_in_range. Qed.
(* the parser returns the mathematical value of a well-formed text, or fails exactly when it does not fit *)
Theorem C12_duration_exact : forall neg d h m s ms,
  dur_ok d -> dur_ok h -> dur_ok m -> dur_ok s -> dur_ok ms -> dur_items d h m s ms <> [] ->
  parse_duration (dur_text neg d h m s ms) =
  if in64b (dur_total neg d h m s ms) then Some (dur_total neg d h m s ms) else None.
Proof. exact duration_parse_value. Qed.

(* ---- datetime (calendar: proleptic Gregorian, all days) ---- *)
Theorem C12_civil_valid : forall z, let '(y, m, d) := civil_from_days z in 1 <= m <= 12 /\ 1 <= d <= days_in_month y m.
Proof. exact civil_from_days_valid. Qed.
Theorem C12_civil_inverse : forall z, let '(y, m, d) := civil_from_days z in days_from_civil y m d = z.
Proof. exact civil_inverse. Qed.
Theorem C12_days_from_civil_inverse : forall y m d, 1 <= m <= 12 -> 1 <= d <= days_in_month y m ->
   civil_from_days (days_from_civil y m d) = (y, m, d).
Proof. exact days_from_civil_inverse. Qed.
Theorem C12_datetime_roundtrip : forall z, in_dt_range z = true -> parse_datetime (print_datetime z) = Some z.
Proof. exact datetime_roundtrip. Qed.
Theorem C12_datetime_range : forall s z, parse_datetime s = Some z -> in_dt_range z = true.
Proof. exact datetime_parse_in_range. Qed.

(* The full statement "forall z, in64 z -> parse_datetime (print_datetime z) = Some z" is REFUTED of the faithful
   model (and of the Go code: known finding F27): the first day of the int64 range prints but does not parse. *)
Theorem C12_datetime_roundtrip_full_refuted : exists z, in64 z /\ parse_datetime (print_datetime z) = None.
Proof. exists min64. split; [unfold in64, min64, max64, two63; lia | vm_compute; reflexivity]. Qed.

(* ipaddr: Impl/IPPrint.v print_ip (net/netip Addr.String / Prefix.String as types.IPAddr.String uses them) and Impl/IPAddr.v parse_ip
   (types.ParseIPAddr), both tied to the code by the scalar correspondences.  Every well-formed address and prefix prints to a string
   that parses back to it, EXCEPT the IPv4-mapped IPv6 addresses (known finding F30: they print as ::ffff:a.b.c.d, which the parser
   rejects); ip_ok is exactly the set that round-trips. *)
Theorem C12_ipaddr_roundtrip : forall v6 a p, ip_ok v6 a p = true -> parse_ip (print_ip v6 a p) = Some (v6, a, p).
Proof. exact parse_print_ip. Qed.
Theorem C12_ipaddr_roundtrip_exact : forall v6 a p, ip_wf v6 a p -> (parse_ip (print_ip v6 a p) = Some (v6, a, p) <-> ip_ok v6 a p = true).
Proof. exact ip_ok_exact. Qed.
Theorem C12_ipaddr_mapped_refuted : forall a p, a / 2 ^ 32 = 65535 -> parse_ip (print_ip true a p) = None.
Proof. exact mapped_never_roundtrips. Qed.
(* the printed form is plain ASCII without quotes or backslashes (what the policy printer relies on: C07 / C08) *)
Theorem C12_ipaddr_printed_plain : forall v6 a p, Forall (fun c => 32 <= c < 127 /\ c <> 34 /\ c <> 92) (print_ip v6 a p).
Proof. exact print_ip_plain_all. Qed.

(* ---- entity uids outside policies: Impl/UidText.v print_uid (EntityUID.String / MarshalCedar / MarshalBinary) and parse_uid
   (EntityUID.UnmarshalCedar / UnmarshalBinary, a parser of its own), tied by the uidparse correspondence.  The printed form reads back for
   every non-empty type that does not contain the three bytes colon colon double-quote and every id that is valid UTF-8 - for every Unicode
   table the escaper may use; the two conditions on the type cannot be dropped (UidTextProofs.v parse_uid_needs_hyp, parse_uid_empty_type) *)
Theorem C12_uid_text_roundtrip : forall is_printable is_gext (u : uid),
  fst u <> [] -> index_of uid_sep (fst u) = None -> nonneg (snd u) -> valid_utf8 (snd u) = true ->
  parse_uid (print_uid is_printable is_gext u) = Some u.
Proof. exact parse_print_uid. Qed.
(* exactly what the uid parser accepts *)
Theorem C12_uid_text_accepted : forall s t i, parse_uid s = Some (t, i) <->
  (t <> [] /\ index_of uid_sep t = None /\ exists q, s = t ++ [58; 58] ++ [34] ++ q ++ [34] /\ exists r, unquote q false = Some (i, r)).
Proof. exact parse_uid_iff. Qed.

Print Assumptions C12_uid_text_roundtrip.
Print Assumptions C12_uid_text_accepted.
Print Assumptions C12_ipaddr_roundtrip.
Print Assumptions C12_ipaddr_roundtrip_exact.
Print Assumptions C12_ipaddr_mapped_refuted.
Print Assumptions C12_ipaddr_printed_plain.
Print Assumptions C12_decimal_roundtrip.
Print Assumptions C12_decimal_range.
Print Assumptions C12_decimal_syntax.
Print Assumptions C12_new_decimal_exact.
Print Assumptions C12_new_decimal_complete.
Print Assumptions C12_duration_roundtrip.
Print Assumptions C12_duration_range.
Print Assumptions C12_duration_exact.
Print Assumptions C12_civil_valid.
Print Assumptions C12_civil_inverse.
Print Assumptions C12_days_from_civil_inverse.
Print Assumptions C12_datetime_roundtrip.
Print Assumptions C12_datetime_range.
Print Assumptions C12_datetime_roundtrip_full_refuted.
