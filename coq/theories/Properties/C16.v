(* C16 — schema resolution and validation terminate without crashing on every input.
   Model: Impl/SchemaResolve.v (resolved.Resolve: registration, shadowing check, Kahn cycle detection over common types, resolution of
   type references with the namespace rules, action-membership DFS; validate's isEntityDescendant).  Tied to the code by the
   `schemaresolve` correspondence (verdict and resolved types on parsed schemas).  In the model every loop is fuelled and an
   exhausted loop yields RFuel / VFuel / None; the theorems show those results never occur with the fuel the model hands out, for
   EVERY schema AST (no assumption on names).  Proofs: Proofs/SchemaResolveProofs.v.
   (While proving resolve_type_terminates for the first model, the proof needed a hypothesis on namespace names; the corresponding input
   made the real Resolve overflow the stack: finding F40, repaired in /repo, and the model now mirrors the repaired code.) *)
From Coq Require Import ZArith List Bool Relations String.
Import ListNotations.
From Cedar Require Import Lang.Value Impl.SchemaResolve Proofs.SchemaResolveProofs.

(* the cycle check is sound: when it passes, no common type depends on itself through the references resolution follows *)
Theorem C16_cycle_check_sound : forall d, cycle_free d = true -> forall n, In n (common_names d) -> ~ clos_trans _ (dep d) n n.
Proof. exact kahn_sound. Qed.

(* resolution of any type in any namespace terminates once the cycle check has passed *)
Theorem C16_resolve_type_terminates : forall d ns t, cycle_free d = true -> resolve_type (resolve_fuel d t) d ns t <> RFuel.
Proof. exact resolve_type_terminates. Qed.

(* the whole resolver returns a schema or an error on every schema AST *)
Theorem C16_resolve_terminates : forall s, resolve_schema s <> VFuel.
Proof. exact resolve_schema_terminates. Qed.

(* the validator's descendant search over entity-type parents terminates on every hierarchy (cycles, self loops) and is exact *)
Theorem C16_descendant_terminates : forall parents types child anc, (forall t, incl (parents t) types) -> In child types ->
  is_descendant (S (List.length types)) parents child anc [] <> None.
Proof. exact is_descendant_terminates. Qed.
Theorem C16_descendant_correct : forall parents anc fuel child b vis', is_descendant fuel parents child anc [] = Some (b, vis') ->
  (b = true <-> clos_trans _ (fun a p => In p (parents a)) child anc).
Proof. exact is_descendant_correct_gen. Qed.

(* the formerly diverging input: now rejected as a cycle *)
Theorem C16_colon_name_rejected : resolve_schema (ex_schema (s_of "a"%string) (s_of ":T"%string)) = VErr.
Proof. exact ex1_rejected. Qed.

Print Assumptions C16_cycle_check_sound.
Print Assumptions C16_resolve_type_terminates.
Print Assumptions C16_resolve_terminates.
Print Assumptions C16_descendant_terminates.
Print Assumptions C16_descendant_correct.
Print Assumptions C16_colon_name_rejected.
