(* C13 — value, entity, entity-map, request and diagnostic JSON round-trips without loss (on JSON trees; bytes <-> tree is encoding/json).
   Models: Impl/ValueJson.v (values, tied by jsonenc / jsondec), Impl/EntityJson.v (entities and entity maps, tied by ejsonenc / ejsondec),
   Impl/RequestJson.v (requests, decisions, diagnostics: tied by rjsonenc / rjsondec / djsonenc / djsondec / decjson).
   Impl/Coerce.v (schema-guided coercion of decoded values along their declared types, x/exp/types/json.go: tied by coerce / coercetags
   through the hook VerifCoerceValue).
   Proofs: Proofs/ValueJsonProofs.v, Proofs/EntityJsonProofs.v, Proofs/RequestJsonProofs.v, Proofs/CoerceProofs.v. *)
From Coq Require Import ZArith List Bool Permutation String.
Import ListNotations.
From Cedar Require Import Base.Json Lang.Value Lang.Expr Impl.IPAddr Impl.ValueJson Impl.PolicyJson Impl.EntityJson Proofs.ValueProofs Proofs.ValueJsonProofs
  Proofs.EntityJsonProofs Impl.RequestJson Proofs.RequestJsonProofs Base.Int64 Impl.Decimal Impl.Duration Impl.Datetime Impl.IPPrint Impl.TypeCheck Lang.TypeSound
  Impl.Coerce Proofs.IPProofs Proofs.CoerceProofs.

Section C13.
  Variable print_ip : bool -> Z -> Z -> str.           (* net/netip's printer: not modelled *)
  Variable ord : list json -> list json.               (* member order of an encoded set: any permutation (Go: slot order) *)
  Hypothesis ord_perm : forall l, Permutation (ord l) l.
  Variable ip_ok : bool -> Z -> Z -> bool.             (* the ip values whose printed form parses back (stdlib round trip, assumed) *)
  Hypothesis ip_roundtrip : forall v6 a p, ip_ok v6 a p = true -> parse_ip (print_ip v6 a p) = Some (v6, a, p).

  Theorem C13_value_json_roundtrip : forall v, json_safe ip_ok v = true ->
    exists v', decode_value (encode_value print_ip ord v) = Some v' /\ veq v v' = true /\ veq v' v = true.
  Proof. exact (value_json_roundtrip print_ip ord ord_perm ip_ok ip_roundtrip). Qed.

  Theorem C13_value_json_identity_order : forall v, json_safe ip_ok v = true -> (forall l, ord l = l) ->
    decode_value (encode_value print_ip ord v) = Some v.
  Proof. exact (value_json_roundtrip_eq print_ip ord ord_perm ip_ok ip_roundtrip). Qed.

  Theorem C13_type_tags_preserved : forall v v', json_safe ip_ok v = true ->
    decode_value (encode_value print_ip ord v) = Some v' -> type_tag v' = type_tag v.
  Proof. exact (decode_type_faithful print_ip ord ord_perm ip_ok ip_roundtrip). Qed.

  (* ---- entities and entity maps ---- *)
  Variable ukey : uid -> str.                          (* EntityUID.String(), the sort key of EntityMap.MarshalJSON: any injective key *)
  Hypothesis ukey_inj : forall a b, ukey a = ukey b -> a = b.

  (* decoding the encoding of an entity map yields the same entities - same uid, same parents (listed in sorted order), attributes and
     tags equal as values - in the sorted order of the encoding.  store_wf: distinct uids, duplicate-free parents, attrs and tags json_safe
     with plain keys (keys_plain: a limitation of the model's decoder domain, see EntityJsonProofs.v) *)
  Theorem C13_entity_map_roundtrip : forall m, store_wf ip_ok m ->
    exists m', dec_entity_map (enc_entity_map print_ip ord ukey m) = DOk m' /\ Forall2 entity_equiv (sort_entities ukey m) m'.
  Proof. exact (dec_enc_entity_map print_ip ord ord_perm ip_ok ip_roundtrip ukey). Qed.

  (* encoding is stable across a second round trip *)
  Theorem C13_entity_map_second_encoding : forall m m', store_wf ip_ok m -> (forall l, ord l = l) ->
    dec_entity_map (enc_entity_map print_ip ord ukey m) = DOk m' ->
    enc_entity_map print_ip ord ukey m' = enc_entity_map print_ip ord ukey m.
  Proof. exact (second_encoding_identical print_ip ord ord_perm ip_ok ip_roundtrip ukey). Qed.

  (* all accepted spellings of the uids and parents (implicit {type,id}, explicit {__entity:{..}}, any mixture) decode to the same store *)
  Theorem C13_entity_spellings : forall sp m, spelling print_ip ord sp -> store_wf ip_ok m ->
    dec_entity_map (enc_entity_map_sp print_ip ord ukey sp m) = dec_entity_map (enc_entity_map print_ip ord ukey m).
  Proof. exact (dec_entity_map_spelling print_ip ord ord_perm ip_ok ukey). Qed.

  (* the document does not depend on the order in which the map is traversed *)
  Theorem C13_entity_map_order_independent : forall m1 m2, NoDup (map fst m1) -> Permutation m1 m2 ->
    enc_entity_map print_ip ord ukey m1 = enc_entity_map print_ip ord ukey m2.
  Proof. exact (enc_entity_map_perm print_ip ord ukey ukey_inj). Qed.
End C13.

(* ---- requests, decisions and diagnostics (Impl/RequestJson.v) ---- *)
Section C13Request.
  Variable print_ip : bool -> Z -> Z -> str.
  Variable ord : list json -> list json.
  Hypothesis ord_perm : forall l, Permutation (ord l) l.
  Variable ip_ok : bool -> Z -> Z -> bool.
  Hypothesis ip_roundtrip : forall v6 a p, ip_ok v6 a p = true -> parse_ip (print_ip v6 a p) = Some (v6, a, p).

  (* request_wf: the context is json_safe with plain keys (no key that matches a member name of the request codec only up to case: the
     limit of the model's decoder domain); the three uids are ANY two strings *)
  Theorem C13_request_roundtrip : forall rq, request_wf ip_ok rq ->
    exists rq', dec_request (enc_request print_ip ord rq) = DOk rq' /\ request_equiv rq rq'.
  Proof. exact (dec_enc_request print_ip ord ord_perm ip_ok ip_roundtrip). Qed.

  Theorem C13_request_roundtrip_exact : forall rq, (forall l, ord l = l) -> request_wf ip_ok rq ->
    dec_request (enc_request print_ip ord rq) = DOk rq.
  Proof. exact (dec_enc_request_eq print_ip ord ord_perm ip_ok ip_roundtrip). Qed.

  Theorem C13_request_second_encoding : forall rq rq', (forall l, ord l = l) -> request_wf ip_ok rq ->
    dec_request (enc_request print_ip ord rq) = DOk rq' -> enc_request print_ip ord rq' = enc_request print_ip ord rq.
  Proof. exact (request_second_encoding print_ip ord ord_perm ip_ok ip_roundtrip). Qed.

  (* every accepted spelling of principal, action and resource - explicit __entity escape or implicit {type, id}, independently - decodes to
     the same request *)
  Theorem C13_request_spellings : forall sp1 sp2 sp3 rq, spelling print_ip ord sp1 -> spelling print_ip ord sp2 -> spelling print_ip ord sp3 ->
    request_wf ip_ok rq ->
    dec_request (JObj [(k "principal", sp1 (rq_principal rq)); (k "action", sp2 (rq_action rq)); (k "resource", sp3 (rq_resource rq));
                       (k "context", enc_record print_ip ord (rq_context rq))])
    = dec_request (enc_request print_ip ord rq).
  Proof. exact (request_spellings print_ip ord ord_perm ip_ok). Qed.
End C13Request.

(* diagnostics: exact round trip for every diagnostic whose positions are 64-bit ints - including the shapes in which the encoder omits
   an empty list - and exactly those; a decoded diagnostic never holds an out-of-range int *)
Theorem C13_diagnostic_roundtrip : forall d, diag_wf d -> dec_diagnostic (enc_diagnostic d) = DOk d.
Proof. exact dec_enc_diagnostic. Qed.
Theorem C13_diagnostic_roundtrip_iff : forall d, dec_diagnostic (enc_diagnostic d) = DOk d <-> diag_wf d.
Proof. exact dec_enc_diagnostic_iff. Qed.
Theorem C13_diagnostic_second_encoding : forall d d', diag_wf d -> dec_diagnostic (enc_diagnostic d) = DOk d' -> enc_diagnostic d' = enc_diagnostic d.
Proof. exact diagnostic_second_encoding. Qed.
Theorem C13_diagnostic_ints_in_range : forall j d, dec_diagnostic j = DOk d -> diag_wf d.
Proof. exact diag_int_range. Qed.
Theorem C13_decision_roundtrip : forall b, dec_decision (enc_decision b) = b.
Proof. exact dec_enc_decision. Qed.
Theorem C13_request_decoder_total : forall j, dec_request j <> DFuel.
Proof. exact dec_request_total. Qed.
Theorem C13_diagnostic_decoder_total : forall j, dec_diagnostic j <> DFuel.
Proof. exact dec_diagnostic_total. Qed.
(* with the concrete ipaddr printer (Impl/IPPrint.v), the exact set of round-tripping ip values (Proofs/IPProofs.v) and the identity member
   order: no hypothesis left *)
Theorem C13_request_roundtrip_concrete : forall rq, request_wf IPProofs.ip_ok rq -> dec_request (enc_request IPPrint.print_ip rq_id rq) = DOk rq.
Proof. exact rq_concrete_roundtrip. Qed.

(* ---- schema-guided coercion (Impl/Coerce.v): all accepted spellings of a datum decode to equal values ----
   `spells t v' v` (Proofs/CoerceProofs.v): v' is an accepted spelling of v at a position of declared type t - v itself (the explicit escapes
   decode to it without a schema), a record with string members "type" and "id" for an entity, a string that parses as a literal of the
   extension type for an extension value, member-wise for sets (any order, repeats allowed) and for the declared attributes of records. *)
Theorem C13_coercion_spelling : forall t v' v, vtyped v t -> wf_value v = true -> spells t v' v ->
  veq (coerce t v') v = true /\ veq v (coerce t v') = true.
Proof. exact coerce_spelling_both. Qed.
Theorem C13_coercion_spellings_agree : forall t v1 v2 v, vtyped v t -> wf_value v = true -> spells t v1 v -> spells t v2 v ->
  veq (coerce t v1) (coerce t v2) = true.
Proof. exact coerce_spellings_agree. Qed.
(* a conforming value is left exactly as it is; coercion keeps every value canonical *)
Theorem C13_coercion_identity_on_typed : forall t v, vtyped v t -> wf_value v = true -> coerce t v = v.
Proof. exact coerce_typed_eq. Qed.
Theorem C13_coercion_keeps_canonical : forall t v, wf_value v = true -> wf_value (coerce t v) = true.
Proof. exact coerce_wf. Qed.
(* the strings the encoders' printers write are accepted spellings (with the round-trip ranges of C12) *)
Theorem C13_printed_decimal_spells : forall z, in64 z -> spells (CExt (s_of "decimal")) (VString (print_decimal z)) (VDecimal z).
Proof. exact printed_forms_spell_decimal. Qed.
Theorem C13_printed_duration_spells : forall z, in64 z -> spells (CExt (s_of "duration")) (VString (print_duration z)) (VDuration z).
Proof. exact printed_forms_spell_duration. Qed.
Theorem C13_printed_datetime_spells : forall z, in_dt_range z = true -> spells (CExt (s_of "datetime")) (VString (print_datetime z)) (VDatetime z).
Proof. exact printed_forms_spell_datetime. Qed.
Theorem C13_printed_ip_spells : forall v6 a p, IPProofs.ip_ok v6 a p = true -> spells (CExt (s_of "ipaddr")) (VString (IPPrint.print_ip v6 a p)) (VIP v6 a p).
Proof. exact printed_forms_spell_ip. Qed.
(* whole entities: a conforming canonical entity is left alone; an entity whose attributes and tags are spellings of a conforming one is
   coerced to it (uid and parents untouched, attributes and tags Cedar-equal) *)
Theorem C13_coercion_entity_identity : forall sch u e,
  entity_ok sch u e -> wf_value (VRecord (e_attrs e)) = true -> wf_value (VRecord (e_tags e)) = true -> coerce_entity sch (u, e) = (u, e).
Proof. exact coerce_entity_id. Qed.
Theorem C13_coercion_entity_spelling : forall sch u e' e te,
  alookup (fst u) (ts_entities sch) = Some te ->
  spells (CRec (te_shape te)) (VRecord (e_attrs e')) (VRecord (e_attrs e)) ->
  vtyped (VRecord (e_attrs e)) (CRec (te_shape te)) -> wf_value (VRecord (e_attrs e)) = true ->
  match te_tags te with
  | Some tg => map fst (e_tags e') = map fst (e_tags e) /\
               Forall2 (fun kv' kv : str * value => spells tg (snd kv') (snd kv)) (e_tags e') (e_tags e) /\
               Forall (fun kv : str * value => vtyped (snd kv) tg /\ wf_value (snd kv) = true) (e_tags e)
  | None => e_tags e' = e_tags e
  end ->
  fst (coerce_entity sch (u, e')) = u /\
  e_parents (snd (coerce_entity sch (u, e'))) = e_parents e' /\
  veq (VRecord (e_attrs (snd (coerce_entity sch (u, e'))))) (VRecord (e_attrs e)) = true /\
  veq (VRecord (e_tags (snd (coerce_entity sch (u, e'))))) (VRecord (e_tags e)) = true.
Proof. exact coerce_entity_spelling. Qed.
(* the code does not require "type" and "id" to be the ONLY members of an implicit entity reference (an observation, not a finding: the
   property speaks of accepted spellings, and the validation that follows coercion sees an entity of the declared type) *)
Theorem C13_coercion_accepts_extra_members :
  coerce (CEnt [s_of "U"]) (VRecord [(s_of "extra", VLong 1); (s_of "id", VString (s_of "a")); (s_of "type", VString (s_of "U"))]) = VEntity (s_of "U") (s_of "a").
Proof. exact coerce_extra_members. Qed.

Theorem C13_entity_decoder_total : forall j, dec_entity_map j <> DFuel.
Proof. exact dec_entity_map_total. Qed.

(* the unrestricted statement is refuted: a record shaped like the escape decodes as the escape (known finding F17) *)
Theorem C13_roundtrip_full_refuted : forall print_ip ord,
  exists v v', decode_value (encode_value print_ip ord v) = Some v' /\ veq v v' = false.
Proof. exact value_json_roundtrip_refuted. Qed.

Print Assumptions C13_value_json_roundtrip.
Print Assumptions C13_value_json_identity_order.
Print Assumptions C13_type_tags_preserved.
Print Assumptions C13_roundtrip_full_refuted.
Print Assumptions C13_entity_map_roundtrip.
Print Assumptions C13_entity_map_second_encoding.
Print Assumptions C13_entity_spellings.
Print Assumptions C13_entity_map_order_independent.
Print Assumptions C13_entity_decoder_total.
Print Assumptions C13_request_roundtrip.
Print Assumptions C13_request_roundtrip_exact.
Print Assumptions C13_request_second_encoding.
Print Assumptions C13_request_spellings.
Print Assumptions C13_diagnostic_roundtrip.
Print Assumptions C13_diagnostic_roundtrip_iff.
Print Assumptions C13_diagnostic_second_encoding.
Print Assumptions C13_diagnostic_ints_in_range.
Print Assumptions C13_decision_roundtrip.
Print Assumptions C13_request_decoder_total.
Print Assumptions C13_diagnostic_decoder_total.
Print Assumptions C13_request_roundtrip_concrete.
Print Assumptions C13_coercion_spelling.
Print Assumptions C13_coercion_spellings_agree.
Print Assumptions C13_coercion_identity_on_typed.
Print Assumptions C13_coercion_keeps_canonical.
Print Assumptions C13_printed_decimal_spells.
Print Assumptions C13_printed_duration_spells.
Print Assumptions C13_printed_datetime_spells.
Print Assumptions C13_printed_ip_spells.
Print Assumptions C13_coercion_entity_identity.
Print Assumptions C13_coercion_entity_spelling.
Print Assumptions C13_coercion_accepts_extra_members.
