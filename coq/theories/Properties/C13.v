(* C13 — value, entity, entity-map, request and diagnostic JSON round-trips without loss (on JSON trees; bytes <-> tree is encoding/json).
   Models: Impl/ValueJson.v (values, tied by jsonenc / jsondec), Impl/EntityJson.v (entities and entity maps, tied by ejsonenc / ejsondec),
   Impl/RequestJson.v (requests, decisions, diagnostics: tied by rjsonenc / rjsondec / djsonenc / djsondec / decjson).
   Proofs: Proofs/ValueJsonProofs.v, Proofs/EntityJsonProofs.v, Proofs/RequestJsonProofs.v. *)
From Coq Require Import ZArith List Bool Permutation String.
Import ListNotations.
From Cedar Require Import Base.Json Lang.Value Lang.Expr Impl.IPAddr Impl.ValueJson Impl.PolicyJson Impl.EntityJson Proofs.ValueProofs Proofs.ValueJsonProofs
  Proofs.EntityJsonProofs Impl.RequestJson Proofs.RequestJsonProofs.

Section C13.
  Variable print_ip : bool -> Z -> Z -> str.           (* net/netip's printer: not modelled *)
  Variable ord : list json -> list json.               (* member order of an encoded set: any permutation (Go: slot order) *)
  Hypothesis ord_perm : forall l, Permutation (ord l) l.
  Variable ip_ok : bool -> Z -> Z -> bool.             (* the ip values whose printed form parses back (stdlib round trip, assumed) *)
  Hypothesis ip_roundtrip : forall v6 a p, ip_ok v6 a p = true -> parse_ip (print_ip v6 a p) = Some (v6, a, p).

  Theorem C13_value_json_roundtrip : forall v, json_safe ip_ok v = true ->
    exists v', decode_value (encode_value print_ip ord v) = Some v' /\ veq v v' = true /\ veq v' v = true.
  Proof. exact (value_json_roundtrip print_ip ord ord_perm ip_ok ip_roundtrip). Qed.

  Theorem C13_value_json_identity_order : forall v, json_safe ip_ok v = true -> (forall l, ord l = l) ->
    decode_value (encode_value print_ip ord v) = Some v.
  Proof. exact (value_json_roundtrip_eq print_ip ord ord_perm ip_ok ip_roundtrip). Qed.

  Theorem C13_type_tags_preserved : forall v v', json_safe ip_ok v = true ->
    decode_value (encode_value print_ip ord v) = Some v' -> type_tag v' = type_tag v.
  Proof. exact (decode_type_faithful print_ip ord ord_perm ip_ok ip_roundtrip). Qed.

  (* ---- entities and entity maps ---- *)
  Variable ukey : uid -> str.                          (* EntityUID.String(), the sort key of EntityMap.MarshalJSON: any injective key *)
  Hypothesis ukey_inj : forall a b, ukey a = ukey b -> a = b.

  (* decoding the encoding of an entity map yields the same entities - same uid, same parents (listed in sorted order), attributes and
     tags equal as values - in the sorted order of the encoding.  store_wf: distinct uids, duplicate-free parents, attrs and tags json_safe
     with plain keys (keys_plain: a limitation of the model's decoder domain, see EntityJsonProofs.v) *)
  Theorem C13_entity_map_roundtrip : forall m, store_wf ip_ok m ->
    exists m', dec_entity_map (enc_entity_map print_ip ord ukey m) = DOk m' /\ Forall2 entity_equiv (sort_entities ukey m) m'.
  Proof. exact (dec_enc_entity_map print_ip ord ord_perm ip_ok ip_roundtrip ukey). Qed.

  (* encoding is stable across a second round trip *)
  Theorem C13_entity_map_second_encoding : forall m m', store_wf ip_ok m -> (forall l, ord l = l) ->
    dec_entity_map (enc_entity_map print_ip ord ukey m) = DOk m' ->
    enc_entity_map print_ip ord ukey m' = enc_entity_map print_ip ord ukey m.
  Proof. exact (second_encoding_identical print_ip ord ord_perm ip_ok ip_roundtrip ukey). Qed.

  (* all accepted spellings of the uids and parents (implicit {type,id}, explicit {__entity:{..}}, any mixture) decode to the same store *)
  Theorem C13_entity_spellings : forall sp m, spelling print_ip ord sp -> store_wf ip_ok m ->
    dec_entity_map (enc_entity_map_sp print_ip ord ukey sp m) = dec_entity_map (enc_entity_map print_ip ord ukey m).
  Proof. exact (dec_entity_map_spelling print_ip ord ord_perm ip_ok ukey). Qed.

  (* the document does not depend on the order in which the map is traversed *)
  Theorem C13_entity_map_order_independent : forall m1 m2, NoDup (map fst m1) -> Permutation m1 m2 ->
    enc_entity_map print_ip ord ukey m1 = enc_entity_map print_ip ord ukey m2.
  Proof. exact (enc_entity_map_perm print_ip ord ukey ukey_inj). Qed.
End C13.

(* ---- requests, decisions and diagnostics (Impl/RequestJson.v) ---- *)
Section C13Request.
  Variable print_ip : bool -> Z -> Z -> str.
  Variable ord : list json -> list json.
  Hypothesis ord_perm : forall l, Permutation (ord l) l.
  Variable ip_ok : bool -> Z -> Z -> bool.
  Hypothesis ip_roundtrip : forall v6 a p, ip_ok v6 a p = true -> parse_ip (print_ip v6 a p) = Some (v6, a, p).

  (* request_wf: the context is json_safe with plain keys (no key that matches a member name of the request codec only up to case: the
     limit of the model's decoder domain); the three uids are ANY two strings *)
  Theorem C13_request_roundtrip : forall rq, request_wf ip_ok rq ->
    exists rq', dec_request (enc_request print_ip ord rq) = DOk rq' /\ request_equiv rq rq'.
  Proof. exact (dec_enc_request print_ip ord ord_perm ip_ok ip_roundtrip). Qed.

  Theorem C13_request_roundtrip_exact : forall rq, (forall l, ord l = l) -> request_wf ip_ok rq ->
    dec_request (enc_request print_ip ord rq) = DOk rq.
  Proof. exact (dec_enc_request_eq print_ip ord ord_perm ip_ok ip_roundtrip). Qed.

  Theorem C13_request_second_encoding : forall rq rq', (forall l, ord l = l) -> request_wf ip_ok rq ->
    dec_request (enc_request print_ip ord rq) = DOk rq' -> enc_request print_ip ord rq' = enc_request print_ip ord rq.
  Proof. exact (request_second_encoding print_ip ord ord_perm ip_ok ip_roundtrip). Qed.

  (* every accepted spelling of principal, action and resource - explicit __entity escape or implicit {type, id}, independently - decodes to
     the same request *)
  Theorem C13_request_spellings : forall sp1 sp2 sp3 rq, spelling print_ip ord sp1 -> spelling print_ip ord sp2 -> spelling print_ip ord sp3 ->
    request_wf ip_ok rq ->
    dec_request (JObj [(k "principal", sp1 (rq_principal rq)); (k "action", sp2 (rq_action rq)); (k "resource", sp3 (rq_resource rq));
                       (k "context", enc_record print_ip ord (rq_context rq))])
    = dec_request (enc_request print_ip ord rq).
  Proof. exact (request_spellings print_ip ord ord_perm ip_ok). Qed.
End C13Request.

(* diagnostics: exact round trip for every diagnostic whose positions are 64-bit ints - including the shapes in which the encoder omits
   an empty list - and exactly those; a decoded diagnostic never holds an out-of-range int *)
Theorem C13_diagnostic_roundtrip : forall d, diag_wf d -> dec_diagnostic (enc_diagnostic d) = DOk d.
Proof. exact dec_enc_diagnostic. Qed.
Theorem C13_diagnostic_roundtrip_iff : forall d, dec_diagnostic (enc_diagnostic d) = DOk d <-> diag_wf d.
Proof. exact dec_enc_diagnostic_iff. Qed.
Theorem C13_diagnostic_second_encoding : forall d d', diag_wf d -> dec_diagnostic (enc_diagnostic d) = DOk d' -> enc_diagnostic d' = enc_diagnostic d.
Proof. exact diagnostic_second_encoding. Qed.
Theorem C13_diagnostic_ints_in_range : forall j d, dec_diagnostic j = DOk d -> diag_wf d.
Proof. exact diag_int_range. Qed.
Theorem C13_decision_roundtrip : forall b, dec_decision (enc_decision b) = b.
Proof. exact dec_enc_decision. Qed.
Theorem C13_request_decoder_total : forall j, dec_request j <> DFuel.
Proof. exact dec_request_total. Qed.
Theorem C13_diagnostic_decoder_total : forall j, dec_diagnostic j <> DFuel.
Proof. exact dec_diagnostic_total. Qed.
(* with the concrete ipaddr printer (Impl/IPPrint.v), the exact set of round-tripping ip values (Proofs/IPProofs.v) and the identity member
   order: no hypothesis left *)
Theorem C13_request_roundtrip_concrete : forall rq, request_wf IPProofs.ip_ok rq -> dec_request (enc_request IPPrint.print_ip rq_id rq) = DOk rq.
Proof. exact rq_concrete_roundtrip. Qed.

Theorem C13_entity_decoder_total : forall j, dec_entity_map j <> DFuel.
Proof. exact dec_entity_map_total. Qed.

(* the unrestricted statement is refuted: a record shaped like the escape decodes as the escape (known finding F17) *)
Theorem C13_roundtrip_full_refuted : forall print_ip ord,
  exists v v', decode_value (encode_value print_ip ord v) = Some v' /\ veq v v' = false.
Proof. exact value_json_roundtrip_refuted. Qed.

Print Assumptions C13_value_json_roundtrip.
Print Assumptions C13_value_json_identity_order.
Print Assumptions C13_type_tags_preserved.
Print Assumptions C13_roundtrip_full_refuted.
Print Assumptions C13_entity_map_roundtrip.
Print Assumptions C13_entity_map_second_encoding.
Print Assumptions C13_entity_spellings.
Print Assumptions C13_entity_map_order_independent.
Print Assumptions C13_entity_decoder_total.
Print Assumptions C13_request_roundtrip.
Print Assumptions C13_request_roundtrip_exact.
Print Assumptions C13_request_second_encoding.
Print Assumptions C13_request_spellings.
Print Assumptions C13_diagnostic_roundtrip.
Print Assumptions C13_diagnostic_roundtrip_iff.
Print Assumptions C13_diagnostic_second_encoding.
Print Assumptions C13_diagnostic_ints_in_range.
Print Assumptions C13_decision_roundtrip.
Print Assumptions C13_request_decoder_total.
Print Assumptions C13_diagnostic_decoder_total.
Print Assumptions C13_request_roundtrip_concrete.
