(* C13 — value, entity and entity-map JSON round-trips without loss (on JSON trees; bytes <-> tree is encoding/json).
   Models: Impl/ValueJson.v (values, tied by jsonenc / jsondec), Impl/EntityJson.v (entities and entity maps, tied by ejsonenc / ejsondec).
   Proofs: Proofs/ValueJsonProofs.v, Proofs/EntityJsonProofs.v.
   Requests and diagnostics, and schema-guided coercion of implicit spellings, are decided by the direct oracle of the check only. *)
From Coq Require Import ZArith List Bool Permutation.
From Cedar Require Import Base.Json Lang.Value Lang.Expr Impl.IPAddr Impl.ValueJson Impl.PolicyJson Impl.EntityJson Proofs.ValueProofs Proofs.ValueJsonProofs
  Proofs.EntityJsonProofs.

Section C13.
  Variable print_ip : bool -> Z -> Z -> str.           (* net/netip's printer: not modelled *)
  Variable ord : list json -> list json.               (* member order of an encoded set: any permutation (Go: slot order) *)
  Hypothesis ord_perm : forall l, Permutation (ord l) l.
  Variable ip_ok : bool -> Z -> Z -> bool.             (* the ip values whose printed form parses back (stdlib round trip, assumed) *)
  Hypothesis ip_roundtrip : forall v6 a p, ip_ok v6 a p = true -> parse_ip (print_ip v6 a p) = Some (v6, a, p).

  Theorem C13_value_json_roundtrip : forall v, json_safe ip_ok v = true ->
    exists v', decode_value (encode_value print_ip ord v) = Some v' /\ veq v v' = true /\ veq v' v = true.
  Proof. exact (value_json_roundtrip print_ip ord ord_perm ip_ok ip_roundtrip). Qed.

  Theorem C13_value_json_identity_order : forall v, json_safe ip_ok v = true -> (forall l, ord l = l) ->
    decode_value (encode_value print_ip ord v) = Some v.
  Proof. exact (value_json_roundtrip_eq print_ip ord ord_perm ip_ok ip_roundtrip). Qed.

  Theorem C13_type_tags_preserved : forall v v', json_safe ip_ok v = true ->
    decode_value (encode_value print_ip ord v) = Some v' -> type_tag v' = type_tag v.
  Proof. exact (decode_type_faithful print_ip ord ord_perm ip_ok ip_roundtrip). Qed.

  (* ---- entities and entity maps ---- *)
  Variable ukey : uid -> str.                          (* EntityUID.String(), the sort key of EntityMap.MarshalJSON: any injective key *)
  Hypothesis ukey_inj : forall a b, ukey a = ukey b -> a = b.

  (* decoding the encoding of an entity map yields the same entities - same uid, same parents (listed in sorted order), attributes and
     tags equal as values - in the sorted order of the encoding.  store_wf: distinct uids, duplicate-free parents, attrs and tags json_safe
     with plain keys (keys_plain: a limitation of the model's decoder domain, see EntityJsonProofs.v) *)
  Theorem C13_entity_map_roundtrip : forall m, store_wf ip_ok m ->
    exists m', dec_entity_map (enc_entity_map print_ip ord ukey m) = DOk m' /\ Forall2 entity_equiv (sort_entities ukey m) m'.
  Proof. exact (dec_enc_entity_map print_ip ord ord_perm ip_ok ip_roundtrip ukey). Qed.

  (* encoding is stable across a second round trip *)
  Theorem C13_entity_map_second_encoding : forall m m', store_wf ip_ok m -> (forall l, ord l = l) ->
    dec_entity_map (enc_entity_map print_ip ord ukey m) = DOk m' ->
    enc_entity_map print_ip ord ukey m' = enc_entity_map print_ip ord ukey m.
  Proof. exact (second_encoding_identical print_ip ord ord_perm ip_ok ip_roundtrip ukey). Qed.

  (* all accepted spellings of the uids and parents (implicit {type,id}, explicit {__entity:{..}}, any mixture) decode to the same store *)
  Theorem C13_entity_spellings : forall sp m, spelling print_ip ord sp -> store_wf ip_ok m ->
    dec_entity_map (enc_entity_map_sp print_ip ord ukey sp m) = dec_entity_map (enc_entity_map print_ip ord ukey m).
  Proof. exact (dec_entity_map_spelling print_ip ord ord_perm ip_ok ukey). Qed.

  (* the document does not depend on the order in which the map is traversed *)
  Theorem C13_entity_map_order_independent : forall m1 m2, NoDup (map fst m1) -> Permutation m1 m2 ->
    enc_entity_map print_ip ord ukey m1 = enc_entity_map print_ip ord ukey m2.
  Proof. exact (enc_entity_map_perm print_ip ord ukey ukey_inj). Qed.
End C13.

Theorem C13_entity_decoder_total : forall j, dec_entity_map j <> DFuel.
Proof. exact dec_entity_map_total. Qed.

(* the unrestricted statement is refuted: a record shaped like the escape decodes as the escape (known finding F17) *)
Theorem C13_roundtrip_full_refuted : forall print_ip ord,
  exists v v', decode_value (encode_value print_ip ord v) = Some v' /\ veq v v' = false.
Proof. exact value_json_roundtrip_refuted. Qed.

Print Assumptions C13_value_json_roundtrip.
Print Assumptions C13_value_json_identity_order.
Print Assumptions C13_type_tags_preserved.
Print Assumptions C13_roundtrip_full_refuted.
Print Assumptions C13_entity_map_roundtrip.
Print Assumptions C13_entity_map_second_encoding.
Print Assumptions C13_entity_spellings.
Print Assumptions C13_entity_map_order_independent.
Print Assumptions C13_entity_decoder_total.
