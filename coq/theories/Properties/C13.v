(* C13 — value JSON round-trips without loss (on JSON trees; bytes <-> tree is encoding/json).
   Proofs: Proofs/ValueJsonProofs.v. *)
From Coq Require Import ZArith List Bool Permutation.
From Cedar Require Import Base.Json Lang.Value Impl.IPAddr Impl.ValueJson Proofs.ValueProofs Proofs.ValueJsonProofs.

Section C13.
  Variable print_ip : bool -> Z -> Z -> str.           (* net/netip's printer: not modelled *)
  Variable ord : list json -> list json.               (* member order of an encoded set: any permutation (Go: slot order) *)
  Hypothesis ord_perm : forall l, Permutation (ord l) l.
  Variable ip_ok : bool -> Z -> Z -> bool.             (* the ip values whose printed form parses back (stdlib round trip, assumed) *)
  Hypothesis ip_roundtrip : forall v6 a p, ip_ok v6 a p = true -> parse_ip (print_ip v6 a p) = Some (v6, a, p).

  Theorem C13_value_json_roundtrip : forall v, json_safe ip_ok v = true ->
    exists v', decode_value (encode_value print_ip ord v) = Some v' /\ veq v v' = true /\ veq v' v = true.
  Proof. exact (value_json_roundtrip print_ip ord ord_perm ip_ok ip_roundtrip). Qed.

  Theorem C13_value_json_identity_order : forall v, json_safe ip_ok v = true -> (forall l, ord l = l) ->
    decode_value (encode_value print_ip ord v) = Some v.
  Proof. exact (value_json_roundtrip_eq print_ip ord ord_perm ip_ok ip_roundtrip). Qed.

  Theorem C13_type_tags_preserved : forall v v', json_safe ip_ok v = true ->
    decode_value (encode_value print_ip ord v) = Some v' -> type_tag v' = type_tag v.
  Proof. exact (decode_type_faithful print_ip ord ord_perm ip_ok ip_roundtrip). Qed.
End C13.

(* the unrestricted statement is refuted: a record shaped like the escape decodes as the escape (known finding F17) *)
Theorem C13_roundtrip_full_refuted : forall print_ip ord,
  exists v v', decode_value (encode_value print_ip ord v) = Some v' /\ veq v v' = false.
Proof. exact value_json_roundtrip_refuted. Qed.

Print Assumptions C13_value_json_roundtrip.
Print Assumptions C13_value_json_identity_order.
Print Assumptions C13_type_tags_preserved.
Print Assumptions C13_roundtrip_full_refuted.
